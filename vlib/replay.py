"""Replay of stored violations against the current tree."""
from __future__ import annotations

import importlib
import json
import os
import sys

HERE = os.path.dirname(os.path.dirname(os.path.abspath(__file__)))


def replay_model(repo, violation):
    """Turn the counter-model of a failed obligation into concrete inputs and run the real function (where supported)."""
    try:
        from runtime import modelreplay
    except Exception:
        return None
    return modelreplay.replay(repo, violation)


def main(a):
    with open(a.file) as fh:
        rec = json.load(fh)
    prop = rec.get("property")
    print(f"replay of {a.file}: property={prop} obligation={rec.get('obligation')}")
    print("what:", rec.get("what"))
    if isinstance(rec.get("input"), dict) and rec["input"].get("rtcheck"):
        from runtime import rtcheck
        res = rtcheck.replay_input(a.repo, rec["input"]["contract"], rec["input"]["args"])
        print("native replay:", res)
        if res.get("violated"):
            print(f"VIOLATION property={prop} replay={a.file}")
            return 1
        print("not reproduced on the current tree")
        return 0
    if rec.get("input") is not None and rec.get("key"):
        sys.path.insert(0, a.repo)
        from vlib.props import PROPS
        drv = importlib.import_module(f"runtime.drivers.{PROPS[prop]['driver']}")
        if hasattr(drv, "replay"):
            res = drv.replay(rec["input"], repo=a.repo)
            print("native replay:", res)
            if res.get("violated"):
                print(f"VIOLATION property={prop} replay={a.file}")
                return 1
            print("not reproduced on the current tree")
            return 0
    print("no executable input stored (solver output only):")
    print((rec.get("solver_output") or "")[:2000])
    return 0
