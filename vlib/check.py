"""Per-property check: deductive tier (contracts on the real functions, SMT-discharged) + bounded stand-in tier.

Exit codes: 0 held on everything explored; 1 violation (VIOLATION line printed); 2 undecided; 3 checker crash.
"""
from __future__ import annotations

import importlib
import json
import os
import sys
import time
import traceback

HERE = os.path.dirname(os.path.dirname(os.path.abspath(__file__)))
EVID = os.path.join(HERE, "evidence")
REPLAYS = os.path.join(HERE, "replays")

GLOBAL_ASSUMPTIONS = [
    "machine arithmetic treated as mathematical: float64 as reals (equalities hold 'up to rounding error'), int64 as unbounded integers",
    "numba is absent, so @njit/@jit are the identity and the analysed source is the code that runs (checked on every run)",
    "NumPy primitives behave as their assumed contracts in pyvc/npmodel.py + pyvc/npfuncs.py (cross-checked natively by `verif.py selftest`)",
    "the verifier itself (pyvc, ~4k lines of python) and z3/cvc5 are trusted; mutant self-test and vacuity probes are the mitigation",
    "termination is proved only where a `decreases` clause is given",
]


def load_known_findings():
    p = os.path.join(HERE, "known_findings.json")
    if not os.path.exists(p):
        return []
    with open(p) as fh:
        return json.load(fh).get("findings", [])


def select_contracts(reg, prop):
    """Contracts tagged with the property (any clause)."""
    sel = []
    for t, lst in reg.items():
        for i, c in enumerate(lst):
            if c.assumed or c.inline:
                continue
            tags = set(c.props)
            for v in c.clause_props.values():
                tags |= set(v)
            if prop in tags:
                sel.append((t, i))
    return sel


HINT_KINDS = ("inv.init", "inv.preserve", "ghost-assert", "decreases")
HINT_POLICY = os.environ.get("VERIF_HINT_POLICY", "undecided")
hint_failures = []


def main(a):
    t0 = time.time()
    prop = a.prop
    tier = a.tier if a.tier in ("quick", "thorough") else "quick"
    seed = int(os.environ.get("VERIF_SEED", "0"))
    global EVID
    if os.path.realpath(a.repo) != "/repo":
        # runs against a scratch copy (seeded changes, self tests) never touch the committed evidence of /repo
        EVID = os.path.join(HERE, "replays", "scratch-evidence")
    os.makedirs(EVID, exist_ok=True)
    os.makedirs(REPLAYS, exist_ok=True)
    try:
        return _main(a, prop, tier, seed, t0)
    except SystemExit:
        raise
    except Exception:
        traceback.print_exc()
        print(f"CHECKER-CRASH property={prop}")
        return 3


def _main(a, prop, tier, seed, t0):
    from pyvc.extract import numba_absent
    from vlib import prove
    from vlib.props import PROPS
    if prop not in PROPS:
        print(f"unknown property {prop}")
        return 3
    meta = PROPS[prop]
    if not numba_absent():
        print("numba is installed: @njit is no longer the identity; the python-semantics proof does not apply")
        return 3
    findings = [f for f in load_known_findings() if f.get("property") == prop and f.get("status", "open") == "open"]
    violations = []        # dicts: what, replay, replayed(bool)
    undecided = []
    crashes = []
    known_seen = []

    # ------------------------------------------------------------------ deductive tier
    reg = prove.load_specs()
    sel = select_contracts(reg, prop)
    # dependency cone: contracts used at call sites of the selected ones (transitively)
    results = {}
    pending = list(sel)
    rounds = 0
    by_ident = {c.ident: (t, i) for t, lst in reg.items() for i, c in enumerate(lst)}
    if tier == "thorough":
        os.environ["VERIF_SECOND_SOLVER"] = "1"
    while pending and rounds < 6:
        rounds += 1
        res = prove.run(a.repo, pending, jobs=a.jobs, use_cache=not a.no_cache)
        nxt = []
        for r in res:
            results[(r["target"], r["index"])] = r
            for u in r.get("used_contracts", []):
                ident = u.replace("  [assumed]", "")
                ti = by_ident.get(ident)
                if ti and ti not in results and ti not in nxt and ti not in pending and not reg[ti[0]][ti[1]].assumed:
                    nxt.append(ti)
        pending = nxt
    # lemma obligations
    lemma_results = []
    from specs import theory
    used_lemmas = set()
    for r in results.values():
        used_lemmas |= set(r.get("used_lemmas", []))
    used_lemmas |= set(meta.get("lemmas", []))
    from pyvc.solve import check_valid, satisfiable
    vacuous_lemmas = []
    for name in sorted(used_lemmas):
        for lab, prem, concl in theory.lemma_obligations(name):
            rr = check_valid(prem, concl, want_model=True)
            if prem and satisfiable(prem, timeout=5) == "unsat":
                vacuous_lemmas.append(f"lemma[{name}]{lab}")      # contradictory hypotheses would prove anything
            lemma_results.append({"id": f"lemma[{name}]{lab}", "status": rr["status"], "backend": rr["backend"],
                                  "time_s": round(rr["time_s"], 4), "kind": "lemma", "model": rr.get("model", "")[:3000]})

    n_obl = n_dis = 0
    open_obls = []
    baseline = load_baseline()
    by_backend = {}
    second = {}
    solver_time = 0.0
    crashes.extend(f"{v}: contradictory hypotheses (vacuous lemma proof)" for v in vacuous_lemmas)
    functions = []
    samples = []
    assumptions = set(GLOBAL_ASSUMPTIONS)
    assumed_contracts = set()
    inlined = set()
    for key, r in sorted(results.items()):
        ident = r.get("ident", key[0])
        if r.get("error"):
            last = r["error"].strip().splitlines()[-1]
            print(f"ENGINE-ERROR {ident}:\n{r['error']}")
            if last.startswith("VACUOUS") or tree_is_pristine(a.repo):
                crashes.append(f"{ident}: {last}")        # on the registered (pristine) tree an engine exception is a checker defect
            else:
                # on another tree an exception inside the symbolic executor almost always means a construct outside its subset
                undecided.append(f"{ident}: engine exception while executing the changed code symbolically: {last}")
            continue
        if r.get("unsupported"):
            undecided.append(f"{ident}: unbindable/unsupported: {r['unsupported']}")
            continue
        if r.get("vacuity_requires") == "unsat":
            crashes.append(f"{ident}: contradictory requires (vacuous contract)")
        if r.get("function"):
            f = dict(r["function"])
            f["contract"] = ident
            f["level"] = r.get("level", "P")
            f["obligations"] = len(r["obligations"])
            functions.append(f)
        for x in r.get("assumptions", []):
            assumptions.add(x)
        if r.get("renamed_locals"):
            assumptions.add(f"contract {ident} re-anchored: locals renamed since the baseline, matched by position {r['renamed_locals']}")
        for u in r.get("used_contracts", []):
            if u.endswith("[assumed]"):
                assumed_contracts.add(u)
        inlined |= set(r.get("inlined", []))
        if not r["obligations"]:
            crashes.append(f"{ident}: zero obligations generated")
        if r.get("second_pass"):
            # verdicts on the non-hint obligations when the failed ghost assertion is not used as a fact: a counter-model there is a violation,
            # an obligation that merely stops being provable without the hint decides nothing
            for o2 in r["second_pass"]:
                if o2["kind"] in HINT_KINDS or o2["status"] == "proved":
                    continue
                if o2["status"] == "refuted":
                    violations.append({"obligation": o2["id"], "contract": ident, "target": key[0], "model": o2.get("model", ""),
                                       "what": f"obligation {o2['id']} has a counter-model once the failed ghost assertion is no longer assumed"})
                elif norm_id(o2["id"]) in baseline:
                    violations.append({"obligation": o2["id"], "contract": ident, "target": key[0],
                                       "model": "no counter-model: solvers answered " + str(o2.get("reason", "unknown")),
                                       "what": f"obligation {o2['id']} was discharged on the unchanged tree; a ghost assertion it relied on now has a "
                                               f"counter-model and without it the obligation is not provable ({o2.get('reason', 'unknown')})"})
                else:
                    undecided.append(f"{o2['id']}: not provable without the failed ghost assertion ({o2.get('reason', 'unknown')})")
        for o in r["obligations"]:
            n_obl += 1
            solver_time += o.get("time_s", 0)
            if o.get("second_solver"):
                second[o["second_solver"]] = second.get(o["second_solver"], 0) + 1
                if o["second_solver"] == "sat":
                    crashes.append(f"solver disagreement on {o['id']}: z3 says valid, cvc5 finds a counter-model")
            if o["status"] == "proved":
                n_dis += 1
                by_backend[o["backend"]] = by_backend.get(o["backend"], 0) + 1
                if len(samples) < 12 and o["kind"] in ("post", "inv.preserve", "raises", "pre"):
                    samples.append({"obligation": o["id"], "verdict": "proved", "backend": o["backend"]})
            elif HINT_POLICY == "undecided" and o.get("kind") in HINT_KINDS and o["status"] == "refuted":
                # the failed obligation is a proof HINT (loop invariant / ghost assertion) with a counter-model: the proof of the contract is void, the
                # property undecided (unless the second pass / the native search / the bounded driver decide it)
                hint_failures.append((ident, key[0], o))
            elif r.get("renamed_locals"):
                # the contract was re-anchored by a positional renaming of locals (a guess): its failures decide nothing
                undecided.append(f"{o['id']}: {o['status']} after re-anchoring the contract to renamed locals {r['renamed_locals']}")
            elif o["status"] == "refuted":
                violations.append({"obligation": o["id"], "contract": ident, "target": key[0], "model": o.get("model", ""),
                                   "what": f"obligation {o['id']} has a counter-model"})
            else:
                open_obls.append((ident, key[0], o))
    for ident, tgt, o in hint_failures:
        undecided.append(f"{o['id']}: {o['status']} (proof hint of {ident} no longer valid; contract not decided)")
    # obligations left open: retry alone with a doubled budget (guards against load-induced timeouts), then classify
    if len(open_obls) > 6 and not violations:
        # many obligations open at once is not a load-induced timeout (those hit one or two): the changed code no longer meets its contracts.
        # No retry (it would take minutes); classified directly by the baseline rule below.
        for ident, tgt, o in open_obls:
            if HINT_POLICY == "undecided" and o.get("kind") in HINT_KINDS:
                undecided.append(f"{o['id']}: {o.get('reason', 'unknown')} (proof hint of {ident}; contract not decided)")
            elif norm_id(o["id"]) in baseline:
                violations.append({"obligation": o["id"], "contract": ident, "target": tgt,
                                   "model": "no counter-model: solvers answered " + str(o.get("reason", "unknown")),
                                   "what": f"obligation {o['id']} was discharged on the unchanged tree and is no longer provable "
                                           f"({o.get('reason', 'unknown')})"})
            else:
                undecided.append(f"{o['id']}: {o.get('reason', 'unknown')}")
        open_obls = []
    if open_obls and violations:
        # a counter-model was already found: the verdict is decided, the open obligations are not retried (keeps a failing run short)
        for ident, tgt, o in open_obls:
            undecided.append(f"{o['id']}: {o.get('reason', 'unknown')} (not retried: the run already has a refuted obligation)")
        open_obls = []
    if open_obls:
        from pyvc.solve import TIMEOUT_S
        retry = prove.run(a.repo, sorted({(k, i) for (k, i), r in results.items() if r.get("ident") in {x[0] for x in open_obls}}),
                          jobs=2, use_cache=False, timeout=TIMEOUT_S * 2)
        status2 = {o["id"]: o for r in retry for o in r.get("obligations", [])}
        for ident, tgt, o in open_obls:
            o2 = status2.get(o["id"], o)
            if o2["status"] == "proved":
                n_dis += 1
                by_backend[o2["backend"] + "(retry)"] = by_backend.get(o2["backend"] + "(retry)", 0) + 1
            elif o2["status"] == "refuted":
                violations.append({"obligation": o["id"], "contract": ident, "target": tgt, "model": o2.get("model", ""),
                                   "what": f"obligation {o['id']} has a counter-model"})
            elif HINT_POLICY == "undecided" and o.get("kind") in HINT_KINDS:
                undecided.append(f"{o['id']}: {o2.get('reason', 'unknown')} (proof hint of {ident}; contract not decided)")
            elif norm_id(o["id"]) in baseline:
                # discharged on the unchanged tree, fails now: reported as a violation without a counter-model (brief: no-failing-input-found)
                violations.append({"obligation": o["id"], "contract": ident, "target": tgt,
                                   "model": "no counter-model: solvers answered " + str(o2.get("reason", "unknown")),
                                   "what": f"obligation {o['id']} was discharged on the unchanged tree and is no longer provable "
                                           f"({o2.get('reason', 'unknown')})"})
            else:
                undecided.append(f"{o['id']}: {o2.get('reason', 'unknown')}")
    for o in lemma_results:
        n_obl += 1
        if o["status"] == "proved":
            n_dis += 1
            by_backend[o["backend"]] = by_backend.get(o["backend"], 0) + 1
            samples.append({"obligation": o["id"], "verdict": "proved", "backend": o["backend"]})
        elif o["status"] == "refuted":
            violations.append({"obligation": o["id"], "contract": "theory", "target": "specs/theory.py", "model": o.get("model", ""),
                               "what": f"lemma {o['id']} has a counter-model"})
        else:
            undecided.append(f"{o['id']}: unknown")

    # ------------------------------------------------------------------ bounded tier
    bounded = None
    drv_name = meta.get("driver")
    if drv_name:
        try:
            sys.path.insert(0, a.repo)
            drv = importlib.import_module(f"runtime.drivers.{drv_name}")
            bounded = drv.run(tier=tier, seed=seed, repo=a.repo)
        except Exception as e:
            traceback.print_exc()
            tb = traceback.extract_tb(e.__traceback__)
            last = tb[-1] if tb else None
            in_repo = last is not None and os.path.abspath(last.filename).startswith(os.path.join(os.path.abspath(a.repo), "skchange") + os.sep)
            if in_repo and not tree_is_pristine(a.repo):
                # a call the driver makes without a guard (it never fails on the unchanged tree, where this check passes) was stopped by an
                # exception raised INSIDE the library: the changed code rejects / breaks on an input the unchanged code handles
                violations.append({"obligation": "bounded:unguarded-call", "contract": "bounded", "target": f"{os.path.relpath(last.filename, a.repo)}::{last.name}",
                                   "what": f"bounded driver {drv_name} was stopped by {type(e).__name__}: {str(e)[:200]} raised in "
                                           f"{os.path.relpath(last.filename, a.repo)}:{last.lineno} ({last.name}) by a call that succeeds on the unchanged tree",
                                   "input": None, "replayed": True, "no_input": True, "key": f"unguarded:{type(e).__name__}:{last.name}",
                                   "model": "".join(traceback.format_exception(type(e), e, e.__traceback__))[-3000:]})
            else:
                crashes.append(f"bounded driver {drv_name} crashed")
            bounded = None
        if bounded:
            for v in bounded.get("violations", []):
                violations.append({"obligation": v.get("clause", "bounded"), "contract": "bounded", "target": v.get("target", ""),
                                   "what": v["what"], "input": v.get("input"), "replayed": True, "key": v.get("key")})

    # ------------------------------------------------------------------ native cross-check of the cone's contracts (bounded; real code vs. clauses)
    native = {"contracts": 0, "samples": 0}
    try:
        import random as _random
        import numpy as _np
        from runtime import rtcheck
        from pyvc.contracts import all_contracts
        cone_idents = {r.get("ident") for r in results.values()}
        rtcheck.load_repo(a.repo)
        rng = _random.Random(seed)
        for c in all_contracts():
            if c.ident in cone_idents and rtcheck.amenable(c):
                with _np.errstate(all="ignore"):
                    rr = rtcheck.check_contract(c, a.repo, rng, 25 if tier == "quick" else 250, budget_s=3.0 if tier == "quick" else 20.0)
                native["contracts"] += 1
                native["samples"] += rr["accepted"]
                for f in rr["failures"][:1]:
                    violations.append({"obligation": f"native[{c.ident}#{f['clause']}]", "contract": c.ident, "target": c.target,
                                       "what": f"native cross-check of contract {c.ident}: {f['clause']} {f['what'][:300]}",
                                       "input": {"rtcheck": True, "contract": c.ident, "args": f["input"]}, "replayed": True})
    except Exception:
        traceback.print_exc()
        crashes.append("native contract cross-check crashed")

    # ------------------------------------------------------------------ thorough: engine self-test (numpy axioms + mutants on scratch copies)
    if tier == "thorough" and a.repo == "/repo":
        from vlib import selftest
        if selftest.main(a) != 0:
            crashes.append("engine self-test failed (a deliberately broken body was not detected or a NumPy axiom mismatched)")

    # ------------------------------------------------------------------ replay counter-models of failed obligations
    from vlib import replay as rp
    out_violations = []
    replay_cache = {}
    for v in violations:
        if not v.get("replayed"):
            try:
                if v.get("contract") not in replay_cache:
                    replay_cache[v.get("contract")] = rp.replay_model(a.repo, v)
                rr = replay_cache[v.get("contract")]
            except Exception:
                rr = None
            if rr and rr.get("violated"):
                v["replayed"] = True
                v["input"] = rr.get("input")
                v["what"] += f" ; replayed natively: {rr.get('detail', '')}"
        # known finding?
        kf = match_finding(findings, v)
        if kf is not None:
            if kf["id"] not in [k["id"] for k in known_seen]:
                known_seen.append(kf)
            continue
        out_violations.append(v)

    # ------------------------------------------------------------------ verdict + evidence
    level = meta.get("category", "proof")
    wall = time.time() - t0
    cov = {
        "obligations": n_obl, "discharged": n_dis,
        "checker_cmd": f".ovenv/bin/python verif.py check {prop} --tier {tier}",
        "trusted_base": sorted(assumed_contracts) + sorted(meta.get("trusted", [])),
        "functions_under_contract": functions,
        "by_backend": by_backend,
        "solver_time_s": round(solver_time, 2),
        "inlined_functions": sorted(inlined),
        "samples": samples or [{"note": "no proof obligations for this property; see bounded"}],
        "undecided": undecided[:40],
        "known_findings_seen": [k["id"] for k in known_seen],
        "explanation": meta.get("explanation", ""),
    }
    if second:
        cov["second_solver_cvc5"] = {**second, "what": "cvc5 re-run on every obligation z3 discharged: unsat = confirmed independently, unknown = no answer within "
                                     "the budget (not a failure), sat = disagreement (checker failure)"}
    cov["native_contract_crosscheck"] = {**native, "what": "real functions run by CPython on random small inputs satisfying `requires`; `ensures` / `raises` "
                                         "evaluated natively on the real results (bounded; guards against an unsound encoding)"}
    if bounded:
        cov["bounded"] = {k: bounded[k] for k in bounded if k not in ("violations", "samples")}
        cov["evaluations"] = int(bounded.get("evaluations", 0))
        cov["distinct_nontrivial"] = int(bounded.get("distinct_nontrivial", 0))
        cov["rule"] = bounded.get("rule", "")
        cov["exhaustive"] = bool(bounded.get("exhaustive", False))
        if level in ("exploration",):
            cov["samples"] = bounded.get("samples", [])[:10] + cov["samples"][:5]
        else:
            cov["bounded_samples"] = bounded.get("samples", [])[:6]
    ev = {
        "property_id": prop, "tier": tier, "seed": seed, "level": level, "coverage": cov,
        "assumptions": sorted(assumptions) + [f"assumed contract: {x}" for x in sorted(assumed_contracts)] + meta.get("assumptions", []),
        "wall_s": round(wall, 2), "violations": len(out_violations),
    }
    write_evidence(prop, ev)

    print(f"[{prop}] tier={tier} obligations={n_obl} discharged={n_dis} backends={by_backend} "
          f"functions={len(functions)} bounded_evals={cov.get('evaluations', 0)} wall={wall:.1f}s")
    for k in known_seen:
        print(f"KNOWN-FINDING: property={prop} {k['what']}")
    if out_violations:
        out_violations.sort(key=lambda v: not v.get("replayed"))       # violations with a concrete failing input first
        for n, v in enumerate(out_violations[:5]):
            path = os.path.join(REPLAYS, f"{prop}-{n}.json")
            with open(path, "w") as fh:
                json.dump({"property": prop, "obligation": v["obligation"], "contract": v["contract"], "target": v["target"],
                           "what": v["what"], "input": v.get("input"), "solver_output": v.get("model", ""), "key": v.get("key"),
                           "replayed": bool(v.get("replayed"))}, fh, indent=1, default=str)
            tail = "" if (v.get("replayed") and not v.get("no_input")) else " no-failing-input-found"
            print(f"  violated: {v['what'][:300]}")
            print(f"VIOLATION property={prop} replay={path}{tail}")
        return 1
    if crashes:
        for c in crashes:
            print("  crash:", c)
        return 3
    if undecided:
        for u in undecided[:20]:
            print("  undecided:", u)
        return 2
    if n_obl == 0 and level == "proof":
        print("  no obligations generated for a proof-level claim")
        return 3
    return 0


_PRISTINE = {}


def tree_is_pristine(repo):
    """True when `repo` is a git checkout whose skchange/ sources equal its HEAD (the registered tree); a tree with uncommitted changes
    (a change applied for checking) or a scratch copy without git metadata is not."""
    if repo not in _PRISTINE:
        import subprocess
        try:
            r = subprocess.run(["git", "-C", repo, "diff", "--quiet", "HEAD", "--", "skchange"], capture_output=True, timeout=30)
            _PRISTINE[repo] = r.returncode == 0 and os.path.isdir(os.path.join(repo, ".git"))
        except Exception:
            _PRISTINE[repo] = False
    return _PRISTINE[repo]


def norm_id(oid):
    import re
    return re.sub(r"(@L\+-?\d+|@[\w.]+:L\d+)?(/p\d+)?$", "", oid)


def load_baseline():
    p = os.path.join(HERE, "baseline_obligations.json")
    if not os.path.exists(p):
        return set()
    with open(p) as fh:
        return set(json.load(fh).get("proved", []))


def match_finding(findings, v):
    for f in findings:
        pat = f.get("match", {})
        if pat.get("obligation") and pat["obligation"] in str(v.get("obligation", "")):
            return f
        if pat.get("key") and v.get("key") and pat["key"] == v["key"]:
            return f
    return None


def write_evidence(prop, ev):
    import jsonschema
    with open(os.path.join(HERE, "schemas", "EVIDENCE.schema.json")) as fh:
        schema = json.load(fh)
    try:
        jsonschema.validate(ev, schema)
    except Exception as e:
        print("evidence does not validate:", str(e)[:300])
    with open(os.path.join(EVID, f"{prop}.json"), "w") as fh:
        json.dump(ev, fh, indent=1, default=str)
