"""Self tests of the verifier (DESIGN 9): NumPy-axiom cross-check, vacuity canary, mutant self-test on scratch copies."""
from __future__ import annotations

import os
import shutil
import subprocess
import sys
import tempfile

import numpy as np

HERE = os.path.dirname(os.path.dirname(os.path.abspath(__file__)))

# (file, old, new, prove-pattern, substring expected among the non-proved obligations)
MUTANTS = [
    ("skchange/costs/l2_cost.py", "partial_sums = sums[ends] - sums[starts]\n    partial_sums2 = sums2[ends] - sums2[starts]\n    n = (ends - starts).reshape(-1, 1)\n    costs = partial_sums2 - partial_sums**2 / n",
     "partial_sums = sums[ends - 1] - sums[starts]\n    partial_sums2 = sums2[ends] - sums2[starts]\n    n = (ends - starts).reshape(-1, 1)\n    costs = partial_sums2 - partial_sums**2 / n",
     "l2_cost_optim", "post[value]"),
    ("skchange/costs/gaussian_var_cost.py", "quadratic_form / var", "quadratic_form * var", "gaussian_var_cost_fixed<m1v1", "post[value]"),
    ("skchange/utils/validation/cuts.py", "np.all(interval_sizes >= min_size)", "np.all(interval_sizes > 0)", "check_cuts_array<int2d", "raises"),
    ("skchange/change_scores/from_cost.py", "right_intervals = cuts[:, [1, 2]]", "right_intervals = cuts[:, [0, 2]]", "evaluate<ChangeScore", "post[value]"),
    ("skchange/change_detectors/moving_window.py", "ends = splits + bandwidth", "ends = splits + bandwidth - 1", "moving_window_transform", "score_def"),
    ("skchange/change_detectors/moving_window.py", "if end - start >= min_detection_interval:", "if end - start > min_detection_interval:",
     "get_moving_window_changepoints", "complete"),
    ("skchange/change_detectors/seeded_binseg.py", "end - min_segment_length + 1)", "end - min_segment_length)", "run_seeded_binseg", "done"),
    ("skchange/change_detectors/seeded_binseg.py", "(cpt <= ends - 1)", "(cpt < ends - 1)", "greedy_changepoint_selection", "I3_containing_are_zero"),
    ("skchange/anomaly_detectors/circular_binseg.py", "(anomaly_end > starts)", "(anomaly_end > starts + 1)", "greedy_anomaly_selection", "loop#1"),
    ("skchange/change_detectors/pelt.py", "+ split_cost > opt_cost[current_obs_ind + 1] + penalty", "+ split_cost >= opt_cost[current_obs_ind + 1] + penalty",
     "run_pelt", "J3_prune_times"),
    ("skchange/change_detectors/pelt.py", "i = cpt_i - 1", "i = cpt_i - 2", "get_changepoints", "loop#1"),
    ("skchange/anomaly_detectors/mvcapa.py", "opt_start = starts[argmax]", "opt_start = starts[0] + argmax", "optimise_savings", "opt_start"),
    ("skchange/anomaly_detectors/mvcapa.py", "point_anomalies.append((i, i + 1))", "point_anomalies.append((i, i))", "get_anomalies", "point"),
    ("skchange/anomaly_detectors/mvcapa.py", "collective_betas.sum()", "collective_betas.max()", "run_base_capa", "J3"),
    ("skchange/anomaly_detectors/mvcapa.py", "np.minimum(sparse_penalties, intermediate_penalties)", "np.maximum(sparse_penalties, intermediate_penalties)",
     "combined_mvcapa_penalty<p>", "is_pointwise_min"),
    ("skchange/anomaly_detectors/mvcapa.py", "saving_order[: argmax + 1]", "saving_order[: argmax]", "find_affected_components", "loop#1:cols"),
    ("skchange/anomaly_detectors/mvcapa.py", "(-saving_values).argsort()", "saving_values.argsort()", "find_affected_components", "AX_sorted_unique"),
    ("skchange/anomaly_detectors/mvcapa.py", "point_saving, point_anomalies, point_alpha, point_betas", "point_saving, point_anomalies, sparse_alpha, sparse_betas",
     "run_mvcapa<dense/dense", "ghost-assert"),
    # (the single-site mutant `cuts[:, -1] > n_samples + 1` became equivalent when repair 61fead0 added the entry-wise range check in front of it)
    ("skchange/base/base_interval_scorer.py", "n_samples = len(self._X)", "n_samples = len(self._X) + 1", "evaluate<L2Cost/optim", "pre["),
]


def numpy_axioms(rng):
    """Native evaluation of the assumed NumPy contracts of pyvc/npfuncs.py on random small inputs (incl. ties, empty arrays)."""
    bad = []
    for _ in range(300):
        n = int(rng.integers(0, 7))
        v = rng.integers(-2, 3, size=n).astype(float)
        c = np.cumsum(v)
        if n and not (c[0] == v[0] and all(c[i + 1] == c[i] + v[i + 1] for i in range(n - 1))):
            bad.append("cumsum")
        if n:
            r = int(np.argmax(v))
            if not (all(v[r] >= x for x in v) and all(v[r] > v[q] for q in range(r))):
                bad.append("argmax-first")
            r = int(np.argmin(v))
            if not (all(v[r] <= x for x in v) and all(v[r] < v[q] for q in range(r))):
                bad.append("argmin-first")
        o = np.argsort(v)
        if sorted(o.tolist()) != list(range(n)) or any(v[o[i]] > v[o[i + 1]] for i in range(n - 1)):
            bad.append("argsort")
        u = np.unique(v)
        if any(u[i] >= u[i + 1] for i in range(len(u) - 1)) or set(u.tolist()) != set(v.tolist()):
            bad.append("unique")
        m = rng.random(n) < 0.5
        g = v[m]
        src = [i for i in range(n) if m[i]]
        if g.tolist() != [v[i] for i in src]:
            bad.append("mask-gather")
        x = float(rng.normal() * 3)
        if not (abs(np.round(x) - x) <= 0.5 and np.ceil(x) >= x > np.ceil(x) - 1):
            bad.append("round/ceil")
        d = np.diff(v)
        if n > 1 and d.tolist() != [v[i + 1] - v[i] for i in range(n - 1)]:
            bad.append("diff")
    a, b, k = 3.0, 50.0, 5
    gs = np.geomspace(a, b, k)
    if not (len(gs) == k and gs[0] == a and np.all(gs >= a) and np.all(gs <= b * (1 + 1e-12))):
        bad.append("geomspace")
    if len(np.geomspace(a, b, 0)) != 0:
        bad.append("geomspace-0")
    return sorted(set(bad))


def run_mutant(rel, old, new, pat):
    d = tempfile.mkdtemp(prefix="selftest_", dir=os.environ.get("VERIF_SCRATCH", "/tmp"))
    try:
        shutil.copytree("/repo/skchange", os.path.join(d, "skchange"), ignore=shutil.ignore_patterns("__pycache__", "tests"))
        p = os.path.join(d, rel)
        s = open(p).read()
        if old not in s:
            return None, "pattern not found in the current source"
        open(p, "w").write(s.replace(old, new, 1))
        r = subprocess.run([sys.executable, os.path.join(HERE, "verif.py"), "prove", pat, "--repo", d, "--no-cache"], capture_output=True, text=True,
                           env={**os.environ, "VERIF_TIMEOUT_S": "12"})
        lines = [l.strip() for l in r.stdout.splitlines() if l.strip().startswith(("refuted", "unknown", "UNSUPPORTED"))]
        return lines, None
    finally:
        shutil.rmtree(d, ignore_errors=True)


def main(a):
    rng = np.random.default_rng(int(os.environ.get("VERIF_SEED", "0")))
    bad = numpy_axioms(rng)
    print("numpy axioms cross-check:", "ok" if not bad else f"MISMATCH {bad}")
    failures = list(bad)
    from concurrent.futures import ThreadPoolExecutor
    with ThreadPoolExecutor(max_workers=8) as tp:
        outs = list(tp.map(lambda m: run_mutant(m[0], m[1], m[2], m[3]), MUTANTS))
    for (rel, old, new, pat, expect), (lines, err) in zip(MUTANTS, outs):
        if err:
            print(f"  SKIP  {pat}: {err}")
            continue
        hit = any(expect in l for l in lines)
        print(f"  {'ok  ' if hit else 'MISS'}  mutant of {pat}: expected a failed obligation containing '{expect}', got {len(lines)} failed")
        if not hit:
            failures.append(f"mutant {pat}")
    # native cross-check of the contracts against the real functions (guards against an unsound encoding / vacuous proofs)
    from runtime import rtcheck
    res = rtcheck.run("/repo", samples=120, seed=int(os.environ.get("VERIF_SEED", "0")))
    nf = [r["contract"] for r in res if r["failures"]]
    ns = [r["contract"] for r in res if not r["accepted"] and not r["skipped"]]
    print(f"native contract cross-check: {len(res)} contracts, {sum(r['accepted'] for r in res)} inputs, failures={nf}, without sample={ns}")
    failures += [f"native cross-check {x}" for x in nf + ns]
    if failures:
        print("SELFTEST FAILED:", failures)
        return 1
    print("selftest ok:", len(MUTANTS), "mutants detected")
    return 0
