"""Runs the deductive tier: symbolic execution of the real functions against their sidecar contracts + SMT discharge."""
from __future__ import annotations

import hashlib
import importlib
import json
import os
import pkgutil
import sys
import time
import traceback
from concurrent.futures import ProcessPoolExecutor, as_completed

HERE = os.path.dirname(os.path.dirname(os.path.abspath(__file__)))
CACHE_DIR = os.path.join(HERE, ".cache")


def load_specs():
    import specs
    for m in pkgutil.iter_modules(specs.__path__):
        importlib.import_module("specs." + m.name)
    from pyvc.contracts import REGISTRY
    return REGISTRY


def engine_version():
    h = hashlib.sha256()
    for d in ("pyvc", "specs"):
        p = os.path.join(HERE, d)
        for fn in sorted(os.listdir(p)):
            if fn.endswith(".py"):
                with open(os.path.join(p, fn), "rb") as fh:
                    h.update(fh.read())
    return h.hexdigest()[:16]


def _cache_get(key):
    p = os.path.join(CACHE_DIR, key[:2], key + ".json")
    if os.path.exists(p):
        try:
            with open(p) as fh:
                return json.load(fh)
        except Exception:
            return None
    return None


def _cache_put(key, val):
    d = os.path.join(CACHE_DIR, key[:2])
    os.makedirs(d, exist_ok=True)
    import threading
    tmp = os.path.join(d, key + f".{os.getpid()}.{threading.get_ident()}.tmp")
    try:
        with open(tmp, "w") as fh:
            json.dump(val, fh)
        os.replace(tmp, os.path.join(d, key + ".json"))
    except OSError:
        pass


def model_text(model, limit=6000):
    try:
        s = str(model)
    except Exception as e:  # pragma: no cover
        s = f"<model unprintable: {e}>"
    return s[:limit]


def verify_one(args):
    """Worker: verify one contract (by registry position). Returns a plain dict."""
    repo_root, target, index, use_cache, rlimit, timeout = args[:6]
    ghost_unused = len(args) > 6 and args[6]
    t0 = time.time()
    out = {"target": target, "index": index, "obligations": [], "error": None, "unsupported": None}
    try:
        import itertools
        import z3
        import pyvc.values as _vals
        _vals._counter = itertools.count()      # deterministic symbol names per contract (stable SMT behaviour and cache keys)
        from pyvc.extract import Repo, numba_absent
        from pyvc.solve import check_valid, satisfiable
        from pyvc.symex import Engine
        from pyvc.values import Unsupported
        reg = load_specs()
        from specs import theory
        c = reg[target][index]
        out["ident"] = c.ident
        out["level"] = c.level
        out["props"] = list(c.props)
        repo = Repo(repo_root)
        fi = repo.func(target)
        if fi is not None:
            out["function"] = {"path": fi.path, "qualname": fi.qualname, "lines": [fi.lineno, fi.end_lineno], "sha256": fi.sha256}
        eng = Engine(repo, spec_funcs=theory.SPEC_FUNCS, externals=theory.EXTERNALS, spec_consts=theory.SPEC_CONSTS)
        eng.ghost_asserts_unused = ghost_unused
        try:
            info = eng.verify(c)
        except Unsupported as e:
            out["unsupported"] = str(e)
            out["wall_s"] = time.time() - t0
            return out
        out["n_paths"] = info["n_paths"]
        if getattr(eng, "renamed_locals", None):
            out["renamed_locals"] = eng.renamed_locals
        out["assumptions"] = sorted(eng.assumptions)
        out["inlined"] = sorted(eng.inlined)
        out["used_contracts"] = sorted(eng.used_contracts)
        out["used_lemmas"] = sorted(eng.used_lemmas)
        # vacuity: the precondition must be satisfiable, and some path must return
        vac = satisfiable(info["entry_pc"])
        out["vacuity_requires"] = vac
        if vac == "unsat":
            out["error"] = "VACUOUS: the requires clause (with axioms) is unsatisfiable"
        # ... and the assumptions accumulated along the way (ghost assumes, callee posts, axioms) must leave some returning path feasible:
        # an inconsistent set of assumptions would discharge everything after it. Probe the returning paths until one is not refuted.
        rets = sorted(info.get("return_pcs", []), key=len, reverse=True)
        if rets and vac != "unsat":
            t1 = time.time()
            verdicts = []
            for pc in rets[:4]:
                verdicts.append(satisfiable(pc, timeout=2))
                if verdicts[-1] != "unsat":
                    break
            out["vacuity_paths"] = verdicts
            out["vacuity_wall_s"] = round(time.time() - t1, 2)
            if all(v == "unsat" for v in verdicts) and len(verdicts) == min(4, len(rets)):
                out["vacuity_error"] = "VACUOUS: every probed returning path has contradictory assumptions (ghost assume / callee post / axiom)"
        ver = engine_version()
        from concurrent.futures import ThreadPoolExecutor
        from pyvc.solve import check_smt2, to_smt2

        texts = [to_smt2(o.hyps, o.goal, get_model=True) for o in eng.obligations]   # z3 API is not thread safe

        from pyvc.solve import TIMEOUT_S as _FULL
        full = timeout or _FULL
        quick_budget = min(full, float(os.environ.get("VERIF_PHASE1_S", "8")))
        budget = {"t": quick_budget}

        def solve(pair):
            o, smt2 = pair
            key = hashlib.sha256((ver + smt2).encode()).hexdigest()
            rec = _cache_get(key) if use_cache else None
            if rec is None:
                r = check_smt2(smt2, want_model=True, timeout=budget["t"])
                rec = {"status": r["status"], "backend": r["backend"], "time_s": round(r["time_s"], 4), "reason": r.get("reason", "")}
                if r["status"] == "refuted":
                    rec["model"] = (r.get("model") or "")[:8000]
                if use_cache and r["status"] != "unknown":
                    _cache_put(key, rec)
            else:
                rec = dict(rec)
                rec["cached"] = True
            if os.environ.get("VERIF_SECOND_SOLVER") == "1" and rec["status"] == "proved" and rec["backend"] != "cvc5":
                # thorough tier: an independent second opinion on every obligation z3 discharged (a disagreement would be a solver bug)
                from pyvc.solve import second_opinion
                rec["second_solver"] = second_opinion(smt2, timeout=float(os.environ.get("VERIF_SECOND_TIMEOUT_S", "10")))
            rec.update({"id": o.oid, "kind": o.kind, "line": o.line, "props": list(o.props)})
            return rec

        # two phases keep a FAILING run short: every obligation first gets a small budget (on the unchanged tree all of them are discharged
        # within it); the ones left open are then re-run with the full budget - all of them when they are few, only the first few when a
        # contract has many open obligations (a changed function that no longer meets its contract: more solver time would not change the verdict)
        pairs = list(zip(eng.obligations, texts))
        with ThreadPoolExecutor(max_workers=int(os.environ.get("VERIF_SOLVER_THREADS", "4"))) as tp:
            recs = list(tp.map(solve, pairs))
            open_ix = [i for i, r in enumerate(recs) if r["status"] == "unknown"]
            if open_ix and full > quick_budget:
                budget["t"] = full
                retry = open_ix if len(open_ix) <= 8 else open_ix[:4]
                for i, r in zip(retry, tp.map(solve, [pairs[i] for i in retry])):
                    recs[i] = r
                for i in open_ix:
                    if i not in retry:
                        recs[i]["reason"] = (recs[i].get("reason", "") + f" (budget {quick_budget:g}s only: {len(open_ix)} obligations of this contract are open)").strip()
            out["obligations"] = recs
        if not ghost_unused and any(o["kind"] == "ghost-assert" and o["status"] == "refuted" for o in out["obligations"]):
            # a ghost assertion (a proof hint that is proved and then used as a fact) failed: what was proved after it rests on an unproved fact.
            # Second pass: the same contract with ghost assertions NOT used as facts; its verdicts on the non-hint obligations are what counts.
            second = verify_one((repo_root, target, index, False, rlimit, timeout, True))
            out["second_pass"] = second.get("obligations", [])
        if out.get("vacuity_error") and all(o["status"] == "proved" for o in out["obligations"]):
            # contradictory paths AND nothing failed: the proofs are worthless. (With a failed obligation - e.g. an invariant that does not
            # hold initially on a changed tree - the contradiction is a consequence of that failure, which is what gets reported.)
            out["error"] = out["vacuity_error"]
    except Exception:
        out["error"] = traceback.format_exc()
    out["wall_s"] = time.time() - t0
    return out


def run(repo_root, selection, jobs=16, use_cache=True, rlimit=None, timeout=None):
    """selection: list of (target, index). Returns list of worker results."""
    from pyvc.solve import RLIMIT_QUICK
    rl = rlimit or RLIMIT_QUICK
    tasks = [(repo_root, t, i, use_cache, rl, timeout) for t, i in selection]
    results = []
    if not tasks:
        return results
    if jobs <= 1 or len(tasks) == 1:
        return [verify_one(t) for t in tasks]
    import multiprocessing as mp
    ctx = mp.get_context("spawn")
    with ProcessPoolExecutor(max_workers=min(jobs, len(tasks)), mp_context=ctx) as ex:
        futs = [ex.submit(verify_one, t) for t in tasks]
        for f in as_completed(futs):
            results.append(f.result())
    results.sort(key=lambda r: (r["target"], r["index"]))
    return results
