"""Per-property metadata used by the check runner."""
HOOK_COMMITS = []

PROPS = {
    "C01": {"category": "proof", "driver": None},
    "C02": {"category": "proof", "driver": None},
    "C03": {"category": "proof", "driver": None},
    "C04": {"category": "proof", "driver": None},
    "C05": {"category": "exploration", "driver": None},
    "C06": {"category": "proof", "driver": None},
    "C07": {"category": "proof", "driver": None},
    "C08": {"category": "proof", "driver": None},
    "C09": {"category": "proof", "driver": None},
    "C10": {"category": "proof", "driver": None},
    "C11": {"category": "exploration", "driver": None},
    "C12": {"category": "proof", "driver": None},
    "C13": {"category": "proof", "driver": "C13", "claimed": True,
            "technique": "contract-based deductive verification (own AST->VC generator, z3/cvc5) of evaluate/_check_cuts/check_cuts_array/kernels "
                         "+ exhaustive bounded run-time check of the box [-2,n+2]^k",
            "level_text": "Post of BaseIntervalScorer.evaluate per concrete scorer class: raises ValueError iff not ValidCuts(cuts,n,k,min_size), "
                          "otherwise returns the spec value; every array index inside the kernels carries the obligation 0<=i<len (no wrap-around, "
                          "no slice truncation), so an unvalidated cut is a failed obligation. Discharged for all inputs by SMT; classes not yet under "
                          "contract are covered only by the exhaustive bounded driver (stated in evidence).",
            "level_note": "floats as reals, int64 unbounded, assumed NumPy/sktime contracts (evidence.assumptions); classes without a class-level "
                          "contract yet (listed in evidence as bounded-only) are checked exhaustively on the box for n<=5 only"},
    "C14": {"category": "proof", "driver": None},
    "C15": {"category": "proof", "driver": None},
    "C16": {"category": "proof", "driver": None},
    "C17": {"category": "exploration", "driver": None},
    "C18": {"category": "proof", "driver": None},
}
