"""Per-property metadata used by the check runner."""
HOOK_COMMITS = []

PROPS = {
    "C01": {"category": "proof", "driver": "C01", "claimed": True,
            "technique": "contract-based deductive verification of the cost kernels and of fit/evaluate per cost class against spec functions of the rows "
                         "(own AST->VC generator, z3/cvc5; prefix-sum lemmas by induction) + exhaustive bounded comparison with direct row-by-row costs",
            "level_text": "L2Cost and GaussianVarCost (optimal and fixed parameter, scalar/length-1/per-column): fit establishes PrefixSum predicates, evaluate "
                          "returns RSS / SQDEV / the Gaussian -2 log-likelihood of the rows X[s:e] for exactly the valid cuts (lemmas L_prefix, L_sqdev, L_rss "
                          "proved by induction); row i of the result is a function of (X, cuts[i], param) only. GaussianCovCost (np.cov/slogdet/inv) is bounded only.",
            "level_note": "floats as reals (statement: up to rounding error); LOG uninterpreted; floored-variance corner case taken as n log(2 pi 1e-16)+n; "
                          "GaussianCovCost and container conversion bounded"},
    "C02": {"category": "proof", "driver": "C02", "claimed": True,
            "technique": "contract-based deductive verification of run_pelt / get_changepoints against the Bellman optimum of an uninterpreted cost "
                         "(loop invariants with ghost presence maps and pruning witnesses, z3/cvc5) + brute-force bounded comparison",
            "level_text": "run_pelt: for every cost meeting the interface contract and the split inequality, every n>=2m, m>=1, penalty>=0: opt_cost[u]==PF(u) "
                          "for all prefixes u>=m (PF = optimal-partitioning value, lemma L_bellman: PF(t) <= cost of every admissible segmentation, by "
                          "induction), the returned chain is admissible and realises PF(n) link by link, and (lemma L_tel, induction) PF(n) equals the total "
                          "penalised cost SEGTOT of exactly the returned segmentation. All obligations incl. the delayed-pruning argument are "
                          "SMT-discharged for all inputs. PELT._predict / _transform_scores glue proved with the pandas calls assumed.",
            "level_note": "PF and SEGTOT are defined by their recurrences (definitions of the spec functions); floats as reals; interface contract of user "
                          "costs assumed; pandas constructors / check_data assumed in the class glue"},
    "C03": {"category": "proof", "driver": "C03", "claimed": True,
            "technique": "contract-based deductive verification of run_base_capa / optimise_savings / penalise_savings / get_anomalies against the Bellman "
                         "optimum of uninterpreted penalised savings (loop invariants with ghost presence maps and pruning witnesses, z3/cvc5) "
                         "+ brute-force bounded comparison with subset enumeration",
            "level_text": "run_base_capa: for all savings meeting the interface contract with penalised sub-additivity, all n>=m, 2<=m<=M and penalties: "
                          "opt_savings[T]==CG(T) for every prefix (CG = optimal total penalised saving, defined by its Bellman equations), every "
                          "back-pointer realises CG link by link, reported anomalies have admissible lengths and are pairwise disjoint; delayed pruning and "
                          "the max-length rule are part of the invariant. penalise_savings == best non-empty subset proved for p<=2 (both branches), "
                          "optimise_savings' start == the maximising candidate. Non-negative/non-decreasing scores follow from CG's definition. "
                          "'Re-evaluating the reported anomalies gives exactly the final score' is proved as a total: get_anomalies reports every link of "
                          "the value-carrying back-pointer chain (V[n] == V[0] + sum of the reported gains, list sums LSUM with the extensionality lemma "
                          "L_lsum_ext), hence CG(n) == sum of the penalised savings of the reported collective and point anomalies (run_base_capa, run_capa; run_mvcapa in all "
                          "16 penalty-kind combinations, under the named closed-form penalties: axiom AX_psc_ext - PSC depends on the betas only through "
                          "their values - with its premise proved per use). "
                          "CAPA/MVCAPA class glue (_predict, _transform_scores, ignore_point_anomalies) proved with pandas assumed; the p>2 subset exchange "
                          "argument is bounded.",
            "level_note": "CG defined by its Bellman equations; PSC for symbolic p is the assumed row-wise penalised saving (exchange argument assumed, "
                          "proved for p<=2, enumerated for p<=6 by the bounded tier); floats as reals; scorer interface assumed"},
    "C04": {"category": "proof", "driver": "C04", "claimed": True,
            "technique": "contract-based deductive verification of the search kernels' structural postconditions (own AST->VC generator, z3/cvc5) "
                         "+ bounded run-time check of predict's frame for all seven detectors",
            "level_text": "Structural posts proved for all inputs on the real kernels: get_changepoints/run_pelt (strictly increasing, in [m,n-m], gaps>=m), "
                          "greedy_changepoint_selection/run_seeded_binseg (range, spacing), make_seeded_intervals, and the further kernels listed in evidence; "
                          "the pandas formatting (_format_sparse_output, index/dtype/labels) and kernels not yet under contract are bounded only.",
            "level_note": "floats as reals; pandas constructors trusted; detectors' class glue (_predict wiring) bounded unless listed under functions_under_contract; "
                          "one recorded known finding (KF1)"},
    "C05": {"category": "exploration", "driver": "C05", "claimed": True,
            "technique": "bounded exhaustive run-time check of the six sparse/dense converters and transform over all valid sparse outputs x index types; "
                         "the two NumPy labelling loops (ChangeDetector.sparse_to_dense, SubsetCollectiveAnomalyDetector.sparse_to_dense) are "
                         "additionally under contract (own AST->VC generator, z3/cvc5) with the pandas accessors around them assumed, and so is "
                         "BaseDetector.transform for PELT, SeededBinarySegmentation, MovingWindow (threshold >= 0), MVCAPA, and (around the assumed pandas interval converter) CAPA and "
                         "CircularBinarySegmentation (converter preconditions discharged from the C04 posts, lemma L_chain)",
            "level_text": "Every valid sparse output for n<=5 (thorough 7), all index types of the quantifier and column labels; round trip and positional "
                          "labelling (bounded). Proved for all inputs on the real code: position t gets the number of changepoints <= t "
                          "(ChangeDetector.sparse_to_dense); cell (t, c) gets label a+1 iff t lies in anomaly a and c is one of its columns, 0 elsewhere "
                          "(SubsetCollectiveAnomalyDetector.sparse_to_dense); BaseDetector.transform of PELT, SeededBinarySegmentation, MovingWindow (non-negative threshold) and MVCAPA (16 penalty kinds) "
                          "returns exactly that labelling of THIS call's predict(X), one row per row of X, for arbitrary (uninterpreted) index labels; for CAPA and "
                          "CircularBinarySegmentation the same is proved around an ASSUMED contract of the pandas interval converter. The other "
                          "four converters and the anomaliser's transform are pandas label/position glue: "
                          "run-time only. The claim stays at the bounded level because the index/label clauses are decided by the bounded tier alone.",
            "level_note": "pandas semantics (frame column access, IntervalIndex left/right/closed, len(index), DataFrame constructor) is assumed in the two "
                          "proved loops and trusted elsewhere"},
    "C06": {"category": "proof", "driver": "C06", "claimed": True,
            "technique": "contract-based deductive verification of the adapters against the scorer interface contract and of the direct scores against the data "
                         "spec functions (z3/cvc5, algebraic lemmas) + exhaustive bounded comparison incl. user-defined costs",
            "level_text": "ChangeScore == C(s,e)-C(s,k)-C(k,e) and Saving == C_baseline - C_optimised proved for every cost meeting the interface contract "
                          "(uninterpreted cost); squared CUSUM == L2 change score computed from rows (L_cusum) and L2Saving == SQDEV(0)-RSS proved on the real "
                          "kernels and classes; non-negativity of CUSUM/L2 saving proved. LocalAnomalyScore (fit, _check_cuts, _evaluate, evaluate): value == C(outer) - (C(inner) + C of the pooled "
                          "surrounding rows refitted with a clone of the same configuration), for every data-keyed cost (token = FITTOK(kind, data); the pooled array "
                          "is proved elementwise to be the rows [c0,c1) then [c2,c3) of X). to_saving / to_change_score / to_local_anomaly_score: the cost passed in is "
                          "wrapped, as the same object, in exactly Saving / ChangeScore / LocalAnomalyScore, scores pass through (proved; isinstance on interface-typed "
                          "objects undetermined for proper subclasses). optimal<=fixed and split inequality for the Gaussian "
                          "costs: bounded only.",
            "level_note": "interface contract of user costs assumed; sktime clone/set_params assumed; floats as reals"},
    "C07": {"category": "proof", "driver": "C07", "claimed": True, "lemmas": ["L_greedy_mono"],
            "technique": "contract-based deductive verification of make_seeded_intervals, run_seeded_binseg and greedy_changepoint_selection "
                         "(loop invariants with ghost selection witnesses, z3/cvc5) + bounded comparison with a reference greedy incl. table scores",
            "level_text": "Proved for all inputs: candidate intervals inside [0,n] with lengths in [2m, min(M,n)] and non-empty for n>=2m; per-interval "
                          "score/maximiser == max / first argmax over admissible splits of the column-summed change score (any change score meeting the "
                          "interface contract); greedy selection: every changepoint supported by an above-threshold interval, every above-threshold "
                          "interval contains a changepoint, spacing >= m; and 'exactly the greedy sequence': with the pick order = the order before the final "
                          "sort, each changepoint is the maximiser of an interval (skolem witness WIT) that scores above the threshold and at least as high as "
                          "every interval not containing an earlier pick (first maximum on ties) - greedy_changepoint_selection and run_seeded_binseg. "
                          "Threshold monotonicity (a relation between two runs): lemma L_greedy_mono over the posts `greedy` and `exhaustive` of two runs with "
                          "t1 <= t2 (strong induction on the pick time: run 2's picks are a prefix of run 1's) + bounded (reference greedy, all threshold pairs).",
            "level_note": "np.geomspace/round/unique/ceil/log assumed contracts; termination of the greedy loop not proved; threshold formula under C15"},
    "C08": {"category": "proof", "driver": "C08", "claimed": True,
            "technique": "contract-based deductive verification of moving_window_transform, where and get_moving_window_changepoints "
                         "(z3/cvc5) + bounded check with recording / table change scores and time reversal",
            "level_text": "Proved for all inputs: scores[t] == AGG(t-b, t, t+b) for b<=t<=n-b and 0 elsewhere for every change score meeting the interface "
                          "contract (evaluate's cuts are proved valid, so bandwidth=1 cannot raise); where() returns exactly the maximal runs of True; "
                          "changepoints are the first positions of the maximum within each maximal above-threshold run of length >= "
                          "min_detection_interval, and nothing else. Time-reversal consequence: bounded.",
            "level_note": "scorer interface assumed; floats as reals; MovingWindow class glue (pandas) bounded"},
    "C09": {"category": "proof", "driver": "C09", "claimed": True, "lemmas": ["L_greedy_mono"],
            "technique": "contract-based deductive verification of make_anomaly_intervals, run_circular_binseg and greedy_anomaly_selection "
                         "(z3/cvc5) + bounded comparison with a reference greedy incl. table scores",
            "level_text": "Proved for all inputs: make_anomaly_intervals returns exactly the admissible inner intervals (both inclusions); per-candidate "
                          "score == max of the column-summed local anomaly score over them (0 when there is none: argmax is never taken of an empty "
                          "set), the scores-table columns hold the attaining inner interval; greedy selection: supported, exhaustive, pairwise "
                          "disjoint, strictly inside the data, length >= m; and 'exactly the greedy sequence' (pick order = order before the final sort; each anomaly "
                          "is the listed inner interval of a candidate - skolem witness WIT - scoring above the threshold and at least as high as every candidate "
                          "not overlapping an earlier pick, first maximum on ties): greedy_anomaly_selection and run_circular_binseg. Threshold monotonicity: "
                          "lemma L_greedy_mono over the posts of two runs (as for C07) + bounded.",
            "level_note": "local-anomaly-score interface assumed for user scores (the built-in LocalAnomalyScore adapter is proved under C06); termination of the greedy loop "
                          "not proved"},
    "C10": {"category": "proof", "driver": "C10", "claimed": True,
            "technique": "contract-based deductive verification: every kernel under contract must establish the scorer's fitted state itself (fit before "
                         "evaluate is a proof obligation, no store into caller arrays) + bounded differential testing of call histories (length<=3/4)",
            "level_text": "Proved frame/kill-before-use clauses: in run_pelt, moving_window_transform, run_seeded_binseg, run_circular_binseg the scorer is "
                          "refitted on the input before any evaluate (the interface contract of evaluate requires the fitted state of *this* call: ghost_n == n), "
                          "and stores into arrays the function does not own are failed obligations. History independence itself (induction over call "
                          "sequences, clone/set_params) is bounded: all histories up to length 3 (thorough 4) against fresh objects.",
            "level_note": "sktime clone/set_params/reset assumed; induction over histories is a paper argument; three recorded known findings (KF2-KF4)"},
    "C11": {"category": "exploration", "driver": "C11", "claimed": True,
            "technique": "bounded run-time check over the container/dtype/index/column-name grid for all detectors and scorers",
            "level_text": "Complete grid of {ndarray, Series, DataFrame} x {int64, float64} x index types x column labels x entry points for n in {12,20}, "
                          "compared with the DataFrame/RangeIndex reference run; as_2d_array is additionally under a proved contract.",
            "level_note": "pandas/sktime containers trusted; one recorded known finding (KF5)"},
    "C12": {"category": "proof", "driver": "C12", "claimed": True, "lemmas": ["L_sym_shift", "L_sym_scale", "L_sym_perm", "L_sym_rev"],
            "technique": "relational lemmas over the scorer contracts: the contracts prove evaluate == f(SUM, SSQ, RSS of the fitted rows); the lemmas "
                         "L_sym_shift/scale/perm/rev relate those spec functions for Y = T(X) by induction (z3), with the algebraic consequences for RSS, "
                         "the squared CUSUM and the Gaussian cost + bounded metamorphic testing with margin rule at scorer and detector level",
            "level_text": "Scorer level, all n, p, cuts and data: per-column shift leaves SUM-(e-s)c, RSS and hence L2Cost (optimal mean), the cost-based change "
                          "score, the squared and the non-negative CUSUM unchanged; positive scaling multiplies RSS by k^2 and moves each Gaussian cost by "
                          "m LOG(k^2), which cancels in the change score (no variance flooring); column permutation permutes the per-column SUM/SSQ (hence "
                          "every per-column output); time reversal maps SUM/SSQ (hence every cost / change score) of [s,e) to that of the mirrored cut "
                          "[n-e,n-s). Detector level (PELT / moving window / binary segmentation outputs, permutation invariance of the summed scores, "
                          "MVCAPA's permuted columns, PELT's optimal cost under reversal, GaussianCovCost, LocalAnomalyScore) is bounded only.",
            "level_note": "floats as reals (statement: compared only where the margin exceeds rounding error); LOG(xy)=LOG x+LOG y used as the hypothesis "
                          "M_i == L + L_i of the Gaussian lemma; variance flooring at 1e-16 excluded; detector-level symmetries bounded"},
    "C13": {"category": "proof", "driver": "C13", "claimed": True,
            "technique": "contract-based deductive verification (own AST->VC generator, z3/cvc5) of evaluate/_check_cuts/check_cuts_array/kernels "
                         "+ exhaustive bounded run-time check of the box [-2,n+2]^k",
            "level_text": "Post of BaseIntervalScorer.evaluate per concrete scorer class: raises ValueError iff not ValidCuts(cuts,n,k,min_size), "
                          "otherwise returns the spec value; every array index inside the kernels carries the obligation 0<=i<len (no wrap-around, "
                          "no slice truncation), so an unvalidated cut is a failed obligation. Discharged for all inputs by SMT; classes not yet under "
                          "contract are covered only by the exhaustive bounded driver (stated in evidence).",
            "level_note": "floats as reals, int64 unbounded, assumed NumPy/sktime contracts (evidence.assumptions); classes without a class-level "
                          "contract yet (listed in evidence as bounded-only) are checked exhaustively on the box for n<=5 only"},
    "C14": {"category": "proof", "driver": "C14", "claimed": True,
            "technique": "contract-based deductive verification of the validation helpers / raising paths (raises-iff clauses) + exhaustive bounded "
                         "boundary grid of Appendix B on the real detectors",
            "level_text": "Exceptional postconditions (raises ValueError iff the argument is outside its domain) proved for check_larger_than / "
                          "check_smaller_than and for the scorers' parameter checks; implicit library preconditions (non-empty argmax, in-bounds index, "
                          "non-zero divisor) are proof obligations in every kernel under contract, which is what rules out crashes at boundary "
                          "configurations. Constructors, check_data and the end-to-end grid are bounded (Appendix B grid, stated bound).",
            "level_note": "pd.Interval.__contains__, check_data (pandas) assumed/bounded; one recorded known finding (KF1b)"},
    "C15": {"category": "proof", "driver": "C15", "claimed": True, "lemmas": ["L_segtot_split", "L_pelt_pen_mono"],
            "technique": "contract-based deductive verification of the penalty/threshold functions with LOG/SQRT uninterpreted (explicit axiom instances, "
                         "telescoping lemma for cumsum/diff) + bounded numeric grid",
            "level_text": "capa_penalty, dense/sparse/combined MVCAPA penalties (combined == pointwise minimum of the individually computed dense, sparse and "
                          "intermediate cumulative penalties, for every p>=2 and scale>=0), capa_penalty_factory dispatch, PELT/seeded/circular default "
                          "formulas: proved for all n, p, k, scale. Intermediate penalty (scipy chi2), quantile tuning, fitted attributes (class glue) and "
                          "penalty monotonicity of PELT's changepoint count: lemma L_pelt_pen_mono over the posts of two runs (total_cost of each run + L_bellman for the "
                          "other run's segmentation give (b2 - b1)(K2 - K1) <= 0; L_segtot_split: SEGTOT = sum of segment costs + one penalty per segment) + bounded grid.",
            "level_note": "LOG/SQRT uninterpreted with the axiom instances listed in evidence; intermediate penalty assumed as increments of an uninterpreted "
                          "cumulative function; np.quantile assumed"},
    "C16": {"category": "proof", "driver": "C16", "claimed": True,
            "technique": "contract-based deductive verification of find_affected_components / run_mvcapa / MVCAPA._predict (own AST->VC generator, z3/cvc5; "
                         "argsort as an assumed permutation contract, telescoping lemma for the cumulative penalised saving, extensionality lemma for named "
                         "penalty sequences by induction) + bounded run-time check against top-k / argmax-k oracles incl. transform",
            "level_text": "For every per-variable saving meeting the interface contract, every n, p>=2, penalty kinds and scales: each reported anomaly's columns are "
                          "distinct valid positions listing the row's savings in non-increasing order (SC2(cols[r]) == SORTV(r), the r-th largest), and "
                          "k = len(cols) is the first maximiser of CUMPEN(k) = sum_{r<=k}(SORTV(r) - beta_r) - alpha, where (alpha, beta) are proved to be the "
                          "SPARSE penalty for collective anomalies (whatever collective_penalty is) and the POINT penalty for point anomalies "
                          "(run_mvcapa, all 16 penalty-kind combinations); MVCAPA._predict merges, sorts and forwards exactly these triples. "
                          "'transform marks exactly these columns': the labelling loop SubsetCollectiveAnomalyDetector.sparse_to_dense is proved (label a+1 exactly on the anomaly's rows x listed columns, 0 elsewhere); BaseDetector.transform's pandas wiring is bounded.",
            "level_note": "axiom AX_sorted_unique (uniqueness of the sorted rearrangement; its premises are proved at the use site); CUMPEN / SORTV / BETA are spec "
                          "functions defined by recurrence / naming; numpy argsort / cumsum / argmax contracts assumed; floats as reals (ties excluded by margin "
                          "in the statement); p=1 and the pandas frame / dense labelling bounded"},
    "C17": {"category": "exploration", "driver": "C17", "claimed": True,
            "technique": "bounded run-time check of StatThresholdAnomaliser with a stub change detector over all changepoint subsets",
            "level_text": "All changepoint subsets n<=7, statistics mean/median/max/min, bounds lower<=upper, several input containers, plus real inner "
                          "detectors on n=30; the user's detector object is compared before/after (only cloned).",
            "level_note": "pandas groupby semantics trusted; bounded only"},
    "C18": {"category": "exploration", "driver": "C18", "claimed": True,
            "technique": "bounded exhaustive run-time check of the real generators against the seeded scipy draw (contracts not yet discharged deductively)",
            "level_text": "All position lists, argument forms and invalid-argument classes for n<=6 (thorough 8), p<=3, seeds 0..4 against "
                          "mean + sqrt(var) * Z(seed). Bounded stand-in: generate.py is list/pandas/scipy glue not yet under contract.",
            "level_note": "scipy seeded rvs is a function of its arguments; bounded only"},
}
