"""Per-property metadata used by the check runner."""
HOOK_COMMITS = []

PROPS = {
    "C01": {"category": "proof", "driver": None},
    "C02": {"category": "proof", "driver": None},
    "C03": {"category": "proof", "driver": None},
    "C04": {"category": "proof", "driver": "C04", "claimed": True,
            "technique": "contract-based deductive verification of the search kernels' structural postconditions (own AST->VC generator, z3/cvc5) "
                         "+ bounded run-time check of predict's frame for all seven detectors",
            "level_text": "Structural posts proved for all inputs on the real kernels: get_changepoints/run_pelt (strictly increasing, in [m,n-m], gaps>=m), "
                          "greedy_changepoint_selection/run_seeded_binseg (range, spacing), make_seeded_intervals, and the further kernels listed in evidence; "
                          "the pandas formatting (_format_sparse_output, index/dtype/labels) and kernels not yet under contract are bounded only.",
            "level_note": "floats as reals; pandas constructors trusted; detectors' class glue (_predict wiring) bounded unless listed under functions_under_contract; "
                          "one recorded known finding (KF1)"},
    "C05": {"category": "exploration", "driver": None},
    "C06": {"category": "proof", "driver": None},
    "C07": {"category": "proof", "driver": None},
    "C08": {"category": "proof", "driver": None},
    "C09": {"category": "proof", "driver": None},
    "C10": {"category": "proof", "driver": None},
    "C11": {"category": "exploration", "driver": None},
    "C12": {"category": "proof", "driver": None},
    "C13": {"category": "proof", "driver": "C13", "claimed": True,
            "technique": "contract-based deductive verification (own AST->VC generator, z3/cvc5) of evaluate/_check_cuts/check_cuts_array/kernels "
                         "+ exhaustive bounded run-time check of the box [-2,n+2]^k",
            "level_text": "Post of BaseIntervalScorer.evaluate per concrete scorer class: raises ValueError iff not ValidCuts(cuts,n,k,min_size), "
                          "otherwise returns the spec value; every array index inside the kernels carries the obligation 0<=i<len (no wrap-around, "
                          "no slice truncation), so an unvalidated cut is a failed obligation. Discharged for all inputs by SMT; classes not yet under "
                          "contract are covered only by the exhaustive bounded driver (stated in evidence).",
            "level_note": "floats as reals, int64 unbounded, assumed NumPy/sktime contracts (evidence.assumptions); classes without a class-level "
                          "contract yet (listed in evidence as bounded-only) are checked exhaustively on the box for n<=5 only"},
    "C14": {"category": "proof", "driver": "C14", "claimed": True,
            "technique": "contract-based deductive verification of the validation helpers / raising paths (raises-iff clauses) + exhaustive bounded "
                         "boundary grid of Appendix B on the real detectors",
            "level_text": "Exceptional postconditions (raises ValueError iff the argument is outside its domain) proved for check_larger_than / "
                          "check_smaller_than and for the scorers' parameter checks; implicit library preconditions (non-empty argmax, in-bounds index, "
                          "non-zero divisor) are proof obligations in every kernel under contract, which is what rules out crashes at boundary "
                          "configurations. Constructors, check_data and the end-to-end grid are bounded (Appendix B grid, stated bound).",
            "level_note": "pd.Interval.__contains__, check_data (pandas) assumed/bounded; one recorded known finding (KF1b)"},
    "C15": {"category": "proof", "driver": None},
    "C16": {"category": "proof", "driver": None},
    "C17": {"category": "exploration", "driver": None},
    "C18": {"category": "proof", "driver": None},
}
