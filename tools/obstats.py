#!/usr/bin/env python3
"""Verify every non-assumed contract; print totals and the slowest obligations; optionally write the baseline of proved obligation ids."""
import json, os, re, sys, time
HERE = os.path.dirname(os.path.dirname(os.path.abspath(__file__)))
sys.path.insert(0, HERE)
from vlib import prove
def norm(oid):
    return re.sub(r"(@L\+-?\d+|@[\w.]+:L\d+)?(/p\d+)?$", "", oid)
if __name__ == "__main__":
    reg = prove.load_specs()
    sel = [(t, i) for t, l in reg.items() for i, c in enumerate(l) if not c.assumed and not c.inline]
    t0 = time.time()
    res = prove.run("/repo", sel, jobs=16, use_cache="--cache" in sys.argv)
    obs = [(o["time_s"], o["status"], o["id"]) for r in res for o in r["obligations"]]
    bad = [r for r in res if r.get("error") or r.get("unsupported")]
    print("contracts", len(res), "obligations", len(obs), "proved", sum(1 for o in obs if o[1] == "proved"), "wall", round(time.time() - t0, 1))
    for r in bad:
        print("  PROBLEM", r.get("ident"), (r.get("error") or r.get("unsupported"))[-200:])
    for t, s, i in sorted(obs, reverse=True)[:12]:
        print(f"  {t:7.2f}s {s:8s} {i}")
    for t, s, i in obs:
        if s != "proved":
            print("  NOT PROVED", s, i)
    if "--write-baseline" in sys.argv:
        ids = sorted({norm(i) for t, s, i in obs if s == "proved"} - {norm(i) for t, s, i in obs if s != "proved"})
        json.dump({"_comment": "normalised ids of obligations discharged on the unchanged tree (tools/obstats.py --write-baseline); an obligation "
                               "listed here that later fails is reported as a violation even without a counter-model",
                   "proved": ids}, open(os.path.join(HERE, "baseline_obligations.json"), "w"), indent=0)
        print("baseline written:", len(ids))
        # ordered local names of every function under contract (used to recognise renamed locals, pyvc/symex.py rename_for_locals)
        from pyvc.extract import Repo
        from pyvc.symex import Engine
        repo = Repo("/repo")
        locs = {}
        for t in reg:
            fi = repo.func(t)
            if fi is not None:
                locs[t] = Engine.assigned_locals(fi)
        json.dump(locs, open(os.path.join(HERE, "baseline_locals.json"), "w"), indent=0, sort_keys=True)
