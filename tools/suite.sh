#!/bin/sh
# Runs the repository's baseline suite (guard off) and prints the summary line + failing test ids.
cd "${1:-/repo}" && /venv/bin/python -m pytest -q -p no:cacheprovider --timeout=900 --continue-on-collection-errors 2>&1 | grep -E "^FAILED |passed|failed" | tail -15
