#!/usr/bin/env python3
"""Confirm a seeded change (from /tmp/seed/Cxx/seed) in a scratch worktree and run the property's check against it.
usage: seedcheck.py Cxx [--keep] [--props C01,C02]   (props default: the seed's own property)"""
import json, os, shutil, subprocess, sys, time
pid = sys.argv[1]
props = [pid]
root, suffix = "/tmp/seed", ""
for a in sys.argv[2:]:
    if a.startswith("--props"):
        props = a.split("=")[1].split(",")
    if a.startswith("--root"):
        root = a.split("=")[1]
    if a.startswith("--suffix"):
        suffix = a.split("=")[1]
src = f"{root}/{pid}/seed"
scratch = f"/tmp/sc_{pid}{suffix}"
PY = "/verif/.ovenv/bin/python"
def run(cmd, **kw):
    return subprocess.run(cmd, shell=True, capture_output=True, text=True, **kw)
run(f"git -C /repo worktree remove --force {scratch}")
r = run(f"git -C /repo worktree add -q --detach {scratch} HEAD")
assert r.returncode == 0, r.stderr
out = {"property": pid}
try:
    r = run(f"git -C {scratch} apply {src}/patch.diff")
    out["applies"] = r.returncode == 0
    if not out["applies"]:
        print("PATCH DOES NOT APPLY", r.stderr); sys.exit(2)
    r = run(f"cd {scratch} && PYTHONPATH={scratch} /venv/bin/python -m pytest -q -p no:cacheprovider --timeout=900 2>&1 | tail -1")
    out["suite_with_change"] = r.stdout.strip()
    r1 = run(f"cd /tmp && PYTHONPATH={scratch} /venv/bin/python {src}/demo.py")
    r0 = run(f"cd /tmp && PYTHONPATH=/repo /venv/bin/python {src}/demo.py")
    out["demo_exit_changed"], out["demo_exit_unchanged"] = r1.returncode, r0.returncode
    out["demo_msg"] = (r1.stdout + r1.stderr).strip()[-300:]
    out["checks"] = {}
    for p in props:
        t0 = time.time()
        r = run(f"cd /verif && VERIF_TIMEOUT_S=25 {PY} verif.py check {p} --repo {scratch} --no-cache")
        lines = [l for l in r.stdout.splitlines() if l.startswith(("VIOLATION", "  violated", "  undecided", "  crash", "["))]
        out["checks"][p] = {"exit": r.returncode, "wall_s": round(time.time() - t0), "lines": lines[:8]}
    print(json.dumps(out, indent=1))
    dst = f"/verif/seeded/{pid}{suffix}"
    os.makedirs(dst, exist_ok=True)
    for f in ("patch.diff", "demo.py"):
        shutil.copy(os.path.join(src, f), os.path.join(dst, f))
    meta = json.load(open(os.path.join(src, "meta.json")))
    meta["confirmed_by_main"] = out
    json.dump(meta, open(os.path.join(dst, "meta.json"), "w"), indent=1)
finally:
    run(f"git -C /repo worktree remove --force {scratch}")
