"""Print python source with docstrings elided, keeping real line numbers."""
import ast, sys
for path in sys.argv[1:]:
    src = open(path).read()
    lines = src.splitlines()
    tree = ast.parse(src)
    skip = set()
    for node in ast.walk(tree):
        if isinstance(node, (ast.FunctionDef, ast.ClassDef, ast.Module)):
            b = node.body
            if b and isinstance(b[0], ast.Expr) and isinstance(getattr(b[0], "value", None), ast.Constant) and isinstance(b[0].value.value, str):
                for l in range(b[0].lineno + 1, b[0].end_lineno + 1):
                    skip.add(l)
    print("#" * 20, path)
    for i, l in enumerate(lines, 1):
        if i in skip or not l.strip():
            continue
        print(f"{i:4d} {l}")
