#!/usr/bin/env python3
"""Apply a textual mutation to a scratch copy of the repo and run the prover on it.
usage: mut.py <relpath> <old> <new> <prove-pattern> [more patterns]"""
import os, shutil, subprocess, sys, tempfile
rel, old, new, *pats = sys.argv[1:]
d = tempfile.mkdtemp(prefix="mut_", dir="/tmp")
try:
    shutil.copytree("/repo/skchange", os.path.join(d, "skchange"), ignore=shutil.ignore_patterns("__pycache__", "tests"))
    p = os.path.join(d, rel)
    s = open(p).read()
    assert old in s, "pattern not found"
    open(p, "w").write(s.replace(old, new, 1))
    for pat in pats:
        r = subprocess.run([sys.executable, "/verif/verif.py", "prove", pat, "--repo", d, "--no-cache"], capture_output=True, text=True,
                           env={**os.environ, "VERIF_TIMEOUT_S": os.environ.get("VERIF_TIMEOUT_S", "15")})
        lines = [l for l in r.stdout.splitlines() if not l.startswith("==") or "UNSUPP" in l]
        print(f"[{pat}] exit={r.returncode}")
        print("\n".join(lines[:12]))
finally:
    shutil.rmtree(d, ignore_errors=True)
