#!/usr/bin/env python3
"""Systematic mutation sweep of every function under contract (or inlined into one): how many small edits do the proofs notice?

For each function: AST mutants (comparison boundary flips, + <-> -, small integer constants +-1, and <-> or, dropped `not`, swapped
first two call arguments of selected calls); each mutant is written into a scratch copy of /repo/skchange and the contracts that cover the
function are re-verified. Outcome per mutant: killed (an obligation refuted / no longer provable), undecided (contract unbindable /
unsupported construct), survived (every obligation still proved). Survivors are either equivalent mutants or places where the contract is
weaker than the code -- they are written to the report for triage. Nothing here is evidence; it is a tool to strengthen contracts.

usage: mutsweep.py [--jobs=N] [--only=substring] [--max-per-fn=K] [--out=report.json]
"""
import ast, copy, json, os, shutil, subprocess, sys, tempfile, time
from concurrent.futures import ThreadPoolExecutor

HERE = os.path.dirname(os.path.dirname(os.path.abspath(__file__)))
sys.path.insert(0, HERE)
REPO = "/repo"


def coverage_map():
    """function key 'path::qualname' -> list of contract idents that verify it (as target or by inlining)"""
    from vlib import prove
    reg = prove.load_specs()
    sel = [(t, i) for t, l in reg.items() for i, c in enumerate(l) if not c.assumed and not c.inline]
    res = prove.run(REPO, sel, jobs=16, use_cache=True)
    cov = {}
    for r in res:
        if r.get("error") or r.get("unsupported"):
            continue
        cov.setdefault(r["target"], set()).add(r["ident"])
        for f in r.get("inlined", []):
            cov.setdefault(f, set()).add(r["ident"])
    return {k: sorted(v) for k, v in cov.items()}


class Mutator(ast.NodeTransformer):
    """applies the k-th applicable mutation (counting in visit order); records its description"""

    def __init__(self, k):
        self.k, self.n, self.desc = k, 0, None

    def _hit(self, desc):
        self.n += 1
        if self.n - 1 == self.k:
            self.desc = desc
            return True
        return False

    def visit_Compare(self, node):
        self.generic_visit(node)
        if len(node.ops) == 1:
            swaps = {ast.Lt: ast.LtE, ast.LtE: ast.Lt, ast.Gt: ast.GtE, ast.GtE: ast.Gt, ast.Eq: ast.NotEq, ast.NotEq: ast.Eq}
            t = type(node.ops[0])
            if t in swaps and self._hit(f"L{node.lineno}: {t.__name__} -> {swaps[t].__name__}"):
                node = copy.deepcopy(node)
                node.ops = [swaps[t]()]
        return node

    def visit_BinOp(self, node):
        self.generic_visit(node)
        swaps = {ast.Add: ast.Sub, ast.Sub: ast.Add}
        t = type(node.op)
        if t in swaps and self._hit(f"L{node.lineno}: {t.__name__} -> {swaps[t].__name__}"):
            node = copy.deepcopy(node)
            node.op = swaps[t]()
        return node

    def visit_BoolOp(self, node):
        self.generic_visit(node)
        swaps = {ast.And: ast.Or, ast.Or: ast.And}
        t = type(node.op)
        if self._hit(f"L{node.lineno}: {t.__name__} -> {swaps[t].__name__}"):
            node = copy.deepcopy(node)
            node.op = swaps[t]()
        return node

    def visit_UnaryOp(self, node):
        self.generic_visit(node)
        if isinstance(node.op, ast.Not) and self._hit(f"L{node.lineno}: dropped not"):
            return node.operand
        if isinstance(node.op, ast.USub) and not isinstance(node.operand, ast.Constant) and self._hit(f"L{node.lineno}: dropped unary minus"):
            return node.operand
        return node

    def visit_Constant(self, node):
        if isinstance(node.value, bool) or not isinstance(node.value, int) or not (0 <= node.value <= 3):
            return node
        for d in (1, -1):
            if self._hit(f"L{node.lineno}: constant {node.value} -> {node.value + d}"):
                return ast.copy_location(ast.Constant(node.value + d), node)
        return node

    def visit_Call(self, node):
        self.generic_visit(node)
        f = node.func
        name = f.attr if isinstance(f, ast.Attribute) else (f.id if isinstance(f, ast.Name) else "")
        if name in ("minimum", "maximum", "min", "max") and self._hit(f"L{node.lineno}: {name} flipped"):
            node = copy.deepcopy(node)
            new = {"minimum": "maximum", "maximum": "minimum", "min": "max", "max": "min"}[name]
            if isinstance(node.func, ast.Attribute):
                node.func.attr = new
            else:
                node.func.id = new
        elif name in ("argmax", "argmin") and self._hit(f"L{node.lineno}: {name} flipped"):
            node = copy.deepcopy(node)
            new = {"argmax": "argmin", "argmin": "argmax"}[name]
            if isinstance(node.func, ast.Attribute):
                node.func.attr = new
            else:
                node.func.id = new
        return node

    def visit_arguments(self, node):  # default values are API, not behaviour the contracts talk about
        return node

    def visit_Raise(self, node):      # error messages
        return node

    def visit_Expr(self, node):       # keep docstrings untouched
        if isinstance(node.value, ast.Constant) and isinstance(node.value.value, str):
            return node
        return self.generic_visit(node)


def function_node(tree, qualname):
    parts = qualname.split(".")
    body = tree.body
    node = None
    for p in parts:
        node = next((n for n in body if isinstance(n, (ast.FunctionDef, ast.ClassDef)) and n.name == p), None)
        if node is None:
            return None
        body = node.body
    return node


def mutants_of(path, qualname, limit):
    src = open(os.path.join(REPO, path)).read()
    tree = ast.parse(src)
    fn = function_node(tree, qualname)
    if fn is None:
        return []
    # count
    m = Mutator(-1)
    m.visit(copy.deepcopy(fn))
    total = m.n
    ks = list(range(total))
    if limit and total > limit:
        step = total / limit
        ks = sorted({int(i * step) for i in range(limit)})
    out = []
    lines = src.splitlines(keepends=True)
    for k in ks:
        mu = Mutator(k)
        new_fn = mu.visit(copy.deepcopy(fn))
        ast.fix_missing_locations(new_fn)
        if mu.desc is None:
            continue
        text = ast.unparse(new_fn)
        indent = " " * fn.col_offset
        text = "".join(indent + l + "\n" for l in text.splitlines())
        start = (fn.decorator_list[0].lineno if fn.decorator_list else fn.lineno) - 1
        new_src = "".join(lines[:start]) + text + "".join(lines[fn.end_lineno:])
        out.append((k, mu.desc, new_src))
    return out


def run_mutant(job):
    fkey, idents, k, desc, new_src, scratch_root = job
    path, qual = fkey.split("::")
    d = tempfile.mkdtemp(prefix="ms_", dir=scratch_root)
    try:
        shutil.copytree(os.path.join(REPO, "skchange"), os.path.join(d, "skchange"), ignore=shutil.ignore_patterns("__pycache__", "tests"))
        with open(os.path.join(d, path), "w") as fh:
            fh.write(new_src)
        status, detail = "survived", ""
        for ident in idents[:6]:
            r = subprocess.run([sys.executable, os.path.join(HERE, "verif.py"), "prove", ident, "--repo", d, "--no-cache", "--jobs", "1", "--exact"],
                               capture_output=True, text=True, env={**os.environ, "VERIF_TIMEOUT_S": "8", "VERIF_SOLVER_THREADS": "2"})
            out = r.stdout
            if "refuted" in out or "unknown " in out:
                first = next((l.strip() for l in out.splitlines() if l.strip().startswith(("refuted", "unknown"))), "")
                return {"fn": fkey, "k": k, "mutation": desc, "status": "killed", "by": ident, "detail": first[:160]}
            if "UNSUPPORTED" in out or "ERROR" in out:
                status, detail = "undecided", next((l.strip() for l in out.splitlines() if "UNSUPPORTED" in l or "ERROR" in l), "")[:160]
        return {"fn": fkey, "k": k, "mutation": desc, "status": status, "detail": detail}
    finally:
        shutil.rmtree(d, ignore_errors=True)


def main():
    jobs = next((int(a.split("=")[1]) for a in sys.argv[1:] if a.startswith("--jobs")), 8)
    only = next((a.split("=")[1] for a in sys.argv[1:] if a.startswith("--only")), "")
    limit = next((int(a.split("=")[1]) for a in sys.argv[1:] if a.startswith("--max-per-fn")), 24)
    outp = next((a.split("=")[1] for a in sys.argv[1:] if a.startswith("--out")), "mutsweep_report.json")
    scratch_root = os.environ.get("VERIF_SCRATCH", "/tmp")
    cov = coverage_map()
    work = []
    for fkey, idents in sorted(cov.items()):
        if only and only not in fkey:
            continue
        path, qual = fkey.split("::")
        for k, desc, new_src in mutants_of(path, qual, limit):
            work.append((fkey, idents, k, desc, new_src, scratch_root))
    print(f"{len(cov)} functions covered, {len(work)} mutants", flush=True)
    t0 = time.time()
    res = []
    with ThreadPoolExecutor(max_workers=jobs) as tp:
        for n, r in enumerate(tp.map(run_mutant, work)):
            res.append(r)
            if r["status"] != "killed":
                print(f"  {r['status'].upper():9} {r['fn']}  {r['mutation']}  {r.get('detail', '')}", flush=True)
    tot = len(res)
    by = {s: sum(1 for r in res if r["status"] == s) for s in ("killed", "undecided", "survived")}
    print(f"mutants={tot} {by} wall={time.time() - t0:.0f}s")
    json.dump({"summary": by, "results": res}, open(outp, "w"), indent=1)


if __name__ == "__main__":
    main()
