#!/usr/bin/env python3
"""Re-run the stored seeded changes (/verif/seeded/<id>/patch.diff) against the current checks on scratch copies of /repo.
usage: reseed.py [ids...] [--jobs=N]   -> one line per seed: id, exit code, first VIOLATION / undecided line. Exit 1 if a seed is not detected."""
import json, os, shutil, subprocess, sys, tempfile
from concurrent.futures import ThreadPoolExecutor
HERE = os.path.dirname(os.path.dirname(os.path.abspath(__file__)))
ids = [a for a in sys.argv[1:] if not a.startswith("--")] or sorted(os.listdir(f"{HERE}/seeded"))
jobs = next((int(a.split("=")[1]) for a in sys.argv[1:] if a.startswith("--jobs")), 4)


def one(sid):
    prop = sid[:3]
    d = tempfile.mkdtemp(prefix=f"rs_{sid}_", dir="/tmp")
    try:
        subprocess.run(f"git -C /repo archive HEAD | tar -x -C {d}", shell=True, check=True)
        r = subprocess.run(["git", "apply", f"{HERE}/seeded/{sid}/patch.diff"], cwd=d, capture_output=True, text=True)
        if r.returncode:
            return sid, "patch does not apply", ""
        r = subprocess.run([sys.executable, f"{HERE}/verif.py", "check", prop, "--repo", d, "--no-cache"], capture_output=True, text=True,
                           env={**os.environ, "VERIF_TIMEOUT_S": "25"})
        lines = [l for l in r.stdout.splitlines() if l.startswith(("VIOLATION", "  violated", "  undecided", "  crash"))]
        return sid, r.returncode, (lines[0][:230] if lines else "")
    finally:
        shutil.rmtree(d, ignore_errors=True)


with ThreadPoolExecutor(max_workers=jobs) as tp:
    res = list(tp.map(one, ids))
bad = 0
for sid, rc, line in res:
    print(f"{sid:6} exit={rc}  {line}")
    bad += rc != 1
sys.exit(1 if bad else 0)
