#!/bin/sh
# Runs all 18 quick checks against /repo (fresh, no cache), 3 at a time; prints the summary line of each and any non-zero exit.
cd "$(dirname "$0")/.."
ls evidence >/dev/null 2>&1 || mkdir evidence
for p in C01 C02 C03 C04 C05 C06 C07 C08 C09 C10 C11 C12 C13 C14 C15 C16 C17 C18; do echo $p; done | \
  xargs -P "${JOBS:-3}" -I{} sh -c '.ovenv/bin/python verif.py check {} --tier "${TIER:-quick}" --no-cache > /tmp/allchecks_{}.log 2>&1; echo "{} exit=$? $(grep "^\[{}\]" /tmp/allchecks_{}.log | cut -c1-200)"; grep -E "^(VIOLATION|KNOWN-FINDING|  undecided|  crash)" /tmp/allchecks_{}.log | cut -c1-200'
