#!/usr/bin/env python3
"""Behaviour-preserving patches through the COMPLETE checks (proofs + bounded drivers + native cross-check): a VIOLATION here is a false alarm.
usage: benign_full.py [--jobs=N] [patches...]   (default: benign/*.diff; every patch x all 18 properties)"""
import glob, os, shutil, subprocess, sys, tempfile
from concurrent.futures import ThreadPoolExecutor
HERE = os.path.dirname(os.path.dirname(os.path.abspath(__file__)))
jobs = next((int(a.split("=")[1]) for a in sys.argv[1:] if a.startswith("--jobs")), 3)
patches = [a for a in sys.argv[1:] if not a.startswith("--")] or sorted(glob.glob(f"{HERE}/benign/*.diff"))
PROPS = [f"C{i:02d}" for i in range(1, 19)]


def one(patch):
    d = tempfile.mkdtemp(prefix="bf_", dir=os.environ.get("VERIF_SCRATCH", "/tmp"))
    out = []
    try:
        subprocess.run(f"git -C /repo archive HEAD | tar -x -C {d}", shell=True, check=True)
        if subprocess.run(["git", "apply", os.path.abspath(patch)], cwd=d).returncode:
            return [(patch, "-", "patch does not apply", "")]
        for p in PROPS:
            r = subprocess.run([sys.executable, f"{HERE}/verif.py", "check", p, "--repo", d, "--no-cache", "--jobs", "4"], capture_output=True, text=True,
                               env={**os.environ, "VERIF_TIMEOUT_S": "25"})
            line = next((l for l in r.stdout.splitlines() if l.startswith(("VIOLATION", "  violated", "  undecided", "  crash"))), "")
            out.append((os.path.basename(patch), p, r.returncode, line[:200]))
        return out
    finally:
        shutil.rmtree(d, ignore_errors=True)


with ThreadPoolExecutor(max_workers=jobs) as tp:
    for res in tp.map(one, patches):
        for patch, p, rc, line in res:
            if rc != 0:
                print(f"{patch} {p} exit={rc} {line}", flush=True)
        print(f"{res[0][0]}: done, non-zero exits: {sum(1 for r in res if r[2] != 0)}", flush=True)
