#!/usr/bin/env python3
"""Regenerates MANIFEST.json from vlib/props.py (single source of truth for what is claimed)."""
import json, os, sys
HERE = os.path.dirname(os.path.dirname(os.path.abspath(__file__)))
sys.path.insert(0, HERE)
from vlib.props import PROPS, HOOK_COMMITS

PY = ".ovenv/bin/python"
checks, na = [], []
for pid in sorted(PROPS):
    m = PROPS[pid]
    if not m.get("claimed"):
        na.append({"property_id": pid, "reason": m.get("na_reason", "check not built yet (work in progress; see DESIGN.md section 10)")})
        continue
    checks.append({
        "property_id": pid,
        "quick_cmd": f"./setup.sh >/dev/null 2>&1; {PY} verif.py check {pid} --tier quick",
        "thorough_cmd": f"./setup.sh >/dev/null 2>&1; {PY} verif.py check {pid} --tier thorough",
        "evidence_file": f"/verif/evidence/{pid}.json",
        "replay_cmd_template": f"{PY} verif.py replay {{path}}",
        "engine": "pyvc",
        "level_claimed": {"category": m["category"], "text": m["level_text"], "design_ref": m.get("design_ref", "DESIGN.md section 10")},
        "level_note": m["level_note"],
        "technique": m["technique"],
    })
man = {
    "version": 1,
    "setup_cmd": "./setup.sh",
    "hooks": {"guard": "SKCHANGE_VERIF", "enable": "no hooks are needed: contracts are sidecar files in /verif/specs keyed by path::qualname, "
              "run-time checks monkey-patch from /verif; SKCHANGE_VERIF is reserved and unused",
              "baseline_off_cmd": "cd /repo && /venv/bin/python -m pytest -ra -q -p no:cacheprovider --timeout=900 --continue-on-collection-errors",
              "source_commits": HOOK_COMMITS, "add_only": True},
    "engines": [
        {"name": "pyvc", "path": "/verif/pyvc", "serves_properties": [c["property_id"] for c in checks],
         "kind_free_text": "own deductive verifier for the python/numpy subset used by skchange: re-reads /repo sources with ast on every run, "
                           "forward symbolic execution against sidecar contracts (pre/post/raises/loop invariants/ghost code/lemma instances), "
                           "obligations discharged by z3 5.1 (e-matching, then MBQI) and cvc5 as processes"},
        {"name": "runtime", "path": "/verif/runtime", "serves_properties": [c["property_id"] for c in checks],
         "kind_free_text": "bounded stand-in tier: the same statements executed on the real code over exhaustively enumerated small scopes "
                           "with brute-force oracles; labelled bounded, never counted as proved"},
    ],
    "checks": checks,
    "not_applicable": na,
    "notes": "See DESIGN.md. Repairs of genuine defects are unguarded 'fix:' commits in /repo, listed in known_findings.json.",
}
with open(os.path.join(HERE, "MANIFEST.json"), "w") as fh:
    json.dump(man, fh, indent=1)
import jsonschema
jsonschema.validate(man, json.load(open(os.path.join(HERE, "schemas", "MANIFEST.schema.json"))))
print("MANIFEST.json written:", len(checks), "checks,", len(na), "not claimed")
