import sys, json, time, importlib
sys.path.insert(0,'/verif')
name = sys.argv[1]; tier = sys.argv[2] if len(sys.argv)>2 else "quick"; repo = sys.argv[3] if len(sys.argv)>3 else "/repo"
d = importlib.import_module("runtime.drivers."+name)
t=time.time(); r = d.run(tier=tier, seed=0, repo=repo)
print("evals", r["evaluations"], "distinct", r["distinct_nontrivial"], "viol", len(r["violations"]), r.get("violation_counts"), round(time.time()-t,1),"s")
for v in r["violations"][:12]: print("  ", v["key"], "|", v["what"][:200])
