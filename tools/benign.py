#!/usr/bin/env python3
"""Robustness of the proofs against behaviour-preserving edits: apply each patch to a scratch copy of /repo, re-verify every contract and list
what stops being proved (a baseline obligation failing here would be reported as a violation = a false alarm).
usage: benign.py <patch.diff> [...]"""
import json, os, re, shutil, subprocess, sys, tempfile
HERE = os.path.dirname(os.path.dirname(os.path.abspath(__file__)))
sys.path.insert(0, HERE)
from vlib import prove
def norm(oid):
    return re.sub(r"(@L\+-?\d+|@[\w.]+:L\d+)?(/p\d+)?$", "", oid)
def main():
  base = set(json.load(open(f"{HERE}/baseline_obligations.json"))["proved"])
  reg = prove.load_specs()
  sel = [(t, i) for t, l in reg.items() for i, c in enumerate(l) if not c.assumed and not c.inline]
  for patch in sys.argv[1:]:
      d = tempfile.mkdtemp(prefix="benign_", dir="/tmp")
      try:
          subprocess.run(f"git -C /repo archive HEAD | tar -x -C {d}", shell=True, check=True)
          r = subprocess.run(["git", "apply", os.path.abspath(patch)], cwd=d, capture_output=True, text=True)
          if r.returncode:
              print(patch, "DOES NOT APPLY", r.stderr[:200]); continue
          files = sorted(set(re.findall(r"^\+\+\+ b/(\S+)", open(patch).read(), re.M)))
          sel2 = [(t, i) for t, i in sel if any(t.startswith(f) for f in files)] or sel
          # re-verify the contracts of the touched files and everything else that inlines them (cheap: verify all when few)
          res = prove.run(d, sel, jobs=16, use_cache=False, timeout=20)
          fails, probs = [], []
          for r in res:
              if r.get("error") or r.get("unsupported"):
                  probs.append(f"{r.get('ident')}: {(r.get('error') or r.get('unsupported')).strip().splitlines()[-1][:160]}")
              for o in r.get("obligations", []):
                  if o["status"] != "proved":
                      fails.append((o["status"], o["id"], norm(o["id"]) in base))
          print(f"== {patch}: files={files} not-proved={len(fails)} (baseline: {sum(1 for f in fails if f[2])}) unbindable/unsupported={len(probs)}")
          for f in fails[:6]:
              print("    ", f[0], f[1][:150], "BASELINE->would be VIOLATION" if f[2] else "")
          for p in probs[:6]:
              print("     PROBLEM", p)
      finally:
          shutil.rmtree(d, ignore_errors=True)

if __name__ == "__main__":
    main()
