"""GaussianCovCost with the optimal (maximum-likelihood) parameter: kernels and class methods (C01, C13).
np.cov / np.linalg.slogdet are outside the verifier: log_det_covariance is an assumed contract over the uninterpreted LOGDETCOV / COVPD of the
row segment; what is proved is everything around it (segment bounds, loop, formula, raising behaviour, min_size = p + 1)."""
from pyvc.contracts import contract

from .scorers import EVAL, FIT, SAME_X, valid_cuts

GC = "skchange/costs/gaussian_cov_cost.py"
contract(
    target="skchange/utils/numba/stats.py::log_det_covariance", assumed=True, level="A",
    params={"X": "real[m,p]"},
    returns="nanreal",
    ensures={"nan_iff_not_pd": "iff(isnan_(result), not COVPD(X))", "value": "implies(COVPD(X), optval(result) == LOGDETCOV(X))"},
    note="numpy: np.cov(ddof=0) + np.linalg.slogdet; nan iff the sample covariance of exactly these rows is not positive definite "
         "(value and definiteness compared with a direct computation by the bounded tier C01/C13)",
)
_LL = lambda n, s, e: f"(-({n}) * p * LOG(2 * PI) - ({n}) * LOGDETCOV(X, {s}, {e}) - p * ({n}))"
contract(
    target=f"{GC}::_gaussian_ll_at_mle_for_segment",
    params={"X": "real[n,p]", "start": "int", "end": "int"},
    requires=["0 <= start", "start < end", "end <= n"],
    raises={"RuntimeError": "not COVPD(X, start, end)"},
    returns="real",
    ensures={"value": f"result == {_LL('end - start', 'start', 'end')}"},
    props=["C01"],
)
contract(
    target=f"{GC}::gaussian_cov_cost_optim",
    params={"starts": "int[k]", "ends": "int[k]", "X": "real[n,p]"},
    requires=["forall(range(k), lambda i: 0 <= starts[i] and starts[i] < ends[i] and ends[i] <= n)"],
    raises={"RuntimeError": "exists(range(k), lambda i: not COVPD(X, starts[i], ends[i]))"},
    returns="real[k,1]",
    ensures={
        "shape": "result.shape == (k, 1)",
        # twice the negative Gaussian log-likelihood at the ML estimates of mean and covariance of exactly the rows starts[i]..ends[i]-1
        "value": "forall(range(k), lambda i: result[i, 0] == (ends[i] - starts[i]) * p * LOG(2 * PI) + (ends[i] - starts[i]) * "
                 "LOGDETCOV(X, starts[i], ends[i]) + p * (ends[i] - starts[i]))",
    },
    invariants={"loop#1": {
        "shape": "costs.shape == (k, 1)",
        "done": "forall(range(_k), lambda q: costs[q, 0] == (ends[q] - starts[q]) * p * LOG(2 * PI) + (ends[q] - starts[q]) * "
                "LOGDETCOV(X, starts[q], ends[q]) + p * (ends[q] - starts[q]))",
        "pd_so_far": "forall(range(_k), lambda q: COVPD(X, starts[q], ends[q]))",
    }},
    props=["C01", "C13"],
)

contract(
    target=FIT, self_class="GaussianCovCost", variant="GaussianCovCost/optim",
    params={"self": "obj:GaussianCovCost", "self.param": "none", "self._is_fitted": "bool", "self._X": "any", "X": "real[n,p]", "y": "none"},
    modifies={"self._X": "=X", "self._is_fitted": "=True", "self.X_": "real[n,p]", "self._param": "none"},
    returns="=self",
    ensures={"fitted": "self._is_fitted == True", "data": SAME_X,
             "view": "self.X_.shape == (n, p) and forall(range(n), range(p), lambda i, j: self.X_[i, j] == X[i, j])"},
    props=["C01", "C10"],
)
_VALID = valid_cuts(2, "(p + 1)")
contract(
    target=EVAL, self_class="GaussianCovCost", variant="GaussianCovCost/optim",
    params={"self": "obj:GaussianCovCost", "self.param": "none", "self._is_fitted": "bool=True", "self._X": "real[n,p]", "self.X_": "real[n,p]",
            "cuts": "int[r,c]"},
    raises={"ValueError": f"not {_VALID}",       # min_size of the fitted cost is p + 1 (C13)
            "RuntimeError": f"{_VALID} and exists(range(r), lambda i: not COVPD(self.X_, cuts[i, 0], cuts[i, 1]))"},
    returns="real[r,1]",
    ensures={
        "shape": "result.shape == (r, 1)",
        "value": "forall(range(r), lambda i: result[i, 0] == (cuts[i, 1] - cuts[i, 0]) * p * LOG(2 * PI) + (cuts[i, 1] - cuts[i, 0]) * "
                 "LOGDETCOV(self.X_, cuts[i, 0], cuts[i, 1]) + p * (cuts[i, 1] - cuts[i, 0]))",
    },
    props=["C01", "C13"],
)
