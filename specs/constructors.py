"""Exceptional postconditions of the detector constructors (C14): raises ValueError iff the hyper-parameters are outside the domain
of DESIGN Appendix B. Verified for the default scorer (scorer argument None); scorer conversion is covered by to_* contracts."""
from pyvc.contracts import contract


def ctor(path, cls, params, bad, stores, variant="default", extra_requires=()):
    contract(
        target=f"{path}::{cls}.__init__", variant=variant,
        params={"self": f"obj:{cls}", **params},
        requires=list(extra_requires),
        raises={"ValueError": bad},
        ensures={"hyper_parameters_stored": " and ".join(f"self.{k} == {k}" for k in stores)} if stores else {},
        props=["C14"],
    )


ctor("skchange/change_detectors/pelt.py", "PELT",
     {"cost": "none", "penalty_scale": "real", "min_segment_length": "int"},
     "penalty_scale < 0 or min_segment_length < 1", ["penalty_scale", "min_segment_length"])
ctor("skchange/change_detectors/pelt.py", "PELT",
     {"cost": "none", "penalty_scale": "none", "min_segment_length": "int"},
     "min_segment_length < 1", ["min_segment_length"], variant="scale=None")

ctor("skchange/change_detectors/moving_window.py", "MovingWindow",
     {"change_score": "none", "bandwidth": "int", "threshold_scale": "real", "level": "real", "min_detection_interval": "int"},
     "bandwidth < 1 or threshold_scale < 0 or level < 0 or min_detection_interval < 1 or min_detection_interval > max(1, bandwidth / 2 - 1)",
     ["bandwidth", "threshold_scale", "level", "min_detection_interval"])

_SEEDED_BAD = ("threshold_scale < 0 or not (0 < level and level < 1) or min_segment_length < 1 or "
               "max_interval_length < 2 * min_segment_length or not (1 < growth_factor and growth_factor <= 2)")
ctor("skchange/change_detectors/seeded_binseg.py", "SeededBinarySegmentation",
     {"change_score": "none", "threshold_scale": "real", "level": "real", "min_segment_length": "int", "max_interval_length": "int",
      "growth_factor": "real"},
     _SEEDED_BAD, ["threshold_scale", "level", "min_segment_length", "max_interval_length", "growth_factor"])
ctor("skchange/anomaly_detectors/circular_binseg.py", "CircularBinarySegmentation",
     {"anomaly_score": "none", "threshold_scale": "real", "level": "real", "min_segment_length": "int", "max_interval_length": "int",
      "growth_factor": "real"},
     _SEEDED_BAD, ["threshold_scale", "level", "min_segment_length", "max_interval_length", "growth_factor"])

_CAPA_BAD = "collective_penalty_scale < 0 or point_penalty_scale < 0 or min_segment_length < 2 or max_segment_length < min_segment_length"
ctor("skchange/anomaly_detectors/capa.py", "CAPA",
     {"collective_saving": "none", "point_saving": "none", "collective_penalty_scale": "real", "point_penalty_scale": "real",
      "min_segment_length": "int", "max_segment_length": "int", "ignore_point_anomalies": "bool"},
     _CAPA_BAD, ["collective_penalty_scale", "point_penalty_scale", "min_segment_length", "max_segment_length"])
ctor("skchange/anomaly_detectors/mvcapa.py", "MVCAPA",
     {"collective_saving": "none", "point_saving": "none", "collective_penalty": "str", "collective_penalty_scale": "real",
      "point_penalty": "str", "point_penalty_scale": "real", "min_segment_length": "int", "max_segment_length": "int",
      "ignore_point_anomalies": "bool"},
     _CAPA_BAD, ["collective_penalty_scale", "point_penalty_scale", "min_segment_length", "max_segment_length"])

ctor("skchange/anomaly_detectors/anomalisers.py", "StatThresholdAnomaliser",
     {"change_detector": "any", "stat": "fn", "stat_lower": "real", "stat_upper": "real"},
     "stat_lower > stat_upper", ["stat_lower", "stat_upper"])
