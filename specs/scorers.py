"""Class-level contracts of the interval scorers: fit establishes the fitted-state predicate, evaluate returns the
spec value for exactly the valid cuts and raises ValueError otherwise (C01, C06, C13; frames for C10)."""
from pyvc.contracts import contract

FIT = "skchange/base/base_interval_scorer.py::BaseIntervalScorer.fit"
EVAL = "skchange/base/base_interval_scorer.py::BaseIntervalScorer.evaluate"


def valid_cuts(k, min_size, n="n"):
    """ValidCuts(cuts, n, k, min_size) for a 2-D integer cuts array of shape (r, c) -- the clause C13 asks for."""
    gaps = " and ".join(f"cuts[i, {q + 1}] - cuts[i, {q}] >= {min_size}" for q in range(k - 1))
    return f"(c == {k} and forall(range(r), lambda i: {gaps} and 0 <= cuts[i, 0] and cuts[i, {k - 1}] <= {n}))"


SAME_X = "self._X.shape == (n, p) and forall(range(n), range(p), lambda i, j: self._X[i, j] == X[i, j])"

# ------------------------------------------------------------------------------------------------ L2Cost
L2_PARAM_VARIANTS = {
    "optim": ({"self.param": "none"}, {"self._mean": "none"}, [], None),
    "scalar": ({"self.param": "real"}, {"self._mean": "real[1]"}, ["self._mean[0] == self.param"], "self._mean[0]"),
    "len1": ({"self.param": "real[1]"}, {"self._mean": "real[1]"}, ["self._mean[0] == self.param[0]"], "self._mean[0]"),
    "lenp": ({"self.param": "real[p]"}, {"self._mean": "real[p]"}, ["forall(range(p), lambda j: self._mean[j] == self.param[j])"], "self._mean[j]"),
}

for _v, (_hp, _fitted, _link, _mu) in L2_PARAM_VARIANTS.items():
    contract(
        target=FIT, self_class="L2Cost", variant=f"L2Cost/{_v}",
        params={"self": "obj:L2Cost", **_hp, "X": "real[n,p]", "y": "none"},
        modifies={"self._X": "=X", "self._is_fitted": "=True", "self.sums_": "real[n+1,p]", "self.sums2_": "real[n+1,p]",
                  "self._mean": _fitted["self._mean"]},
        returns="=self",
        ensures={
            "fitted": "self._is_fitted == True",
            "data": SAME_X,
            "sums": "PrefixSum(self.sums_, X)",
            "sums2": "PrefixSumSq(self.sums2_, X)",
            **({"param": " and ".join(_link)} if _link else {}),
        },
        props=["C01", "C10", "C06"],
    )
    _value = ("RSS(self._X, j, cuts[i, 0], cuts[i, 1])" if _mu is None
              else f"SQDEV(self._X, j, cuts[i, 0], cuts[i, 1], {_mu})")
    contract(
        target=EVAL, self_class="L2Cost", variant=f"L2Cost/{_v}",
        params={"self": "obj:L2Cost", **_hp, "self._is_fitted": "bool=True", "self._X": "real[n,p]",
                "self.sums_": "real[n+1,p]", "self.sums2_": "real[n+1,p]", **_fitted, "cuts": "int[r,c]"},
        requires=["PrefixSum(self.sums_, self._X)", "PrefixSumSq(self.sums2_, self._X)"] + _link,
        raises={"ValueError": f"not {valid_cuts(2, 1)}"},
        returns="real[r,p]",
        ensures={
            "shape": "result.shape == (r, p)",
            "value": f"forall(range(r), range(p), lambda i, j: result[i, j] == {_value})",
        },
        props=["C01", "C13", "C06"],
    )
