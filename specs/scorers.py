"""Class-level contracts of the interval scorers: fit establishes the fitted-state predicate, evaluate returns the
spec value for exactly the valid cuts and raises ValueError otherwise (C01, C06, C13; frames for C10)."""
from pyvc.contracts import contract

FIT = "skchange/base/base_interval_scorer.py::BaseIntervalScorer.fit"
EVAL = "skchange/base/base_interval_scorer.py::BaseIntervalScorer.evaluate"


def valid_cuts(k, min_size, n="n"):
    """ValidCuts(cuts, n, k, min_size) for a 2-D integer cuts array of shape (r, c) -- the clause C13 asks for."""
    gaps = " and ".join(f"cuts[i, {q + 1}] - cuts[i, {q}] >= {min_size}" for q in range(k - 1))
    return f"(c == {k} and forall(range(r), lambda i: {gaps} and 0 <= cuts[i, 0] and cuts[i, {k - 1}] <= {n}))"


SAME_X = "self._X.shape == (n, p) and forall(range(n), range(p), lambda i, j: self._X[i, j] == X[i, j])"

# ------------------------------------------------------------------------------------------------ L2Cost
L2_PARAM_VARIANTS = {
    "optim": ({"self.param": "none"}, {"self._mean": "none"}, [], None),
    "scalar": ({"self.param": "real"}, {"self._mean": "real[1]"}, ["self._mean[0] == self.param"], "self._mean[0]"),
    "len1": ({"self.param": "real[1]"}, {"self._mean": "real[1]"}, ["self._mean[0] == self.param[0]"], "self._mean[0]"),
    "lenp": ({"self.param": "real[p]"}, {"self._mean": "real[p]"}, ["forall(range(p), lambda j: self._mean[j] == self.param[j])"], "self._mean[j]"),
}

for _v, (_hp, _fitted, _link, _mu) in L2_PARAM_VARIANTS.items():
    contract(
        target=FIT, self_class="L2Cost", variant=f"L2Cost/{_v}",
        params={"self": "obj:L2Cost", **_hp, "self._is_fitted": "bool", "self._X": "any", "X": "real[n,p]", "y": "none"},
        modifies={"self._X": "=X", "self._is_fitted": "=True", "self.sums_": "real[n+1,p]", "self.sums2_": "real[n+1,p]",
                  "self._mean": _fitted["self._mean"]},
        returns="=self",
        ensures={
            "fitted": "self._is_fitted == True",
            "data": SAME_X,
            "sums": "PrefixSum(self.sums_, X)",
            "sums2": "PrefixSumSq(self.sums2_, X)",
            **({"param": " and ".join(_link)} if _link else {}),
        },
        props=["C01", "C10", "C06"],
    )
    _value = ("RSS(self._X, j, cuts[i, 0], cuts[i, 1])" if _mu is None
              else f"SQDEV(self._X, j, cuts[i, 0], cuts[i, 1], {_mu})")
    contract(
        target=EVAL, self_class="L2Cost", variant=f"L2Cost/{_v}",
        params={"self": "obj:L2Cost", **_hp, "self._is_fitted": "bool=True", "self._X": "real[n,p]",
                "self.sums_": "real[n+1,p]", "self.sums2_": "real[n+1,p]", **_fitted, "cuts": "int[r,c]"},
        requires=["PrefixSum(self.sums_, self._X)", "PrefixSumSq(self.sums2_, self._X)"] + _link,
        raises={"ValueError": f"not {valid_cuts(2, 1)}"},
        returns="real[r,p]",
        ensures={
            "shape": "result.shape == (r, p)",
            "value": f"forall(range(r), range(p), lambda i, j: result[i, j] == {_value})",
        },
        props=["C01", "C13", "C06"],
    )

# ------------------------------------------------------------------------------------------------ CUSUM, L2Saving (direct scores)
contract(
    target=FIT, self_class="CUSUM", variant="CUSUM",
    params={"self": "obj:CUSUM", "self._is_fitted": "bool", "self._X": "any", "X": "real[n,p]", "y": "none"},
    modifies={"self._X": "=X", "self._is_fitted": "=True", "self.sums_": "real[n+1,p]"},
    returns="=self",
    ensures={"fitted": "self._is_fitted == True", "data": SAME_X, "sums": "PrefixSum(self.sums_, X)"},
    props=["C06", "C10"],
)
contract(
    target=EVAL, self_class="CUSUM", variant="CUSUM",
    params={"self": "obj:CUSUM", "self._is_fitted": "bool=True", "self._X": "real[n,p]", "self.sums_": "real[n+1,p]", "cuts": "int[r,c]"},
    requires=["PrefixSum(self.sums_, self._X)"],
    raises={"ValueError": f"not {valid_cuts(3, 1)}"},
    returns="real[r,p]",
    ensures={
        "shape": "result.shape == (r, p)",
        "nonneg": "forall(range(r), range(p), lambda i, j: result[i, j] >= 0)",
        # squared CUSUM == squared-error change score C(s,e) - C(s,k) - C(k,e) computed from the rows (C06)
        "squared_is_l2_change_score": "forall(range(r), range(p), lambda i, j: using("
                                      "L_sq(SUM(self._X, j, cuts[i, 0], cuts[i, 1]), self.sums_[cuts[i, 1], j] - self.sums_[cuts[i, 0], j]), "
                                      "L_sq(SUM(self._X, j, cuts[i, 1], cuts[i, 2]), self.sums_[cuts[i, 2], j] - self.sums_[cuts[i, 1], j]), "
                                      "L_sq(SUM(self._X, j, cuts[i, 0], cuts[i, 2]), self.sums_[cuts[i, 2], j] - self.sums_[cuts[i, 0], j]), "
                                      "have(result[i, j] ** 2 == SUM(self._X, j, cuts[i, 0], cuts[i, 1]) ** 2 / (cuts[i, 1] - cuts[i, 0])"
                                      " + SUM(self._X, j, cuts[i, 1], cuts[i, 2]) ** 2 / (cuts[i, 2] - cuts[i, 1])"
                                      " - SUM(self._X, j, cuts[i, 0], cuts[i, 2]) ** 2 / (cuts[i, 2] - cuts[i, 0]), "
                                      "SSQ(self._X, j, cuts[i, 0], cuts[i, 2]) == SSQ(self._X, j, cuts[i, 0], cuts[i, 1]) + SSQ(self._X, j, cuts[i, 1], cuts[i, 2]), "
                                      "result[i, j] ** 2 == RSS(self._X, j, cuts[i, 0], cuts[i, 2])"
                                      " - RSS(self._X, j, cuts[i, 0], cuts[i, 1]) - RSS(self._X, j, cuts[i, 1], cuts[i, 2]))))",
    },
    props=["C06", "C13"],
)
contract(
    target=FIT, self_class="L2Saving", variant="L2Saving",
    params={"self": "obj:L2Saving", "self._is_fitted": "bool", "self._X": "any", "X": "real[n,p]", "y": "none"},
    modifies={"self._X": "=X", "self._is_fitted": "=True", "self.sums_": "real[n+1,p]"},
    returns="=self",
    ensures={"fitted": "self._is_fitted == True", "data": SAME_X, "sums": "PrefixSum(self.sums_, X)"},
    props=["C06", "C10"],
)
contract(
    target=EVAL, self_class="L2Saving", variant="L2Saving",
    params={"self": "obj:L2Saving", "self._is_fitted": "bool=True", "self._X": "real[n,p]", "self.sums_": "real[n+1,p]", "cuts": "int[r,c]"},
    requires=["PrefixSum(self.sums_, self._X)"],
    raises={"ValueError": f"not {valid_cuts(2, 1)}"},
    returns="real[r,p]",
    ensures={
        "shape": "result.shape == (r, p)",
        "nonneg": "forall(range(r), range(p), lambda i, j: result[i, j] >= 0)",
        # L2 saving == cost at baseline mean 0 minus cost at the optimal mean (C06)
        "is_saving_of_l2cost0": "forall(range(r), range(p), lambda i, j: result[i, j] == SQDEV(self._X, j, cuts[i, 0], cuts[i, 1], 0)"
                                " - RSS(self._X, j, cuts[i, 0], cuts[i, 1]))",
    },
    props=["C06", "C13"],
)

# ------------------------------------------------------------------------------------------------ GaussianVarCost
def _floor16(e):
    return f"ite({e} < 1e-16, 1e-16, {e})"


_LEN = "(cuts[i, 1] - cuts[i, 0])"
_RSSN = f"RSS(self._X, j, cuts[i, 0], cuts[i, 1]) / {_LEN}"
GVAR_OPT = f"{_LEN} * LOG(2 * PI * {_floor16(_RSSN)}) + {_LEN}"

contract(
    target=FIT, self_class="GaussianVarCost", variant="GaussianVarCost/optim",
    params={"self": "obj:GaussianVarCost", "self.param": "none", "self._is_fitted": "bool", "self._X": "any", "X": "real[n,p]", "y": "none"},
    modifies={"self._X": "=X", "self._is_fitted": "=True", "self.sums_": "real[n+1,p]", "self.sums2_": "real[n+1,p]", "self._param": "none"},
    returns="=self",
    ensures={"fitted": "self._is_fitted == True", "data": SAME_X, "sums": "PrefixSum(self.sums_, X)", "sums2": "PrefixSumSq(self.sums2_, X)"},
    props=["C01", "C10", "C06"],
)
contract(
    target=EVAL, self_class="GaussianVarCost", variant="GaussianVarCost/optim",
    params={"self": "obj:GaussianVarCost", "self.param": "none", "self._is_fitted": "bool=True", "self._X": "real[n,p]",
            "self.sums_": "real[n+1,p]", "self.sums2_": "real[n+1,p]", "cuts": "int[r,c]"},
    requires=["PrefixSum(self.sums_, self._X)", "PrefixSumSq(self.sums2_, self._X)"],
    raises={"ValueError": f"not {valid_cuts(2, 2)}"},
    returns="real[r,p]",
    ensures={
        "shape": "result.shape == (r, p)",
        "value": "forall(range(r), range(p), lambda i, j: using(L_var(SSQ(self._X, j, cuts[i, 0], cuts[i, 1]), SUM(self._X, j, cuts[i, 0], cuts[i, 1]),"
                 f" {_LEN}), result[i, j] == {GVAR_OPT}))",
    },
    props=["C01", "C13", "C06"],
)

GV_FIXED = {
    "scalar": ("(real,real)", "(real[1],real[1])", "self._param[0][0] == self.param[0] and self._param[1][0] == self.param[1]", "0", "0",
               "self.param[1] <= 0"),
    "len1": ("(real[1],real[1])", "(real[1],real[1])", "self._param[0][0] == self.param[0][0] and self._param[1][0] == self.param[1][0]", "0", "0",
             "self.param[1][0] <= 0"),
    "lenp": ("(real[p],real[p])", "(real[p],real[p])",
             "forall(range(p), lambda q: self._param[0][q] == self.param[0][q] and self._param[1][q] == self.param[1][q])", "j", "j",
             "not forall(range(p), lambda q: self.param[1][q] > 0)"),
}
for _v, (_pt, _ft, _link, _mi, _vi, _bad) in GV_FIXED.items():
    contract(
        target=FIT, self_class="GaussianVarCost", variant=f"GaussianVarCost/{_v}",
        params={"self": "obj:GaussianVarCost", "self.param": _pt, "self._is_fitted": "bool", "self._X": "any", "X": "real[n,p]", "y": "none"},
        modifies={"self._X": "=X", "self._is_fitted": "=True", "self.sums_": "real[n+1,p]", "self.sums2_": "real[n+1,p]", "self._param": _ft},
        raises={"ValueError": _bad},
        returns="=self",
        ensures={"fitted": "self._is_fitted == True", "data": SAME_X, "sums": "PrefixSum(self.sums_, X)", "sums2": "PrefixSumSq(self.sums2_, X)",
                 "param": _link, "var_positive": "forall(range(len(self._param[1])), lambda q: self._param[1][q] > 0)"},
        props=["C01", "C10", "C06", "C14"],
    )
    contract(
        target=EVAL, self_class="GaussianVarCost", variant=f"GaussianVarCost/{_v}",
        params={"self": "obj:GaussianVarCost", "self.param": _pt, "self._is_fitted": "bool=True", "self._X": "real[n,p]",
                "self.sums_": "real[n+1,p]", "self.sums2_": "real[n+1,p]", "self._param": _ft, "cuts": "int[r,c]"},
        requires=["PrefixSum(self.sums_, self._X)", "PrefixSumSq(self.sums2_, self._X)", _link,
                  "forall(range(len(self._param[1])), lambda q: self._param[1][q] > 0)"],
        raises={"ValueError": f"not {valid_cuts(2, 2)}"},
        returns="real[r,p]",
        ensures={
            "shape": "result.shape == (r, p)",
            "value": f"forall(range(r), range(p), lambda i, j: result[i, j] == {_LEN} * LOG(2 * PI * self._param[1][{_vi}])"
                     f" + SQDEV(self._X, j, cuts[i, 0], cuts[i, 1], self._param[0][{_mi}]) / self._param[1][{_vi}])",
        },
        props=["C01", "C13", "C06"],
    )

# ------------------------------------------------------------------------------------------------ LocalAnomalyScore: cut validation (C13)
LAS = "skchange/anomaly_scores/from_cost.py"
_LVALID = ("(c == 4 and forall(range(r), lambda i: cuts[i, 1] - cuts[i, 0] >= 1 and cuts[i, 2] - cuts[i, 1] >= 1 and cuts[i, 3] - cuts[i, 2] >= 1 and "
           "cuts[i, 2] - cuts[i, 1] >= self.cost.min_size and (cuts[i, 1] - cuts[i, 0]) + (cuts[i, 3] - cuts[i, 2]) >= self.cost.min_size))")
contract(
    target=f"{LAS}::LocalAnomalyScore._check_cuts",
    params={"self": "obj:LocalAnomalyScore", "self.cost": "obj:~BaseCost", "self.cost.min_size": "int", "cuts": "int[r,c]"},
    requires=["self.cost.min_size >= 1"],
    # the rule of the local anomaly score: four strictly increasing entries, inner interval and the pooled surroundings each at least min_size long
    raises={"ValueError": f"not {_LVALID}"},
    returns="int[r,c]",
    ensures={"same": "result.shape == (r, c) and forall(range(r), range(c), lambda i, q: result[i, q] == cuts[i, q])"},
    props=["C13"],
)

# ------------------------------------------------------------------------------------------------ LocalAnomalyScore: value (C06, C09)
def _dk(pre):
    return {pre: "obj:~BaseCost", f"{pre}.min_size": "int", f"{pre}.ghost_datakeyed": "bool=True", f"{pre}.ghost_kind": "int"}


_IC, _SC = "self._interval_cost", "self._any_subset_cost"
_POOLTOK = lambda i: (f"FITTOK({_IC}.ghost_kind, POOLID(DATAID(self._X), cuts[{i}, 0], cuts[{i}, 1], cuts[{i}, 2], cuts[{i}, 3]))")
_LVAL = lambda i, j: (f"SC2({_IC}.ghost_tok, cuts[{i}, 0], cuts[{i}, 3], {j}) - (SC2({_IC}.ghost_tok, cuts[{i}, 1], cuts[{i}, 2], {j}) + "
                      f"SC2({_POOLTOK(i)}, 0, (cuts[{i}, 1] - cuts[{i}, 0]) + (cuts[{i}, 3] - cuts[{i}, 2]), {j}))")
contract(
    target=f"{LAS}::LocalAnomalyScore._evaluate",
    params={"self": "obj:LocalAnomalyScore", "self._X": "real[n,p]", **_dk(_IC), f"{_IC}._is_fitted": "bool=True", f"{_IC}.ghost_tok": "int",
            f"{_IC}.ghost_n": "int", f"{_IC}.ghost_q": "int", **_dk(_SC), "cuts": "int[r,c]"},
    requires=["c == 4", f"{_IC}.ghost_n == n", f"{_IC}.min_size >= 1", f"{_SC}.min_size == {_IC}.min_size", f"{_SC}.ghost_kind == {_IC}.ghost_kind",
              f"{_IC}.ghost_q == QOF({_IC}.ghost_kind, p)",
              # cuts already validated by _check_cuts / evaluate (C13)
              "forall(range(r), lambda i: 0 <= cuts[i, 0] and cuts[i, 0] < cuts[i, 1] and cuts[i, 1] < cuts[i, 2] and cuts[i, 2] < cuts[i, 3] and cuts[i, 3] <= n and "
              f"cuts[i, 2] - cuts[i, 1] >= {_IC}.min_size and (cuts[i, 1] - cuts[i, 0]) + (cuts[i, 3] - cuts[i, 2]) >= {_IC}.min_size)"],
    modifies={f"{_SC}._X": "any", f"{_SC}._is_fitted": "bool", f"{_SC}.ghost_tok": "int", f"{_SC}.ghost_n": "int", f"{_SC}.ghost_p": "int", f"{_SC}.ghost_q": "int"},
    returns=f"real[r,{_IC}.ghost_q]",
    ensures={
        # cost of the outer interval minus (cost of the inner interval + cost of the pooled surrounding rows fitted separately with the same configuration)
        "value": f"forall(range(r), range({_IC}.ghost_q), lambda i, j: result[i, j] == {_LVAL('i', 'j')})",
    },
    invariants={"loop#1": {
        "shape": f"surrounding_costs.shape == (r, {_IC}.ghost_q) and {_SC}.ghost_kind == {_IC}.ghost_kind and {_SC}.min_size == {_IC}.min_size",
        "done": f"forall(range(_k), range({_IC}.ghost_q), lambda i, j: surrounding_costs[i, j] == "
                f"SC2({_POOLTOK('i')}, 0, (cuts[i, 1] - cuts[i, 0]) + (cuts[i, 3] - cuts[i, 2]), j))",
    }},
    ghost=[
        ("after:surrounding_data = np.concatenate(*",
         "assert surrounding_data.shape == ((cuts[i, 1] - cuts[i, 0]) + (cuts[i, 3] - cuts[i, 2]), p) and "
         "forall(range((cuts[i, 1] - cuts[i, 0]) + (cuts[i, 3] - cuts[i, 2])), range(p), lambda t, j: surrounding_data[t, j] == "
         "ite(t < cuts[i, 1] - cuts[i, 0], self._X[cuts[i, 0] + t, j], self._X[cuts[i, 2] + t - (cuts[i, 1] - cuts[i, 0]), j]))\n"
         "assume(POOL_NAMED(surrounding_data, self._X, cuts[i, 0], cuts[i, 1], cuts[i, 2], cuts[i, 3]))"),
    ],
    props=["C06", "C09"],
)

_CK = {"self.cost": "obj:~BaseCost", "self.cost.min_size": "int", "self.cost.ghost_datakeyed": "bool=True", "self.cost.ghost_kind": "int"}
contract(
    target=FIT, self_class="LocalAnomalyScore", variant="LocalAnomalyScore",
    params={"self": "obj:LocalAnomalyScore", **_CK, "self._interval_cost": "alias:self.cost", "self._any_subset_cost": "any",
            "self._is_fitted": "bool", "self._X": "any", "X": "real[n,p]", "y": "none"},
    modifies={"self._X": "=X", "self._is_fitted": "=True", "self._any_subset_cost": "obj:~BaseCost",
              "self.cost._X": "=X", "self.cost._is_fitted": "=True", "self.cost.ghost_tok": "int", "self.cost.ghost_n": "=n", "self.cost.ghost_p": "=p",
              "self.cost.ghost_q": "int"},
    returns="=self",
    ensures={
        "fitted": "self._is_fitted == True", "data": SAME_X,
        # the interval cost IS the user's cost, fitted on X (known finding KF4: in place); the subset cost is a fresh clone of the same configuration
        "interval_cost_fitted_on_X": "self._interval_cost.ghost_tok == FITTOK(self.cost.ghost_kind, DATAID(X)) and self._interval_cost.ghost_n == n and "
                                     "self._interval_cost._is_fitted == True and self._interval_cost.ghost_q == QOF(self.cost.ghost_kind, p)",
        "subset_cost_same_configuration": "self._any_subset_cost.ghost_kind == self.cost.ghost_kind and self._any_subset_cost.min_size == self.cost.min_size",
    },
    props=["C06", "C10"],
)

_LVALID_EV = ("(c == 4 and forall(range(r), lambda i: cuts[i, 1] - cuts[i, 0] >= 1 and cuts[i, 2] - cuts[i, 1] >= 1 and cuts[i, 3] - cuts[i, 2] >= 1 and "
              "cuts[i, 2] - cuts[i, 1] >= self.cost.min_size and (cuts[i, 1] - cuts[i, 0]) + (cuts[i, 3] - cuts[i, 2]) >= self.cost.min_size and "
              "0 <= cuts[i, 0] and cuts[i, 3] <= n))")
_LVAL_EV = lambda i, j: _LVAL(i, j).replace(_IC, "self.cost")
contract(
    target=EVAL, self_class="LocalAnomalyScore", variant="LocalAnomalyScore",
    params={"self": "obj:LocalAnomalyScore", "self._is_fitted": "bool=True", "self._X": "real[n,p]", **_CK, "self.cost._is_fitted": "bool=True",
            "self.cost.ghost_tok": "int", "self.cost.ghost_n": "int", "self.cost.ghost_q": "int", "self._interval_cost": "alias:self.cost",
            **_dk(_SC), "cuts": "int[r,c]"},
    requires=["self.cost.ghost_n == n", "self.cost.min_size >= 1", f"{_SC}.min_size == self.cost.min_size", f"{_SC}.ghost_kind == self.cost.ghost_kind",
              "self.cost.ghost_q == QOF(self.cost.ghost_kind, p)"],
    raises={"ValueError": f"not {_LVALID_EV}"},
    modifies={f"{_SC}._X": "any", f"{_SC}._is_fitted": "bool", f"{_SC}.ghost_tok": "int", f"{_SC}.ghost_n": "int", f"{_SC}.ghost_p": "int", f"{_SC}.ghost_q": "int"},
    returns="real[r,self.cost.ghost_q]",
    ensures={"value": f"forall(range(r), range(self.cost.ghost_q), lambda i, j: result[i, j] == {_LVAL_EV('i', 'j')})"},
    props=["C06", "C09", "C13"],
)
