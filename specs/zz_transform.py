"""BaseDetector.transform wiring (C05): the dense labels are sparse_to_dense of THIS call's predict on X's own index (pandas accessors assumed).
The precondition of the converter (changepoints strictly increasing, inside the data) is discharged from the C04 clauses of the detector's
_predict post -- consecutive spacing gives pairwise order by the proved lemma L_chain."""
from pyvc.contracts import contract

BD = "skchange/base/base_detector.py"
_Y = "g_cps"          # ghost name of the changepoints returned by THIS call's predict(X)
_PAIRWISE = f"forall(range(len({_Y})), range(len({_Y})), lambda q, r: implies(q < r, {_Y}[q] < {_Y}[r]))"
_GHOST = [("after:y = self.predict(X)", f"g_cps = payload(y)\nassert using(L_chain({_Y}), {_PAIRWISE})")]
# position t of transform(X) carries the number of changepoints of THIS call's predict(X) (the local y) that are <= t, for any index labels
_LABELS = {
    "length": "len(payload(result)) == n",
    "wellformed": f"forall(range(len({_Y})), lambda q: self.min_segment_length <= {_Y}[q] and {_Y}[q] <= n - self.min_segment_length) and "
                  f"forall(range(len({_Y}) - 1), lambda q: {_Y}[q] + self.min_segment_length <= {_Y}[q + 1])",
    "before_first": f"forall(range(n), lambda t: implies(len({_Y}) == 0 or t < {_Y}[0], payload(result)[t] == 0))",
    "segment_number": f"forall(range(len({_Y})), range(n), lambda q, t: implies({_Y}[q] <= t and (q == len({_Y}) - 1 or t < {_Y}[q + 1]), "
                      "payload(result)[t] == q + 1))",
}
TOKP = "self._cost.ghost_tok"
contract(
    target=f"{BD}::BaseDetector.transform", self_class="PELT", variant="PELT",
    params={"self": "obj:PELT", "self._is_fitted": "bool=True", "self.penalty_": "real", "self.min_segment_length": "int", "self._cost": "obj:~BaseCost",
            "self._cost.min_size": "int", "self.scores": "any", "X": "real[n,p]"},
    requires=["self.min_segment_length >= 1", "self.penalty_ >= 0", "self._cost.min_size >= 1", "self._cost.min_size <= self.min_segment_length",
              "PELT_THEORY('all', self.min_segment_length, self.penalty_, n)", "SPLIT_INEQ('all', self.min_segment_length, 0.0, n)"],
    raises={"ValueError": "HASNAN(X) or n < 2 * self.min_segment_length"},
    returns="frame:real[n]",
    ensures=dict(_LABELS),
    ghost=_GHOST,
    props=["C05", "C04"],
)

_SBP = {"self": "obj:SeededBinarySegmentation", "self._is_fitted": "bool=True", "self.threshold_": "real", "self.min_segment_length": "int",
        "self.max_interval_length": "int", "self.growth_factor": "real", "self._change_score": "obj:~BaseChangeScore",
        "self._change_score.min_size": "int", "X": "real[n,p]"}
contract(
    target=f"{BD}::BaseDetector.transform", self_class="SeededBinarySegmentation", variant="SeededBinarySegmentation",
    params=_SBP,
    requires=["self.min_segment_length >= 1", "self.threshold_ >= 0", "self._change_score.min_size >= 1",
              "self._change_score.min_size <= self.min_segment_length", "self.max_interval_length >= 2 * self.min_segment_length",
              "self.growth_factor > 1", "self.growth_factor <= 2"],
    raises={"ValueError": "HASNAN(X) or n < 2 * self.min_segment_length"},
    returns="frame:real[n]",
    ensures=dict(_LABELS),
    ghost=_GHOST,
    props=["C05", "C04"],
)

# MovingWindow with a non-negative fitted threshold (a negative one is known finding KF1: the zero-padded border is then reported and the
# converter's precondition 1 <= changepoint fails): the labelling clauses are those of the other change detectors, the range clause is its own
contract(
    target=f"{BD}::BaseDetector.transform", self_class="MovingWindow", variant="MovingWindow/threshold>=0",
    params={"self": "obj:MovingWindow", "self._is_fitted": "bool=True", "self.bandwidth": "int", "self.threshold_": "real",
            "self.min_detection_interval": "int", "self._change_score": "obj:~BaseChangeScore", "self._change_score.min_size": "int",
            "self.scores": "any", "X": "real[n,p]"},
    requires=["self.bandwidth >= 1", "self._change_score.min_size >= 1", "self._change_score.min_size <= self.bandwidth",
              "self.min_detection_interval >= 1", "self.threshold_ >= 0"],
    raises={"ValueError": "HASNAN(X) or n < 2 * self.bandwidth"},
    returns="frame:real[n]",
    ensures={
        "length": _LABELS["length"],
        "wellformed": f"forall(range(len({_Y})), lambda q: self.bandwidth <= {_Y}[q] and {_Y}[q] <= n - self.bandwidth) and "
                      f"forall(range(len({_Y}) - 1), lambda q: {_Y}[q] < {_Y}[q + 1])",
        "before_first": _LABELS["before_first"],
        "segment_number": _LABELS["segment_number"],
    },
    ghost=_GHOST,
    props=["C05", "C04"],
)

# ---- MVCAPA: cell (t, c) of transform(X) carries a+1 iff t lies in the a-th anomaly of THIS call's predict(X) and c is one of its columns, else 0
from .detectors import _KIND       # noqa: E402

_A = "g_anoms"
_HIT = lambda a, t, c: (f"({_A}[{a}][0] <= {t} and {t} < {_A}[{a}][1] and exists(range(len({_A}[{a}][2])), lambda r: {_A}[{a}][2][r] == {c}))")
for _cp in _KIND:
    for _pp in _KIND:
        contract(
            target=f"{BD}::BaseDetector.transform", self_class="MVCAPA", variant=f"MVCAPA/{_cp}/{_pp}",
            params={"self": "obj:MVCAPA", "self._is_fitted": "bool=True", "self.collective_penalty": f"str={_cp}", "self.collective_penalty_scale": "real",
                    "self.point_penalty": f"str={_pp}", "self.point_penalty_scale": "real",
                    "self.min_segment_length": "int", "self.max_segment_length": "int", "self.ignore_point_anomalies": "bool", "self.scores": "any",
                    "self._collective_saving": "obj:~BaseSaving", "self._collective_saving.min_size": "int",
                    "self._collective_saving.ghost_params_per_variable": "int", "self._collective_saving.ghost_per_variable": "bool=True",
                    "self._point_saving": "obj:~BaseSaving", "self._point_saving.min_size": "int",
                    "self._point_saving.ghost_params_per_variable": "int", "self._point_saving.ghost_per_variable": "bool=True",
                    "X": "real[n,p]"},
            requires=["p >= 2", "self.min_segment_length >= 2", "self.max_segment_length >= self.min_segment_length",
                      "self.collective_penalty_scale >= 0", "self.point_penalty_scale >= 0",
                      "self._collective_saving.ghost_params_per_variable >= 1", "self._point_saving.ghost_params_per_variable >= 1",
                      "self._collective_saving.min_size >= 1", "self._collective_saving.min_size <= self.min_segment_length",
                      "self._point_saving.min_size == 1"],
            raises={"ValueError": "HASNAN(X) or n < self.min_segment_length"},
            returns="frame:int[n,p]",
            ensures={
                "shape": "payload(result).shape == (n, p)",
                "sorted_disjoint": f"forall(range(len({_A})), range(len({_A})), lambda a, b: implies(a < b, {_A}[a][1] <= {_A}[b][0]))",
                "marks_exactly": f"forall(range(len({_A})), range(n), range(p), lambda a, t, c: implies({_HIT('a', 't', 'c')}, payload(result)[t, c] == a + 1))",
                "zero_elsewhere": f"forall(range(n), range(p), lambda t, c: implies(not exists(range(len({_A})), lambda a: {_HIT('a', 't', 'c')}), "
                                  "payload(result)[t, c] == 0))",
            },
            ghost=[("after:y = self.predict(X)", "g_anoms = payload(y)")],
            props=["C05", "C16", "C04"],
        )

# ---- CAPA / CircularBinarySegmentation: the collective-anomaly converter is pandas only (IntervalIndex.get_indexer) -> ASSUMED contract (exercised by
# the bounded C05 driver over all valid sparse outputs); what is proved is that transform hands it THIS call's predict(X), one label per row of X, and that
# its precondition -- non-empty intervals inside [0, n], each ending before the next starts (get_indexer raises on overlapping intervals) -- follows
# from the C04 clauses of the detectors' _predict posts
AB = "skchange/anomaly_detectors/base.py"
_I = "payload(y_sparse)"
contract(
    target=f"{AB}::CollectiveAnomalyDetector.sparse_to_dense", assumed=True, level="A",
    params={"y_sparse": "frame:list[(int,int)]", "index": "series:int[n]", "columns": "any"},
    requires=[f"forall(range(len({_I})), lambda a: 0 <= {_I}[a][0] and {_I}[a][0] < {_I}[a][1] and {_I}[a][1] <= n)",
              f"forall(range(len({_I}) - 1), lambda a: {_I}[a][1] <= {_I}[a + 1][0])"],
    returns="frame:int[n]",
    ensures={
        "length": "len(payload(result)) == n",
        "inside": f"forall(range(len({_I})), range(n), lambda a, t: implies({_I}[a][0] <= t and t < {_I}[a][1], payload(result)[t] == a + 1))",
        "outside": f"forall(range(n), lambda t: implies(not exists(range(len({_I})), lambda a: {_I}[a][0] <= t and t < {_I}[a][1]), payload(result)[t] == 0))",
    },
    note="pandas: pd.IntervalIndex(ilocs).get_indexer(RangeIndex(len(index))) + 1 labels position t with a+1 iff t lies in the a-th (left-closed) interval, "
         "0 elsewhere; requires non-overlapping intervals (bounded: C05 over all valid sparse outputs and index types)",
)
_G = "g_anoms"
_COLL_LABELS = {
    "length": "len(payload(result)) == n",
    "inside": f"forall(range(len({_G})), range(n), lambda a, t: implies({_G}[a][0] <= t and t < {_G}[a][1], payload(result)[t] == a + 1))",
    "outside": f"forall(range(n), lambda t: implies(not exists(range(len({_G})), lambda a: {_G}[a][0] <= t and t < {_G}[a][1]), payload(result)[t] == 0))",
}
_GHOST_A = [("after:y = self.predict(X)", "g_anoms = payload(y)")]
contract(
    target=f"{BD}::BaseDetector.transform", self_class="CAPA", variant="CAPA",
    params={"self": "obj:CAPA", "self._is_fitted": "bool=True", "self.collective_penalty_": "real", "self.point_penalty_": "real", "self.min_segment_length": "int",
            "self.max_segment_length": "int", "self.ignore_point_anomalies": "bool", "self.scores": "any",
            "self._collective_saving": "obj:~BaseSaving", "self._collective_saving.min_size": "int",
            "self._point_saving": "obj:~BaseSaving", "self._point_saving.min_size": "int", "X": "real[n,p]"},
    requires=["self._collective_saving.min_size >= 1", "self._collective_saving.min_size <= self.min_segment_length", "self._point_saving.min_size == 1",
              "self.min_segment_length >= 2", "self.max_segment_length >= self.min_segment_length",
              "CAPA_THEORY('all', self.collective_penalty_, ZEROS1(), 'all', self.point_penalty_, ZEROS1(), self.min_segment_length, self.max_segment_length, n)",
              "CAPA_SUBADD('all', self.collective_penalty_, ZEROS1(), self.collective_penalty_, self.min_segment_length, self.max_segment_length, n)"],
    raises={"ValueError": "HASNAN(X) or n < self.min_segment_length"},
    returns="frame:int[n]",
    ensures=dict(_COLL_LABELS, sorted_disjoint=f"forall(range(len({_G})), range(len({_G})), lambda a, b: implies(a < b, {_G}[a][1] <= {_G}[b][0]))"),
    ghost=_GHOST_A,
    props=["C05", "C04"],
)
contract(
    target=f"{BD}::BaseDetector.transform", self_class="CircularBinarySegmentation", variant="CircularBinarySegmentation",
    params={"self": "obj:CircularBinarySegmentation", "self._is_fitted": "bool=True", "self.threshold_": "real", "self.min_segment_length": "int",
            "self.max_interval_length": "int", "self.growth_factor": "real", "self.scores": "any",
            "self._anomaly_score": "obj:~BaseLocalAnomalyScore", "self._anomaly_score.min_size": "int", "X": "real[n,p]"},
    requires=["self.min_segment_length >= 1", "self.threshold_ >= 0", "self._anomaly_score.min_size >= 1",
              "self._anomaly_score.min_size <= self.min_segment_length", "self.max_interval_length >= 2 * self.min_segment_length",
              "self.growth_factor > 1", "self.growth_factor <= 2"],
    raises={"ValueError": "HASNAN(X) or n < 2 * self.min_segment_length"},
    returns="frame:int[n]",
    ensures=dict(_COLL_LABELS),
    ghost=_GHOST_A,
    props=["C05", "C04"],
)
