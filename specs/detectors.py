"""Class-level glue of the detectors (argument wiring), with the pandas calls assumed (C02, C15, C14, C10)."""
from pyvc.contracts import contract

from .pelt import COST_FIELDS

# check_data: assumed contract (pandas): the returned frame is modelled by its 2-D values
contract(
    target="skchange/utils/validation/data.py::check_data", assumed=True, level="A",
    params={"X": "real[n,p]", "min_length": "int", "min_length_name": "str", "allow_missing_values": "bool"},
    raises={"ValueError": "HASNAN(X) or n < min_length"},
    returns="=X",
    note="check_data converts ndarray/Series to a DataFrame and raises ValueError iff the data contain missing values or have fewer than "
         "min_length rows (pandas; exercised by the bounded drivers C11/C14)",
)

P = "skchange/change_detectors/pelt.py"
contract(
    target=f"{P}::PELT._fit", variant="scale",
    params={"self": "obj:PELT", "self.penalty_scale": "real", "self.min_segment_length": "int", "X": "real[n,p]", "y": "none"},
    requires=["self.penalty_scale >= 0", "self.min_segment_length >= 1", "p >= 1"],
    raises={"ValueError": "HASNAN(X) or n < 2 * self.min_segment_length"},
    ensures={
        # C15: fitted penalty == scale * 2 p log n  (hence proportional to the scale)
        "penalty": "self.penalty_ == self.penalty_scale * (2 * p * LOG(n))",
        "hyper_parameters_untouched": "self.penalty_scale == old(self.penalty_scale) and self.min_segment_length == old(self.min_segment_length)",
    },
    props=["C15", "C14", "C10"],
)
contract(
    target=f"{P}::PELT._fit", variant="scale=None",
    params={"self": "obj:PELT", "self.penalty_scale": "none", "self.min_segment_length": "int", "X": "real[n,p]", "y": "none"},
    requires=["self.min_segment_length >= 1"],
    raises={"ValueError": "True"},          # documented: tuning is not supported; missing data / short data also ValueError
    props=["C14"],
)
TOKP = "self._cost.ghost_tok"
contract(
    target=f"{P}::PELT._predict",
    params={"self": "obj:PELT", "self.penalty_": "real", "self.min_segment_length": "int", "self._cost": "obj:~BaseCost", "self._cost.min_size": "int",
            "X": "real[n,p]"},
    requires=["self.min_segment_length >= 1", "self.penalty_ >= 0", "self._cost.min_size >= 1", "self._cost.min_size <= self.min_segment_length",
              "PELT_THEORY('all', self.min_segment_length, self.penalty_, n)", "SPLIT_INEQ('all', self.min_segment_length, 0.0, n)"],
    raises={"ValueError": "HASNAN(X) or n < 2 * self.min_segment_length"},
    modifies={"self.scores": "series:real[n]", "self._cost._X": "=X", "self._cost._is_fitted": "=True", "self._cost.ghost_tok": "int",
              "self._cost.ghost_n": "=n", "self._cost.ghost_p": "=p", "self._cost.ghost_q": "int"},
    returns="frame:int[K]",
    ensures={
        # the wiring: data values, the fitted penalty and min_segment_length reach run_pelt; scores and changepoints are its results
        "scores": f"forall(range(self.min_segment_length, n + 1), lambda u: payload(self.scores)[u - 1] == PF({TOKP}, self.min_segment_length, self.penalty_, u))",
        "changepoints_wellformed": "forall(range(len(payload(result))), lambda q: self.min_segment_length <= payload(result)[q] and "
                                   "payload(result)[q] <= n - self.min_segment_length) and "
                                   "forall(range(len(payload(result)) - 1), lambda q: payload(result)[q] + self.min_segment_length <= payload(result)[q + 1])",
        "fitted_on_X": "self._cost._is_fitted == True and self._cost.ghost_n == n",
    },
    props=["C02", "C10", "C04"],
)

# ------------------------------------------------------------------------------------------------ SeededBinarySegmentation glue
SB = "skchange/change_detectors/seeded_binseg.py"
contract(
    target=f"{SB}::SeededBinarySegmentation._fit", variant="scale",
    params={"self": "obj:SeededBinarySegmentation", "self.threshold_scale": "real", "self.min_segment_length": "int", "X": "real[n,p]", "y": "none"},
    requires=["self.threshold_scale >= 0", "self.min_segment_length >= 1", "p >= 1"],
    uses=["AX_LOG_ge0(n)"],
    raises={"ValueError": "HASNAN(X) or n < 2 * self.min_segment_length"},
    ensures={"threshold": "self.threshold_ == self.threshold_scale * (2 * p * SQRT(LOG(n)))"},
    props=["C15", "C14", "C10"],
)
_CS = {"self._change_score": "obj:~BaseChangeScore", "self._change_score.min_size": "int"}
contract(
    target=f"{SB}::SeededBinarySegmentation._predict",
    params={"self": "obj:SeededBinarySegmentation", "self.threshold_": "real", "self.min_segment_length": "int", "self.max_interval_length": "int",
            "self.growth_factor": "real", **_CS, "X": "real[n,p]"},
    requires=["self.min_segment_length >= 1", "self.threshold_ >= 0", "self._change_score.min_size >= 1",
              "self._change_score.min_size <= self.min_segment_length", "self.max_interval_length >= 2 * self.min_segment_length",
              "self.growth_factor > 1", "self.growth_factor <= 2"],
    raises={"ValueError": "HASNAN(X) or n < 2 * self.min_segment_length"},
    modifies={"self.scores": "any", "self._change_score._X": "=X", "self._change_score._is_fitted": "=True", "self._change_score.ghost_tok": "int",
              "self._change_score.ghost_n": "=n", "self._change_score.ghost_p": "=p", "self._change_score.ghost_q": "int"},
    returns="frame:int[K]",
    ensures={
        "changepoints_wellformed": "forall(range(len(payload(result))), lambda q: self.min_segment_length <= payload(result)[q] and "
                                   "payload(result)[q] <= n - self.min_segment_length) and "
                                   "forall(range(len(payload(result)) - 1), lambda q: payload(result)[q] + self.min_segment_length <= payload(result)[q + 1])",
        "fitted_on_X": "self._change_score._is_fitted == True and self._change_score.ghost_n == n",
    },
    props=["C07", "C04", "C10"],
)

# ------------------------------------------------------------------------------------------------ MovingWindow glue
MW = "skchange/change_detectors/moving_window.py"
contract(
    target=f"{MW}::MovingWindow.get_default_threshold", assumed=True, level="A",
    params={"n": "int", "p": "int", "bandwidth": "int", "level": "real"},
    returns="real",
    ensures={"published_formula": "result == MWTHR(n, p, bandwidth, level)"},
    note="the detector's own published default-threshold function (nested logs of n/bandwidth and level): kept uninterpreted, the statement of C15 "
         "defers to it; its sign / domain is what known finding KF1 is about",
)
contract(
    target=f"{MW}::MovingWindow._fit", variant="scale",
    params={"self": "obj:MovingWindow", "self.threshold_scale": "real", "self.bandwidth": "int", "self.level": "real", "X": "real[n,p]", "y": "none"},
    requires=["self.threshold_scale >= 0", "self.bandwidth >= 1"],
    raises={"ValueError": "HASNAN(X) or n < 2 * self.bandwidth"},
    ensures={"threshold": "self.threshold_ == self.threshold_scale * MWTHR(n, p, self.bandwidth, self.level)"},
    props=["C15", "C14", "C10"],
)
_MCS = {"self._change_score": "obj:~BaseChangeScore", "self._change_score.min_size": "int"}
contract(
    target=f"{MW}::MovingWindow._transform_scores",
    params={"self": "obj:MovingWindow", "self.bandwidth": "int", **_MCS, "X": "real[n,p]"},
    requires=["self.bandwidth >= 1", "self._change_score.min_size >= 1", "self._change_score.min_size <= self.bandwidth"],
    raises={"ValueError": "HASNAN(X) or n < 2 * self.bandwidth"},
    modifies={"self._change_score._X": "=X", "self._change_score._is_fitted": "=True", "self._change_score.ghost_tok": "int",
              "self._change_score.ghost_n": "=n", "self._change_score.ghost_p": "=p", "self._change_score.ghost_q": "int"},
    returns="series:real[n]",
    ensures={
        "score_def": "len(payload(result)) == n and forall(range(n), lambda t: payload(result)[t] == ite(self.bandwidth <= t and t <= n - self.bandwidth, "
                     "AGG3(self._change_score.ghost_tok, t - self.bandwidth, t, t + self.bandwidth), 0))",
        "fitted_on_X": "self._change_score._is_fitted == True and self._change_score.ghost_n == n",
    },
    props=["C08", "C10"],
)

# ------------------------------------------------------------------------------------------------ CAPA glue
CP = "skchange/anomaly_detectors/capa.py"
AB = "skchange/anomaly_detectors/base.py"
contract(
    target=f"{AB}::CollectiveAnomalyDetector._format_sparse_output", assumed=True, level="A",
    params={"anomaly_intervals": "list[(int,int)]", "closed": "str"},
    returns="=frame_of(anomaly_intervals)",
    note="pandas: the returned frame lists exactly the given intervals, in order, as a left-closed IntervalIndex with labels 1..K (bounded: C04/C05)",
)


def _csav(pre):
    return {pre: "obj:~BaseSaving", f"{pre}.min_size": "int"}


_FITM = lambda pre: {f"{pre}._X": "=X", f"{pre}._is_fitted": "=True", f"{pre}.ghost_tok": "int", f"{pre}.ghost_n": "=n", f"{pre}.ghost_p": "=p",
                     f"{pre}.ghost_q": "int"}
_CAPA_REQ = lambda a_c, a_p, m, M: [
    f"{m} >= 2", f"{M} >= {m}", f"n >= {m}",
    f"CAPA_THEORY('all', {a_c}, ZEROS1(), 'all', {a_p}, ZEROS1(), {m}, {M}, n)",
    f"CAPA_SUBADD('all', {a_c}, ZEROS1(), {a_c}, {m}, {M}, n)"]
contract(
    target=f"{CP}::run_capa",
    params={"X": "real[n,p]", **_csav("collective_saving"), **_csav("point_saving"), "collective_alpha": "real", "point_alpha": "real",
            "min_segment_length": "int", "max_segment_length": "int"},
    requires=["collective_saving.min_size >= 1", "collective_saving.min_size <= min_segment_length", "point_saving.min_size == 1"]
             + _CAPA_REQ("collective_alpha", "point_alpha", "min_segment_length", "max_segment_length"),
    modifies={**_FITM("collective_saving"), **_FITM("point_saving")},
    returns="(real[n],list[(int,int)],list[(int,int)])",
    ensures={
        # both savings are fitted on X here, alpha-only penalties (betas = zeros(1)) reach the dynamic programme
        "scores_are_optimal": "forall(range(1, n + 1), lambda T: result[0][T - 1] == CG(collective_saving.ghost_tok, point_saving.ghost_tok, T))",
        "collective_lengths": "forall(range(len(result[1])), lambda q: 0 <= result[1][q][0] and result[1][q][1] <= n and "
                              "min_segment_length <= result[1][q][1] - result[1][q][0] and result[1][q][1] - result[1][q][0] <= max_segment_length)",
        "point_lengths": "forall(range(len(result[2])), lambda q: 0 <= result[2][q][0] and result[2][q][1] == result[2][q][0] + 1 and result[2][q][1] <= n)",
        "fitted_on_X": "collective_saving._is_fitted == True and collective_saving.ghost_n == n and point_saving._is_fitted == True and point_saving.ghost_n == n",
        # C04: collective and point anomalies are pairwise disjoint (both lists are produced back to front)
        "disjoint": "forall(range(len(result[1])), range(len(result[2])), lambda q, r: result[1][q][1] <= result[2][r][0] or result[2][r][1] <= result[1][q][0]) and "
                    "forall(range(len(result[1])), range(len(result[1])), lambda q, r: implies(q < r, result[1][r][1] <= result[1][q][0])) and "
                    "forall(range(len(result[2])), range(len(result[2])), lambda q, r: implies(q < r, result[2][r][1] <= result[2][q][0]))",
        # re-evaluating the reported anomalies under the same penalties gives exactly the final score (C03)
        "reevaluation": "CG(collective_saving.ghost_tok, point_saving.ghost_tok, n) == "
                        "LSUM('coll', result[1], len(result[1]), lambda x: PSC(collective_saving.ghost_tok, x[0], x[1], collective_alpha, ZEROS1())) + "
                        "LSUM('pt', result[2], len(result[2]), lambda x: PSC(point_saving.ghost_tok, x[0], x[0] + 1, point_alpha, ZEROS1()))",
    },
    props=["C03", "C10", "C04"],
)
contract(
    target=f"{CP}::CAPA._predict",
    params={"self": "obj:CAPA", "self.collective_penalty_": "real", "self.point_penalty_": "real", "self.min_segment_length": "int",
            "self.max_segment_length": "int", "self.ignore_point_anomalies": "bool",
            "self._collective_saving": "obj:~BaseSaving", "self._collective_saving.min_size": "int",
            "self._point_saving": "obj:~BaseSaving", "self._point_saving.min_size": "int", "X": "real[n,p]"},
    requires=["self._collective_saving.min_size >= 1", "self._collective_saving.min_size <= self.min_segment_length", "self._point_saving.min_size == 1",
              "self.min_segment_length >= 2", "self.max_segment_length >= self.min_segment_length",
              "CAPA_THEORY('all', self.collective_penalty_, ZEROS1(), 'all', self.point_penalty_, ZEROS1(), self.min_segment_length, self.max_segment_length, n)",
              "CAPA_SUBADD('all', self.collective_penalty_, ZEROS1(), self.collective_penalty_, self.min_segment_length, self.max_segment_length, n)"],
    raises={"ValueError": "HASNAN(X) or n < self.min_segment_length"},
    modifies={"self.scores": "series:real[n]", **_FITM("self._collective_saving"), **_FITM("self._point_saving")},
    returns="frame:list[(int,int)]",
    ensures={
        "scores": "forall(range(1, n + 1), lambda T: payload(self.scores)[T - 1] == CG(self._collective_saving.ghost_tok, self._point_saving.ghost_tok, T))",
        "anomalies_wellformed": "forall(range(len(payload(result))), lambda q: 0 <= payload(result)[q][0] and payload(result)[q][1] <= n and "
                                "(payload(result)[q][1] == payload(result)[q][0] + 1 or (self.min_segment_length <= payload(result)[q][1] - payload(result)[q][0] "
                                "and payload(result)[q][1] - payload(result)[q][0] <= self.max_segment_length)))",
        # with ignore_point_anomalies no length-1 interval is reported (min_segment_length >= 2)
        "ignore_point_anomalies": "implies(self.ignore_point_anomalies, forall(range(len(payload(result))), lambda q: "
                                  "self.min_segment_length <= payload(result)[q][1] - payload(result)[q][0]))",
        # C04: the merged list of collective and point anomalies is sorted and pairwise disjoint, every interval non-empty
        "sorted_disjoint": "forall(range(len(payload(result))), range(len(payload(result))), lambda a, b: implies(a < b, payload(result)[a][1] <= payload(result)[b][0]))",
        "non_empty": "forall(range(len(payload(result))), lambda q: payload(result)[q][0] < payload(result)[q][1])",
    },
    props=["C03", "C04", "C10"],
)

# ------------------------------------------------------------------------------------------------ CircularBinarySegmentation glue
CBS = "skchange/anomaly_detectors/circular_binseg.py"
contract(
    target=f"{CBS}::CircularBinarySegmentation._fit", variant="scale",
    params={"self": "obj:CircularBinarySegmentation", "self.threshold_scale": "real", "self.min_segment_length": "int",
            "self.max_interval_length": "int", "X": "real[n,p]", "y": "none"},
    requires=["self.threshold_scale >= 0", "self.min_segment_length >= 1", "self.max_interval_length >= 1", "p >= 1"],
    raises={"ValueError": "HASNAN(X) or n < 2 * self.min_segment_length"},
    ensures={"threshold": "self.threshold_ == self.threshold_scale * (2 * p * LOG(n * self.max_interval_length))"},
    props=["C15", "C14", "C10"],
)
_LS = {"self._anomaly_score": "obj:~BaseLocalAnomalyScore", "self._anomaly_score.min_size": "int"}
contract(
    target=f"{CBS}::CircularBinarySegmentation._predict",
    params={"self": "obj:CircularBinarySegmentation", "self.threshold_": "real", "self.min_segment_length": "int", "self.max_interval_length": "int",
            "self.growth_factor": "real", **_LS, "X": "real[n,p]"},
    requires=["self.min_segment_length >= 1", "self.threshold_ >= 0", "self._anomaly_score.min_size >= 1",
              "self._anomaly_score.min_size <= self.min_segment_length", "self.max_interval_length >= 2 * self.min_segment_length",
              "self.growth_factor > 1", "self.growth_factor <= 2"],
    raises={"ValueError": "HASNAN(X) or n < 2 * self.min_segment_length"},
    modifies={"self.scores": "any", **_FITM("self._anomaly_score")},
    returns="frame:list[(int,int)]",
    ensures={
        "anomalies_wellformed": "forall(range(len(payload(result))), lambda q: 1 <= payload(result)[q][0] and "
                                "payload(result)[q][0] + self.min_segment_length <= payload(result)[q][1] and payload(result)[q][1] <= n - 1) and "
                                "forall(range(len(payload(result)) - 1), lambda q: payload(result)[q][1] <= payload(result)[q + 1][0])",
        "fitted_on_X": "self._anomaly_score._is_fitted == True and self._anomaly_score.ghost_n == n",
        # the scores table (detector.scores) lists, per candidate interval, the score and the inner interval attaining it, in the named columns (C09)
        "scores_table_lengths": f"len(payload(self.scores)['score']) == len(payload(self.scores)['interval_start']) and len(payload(self.scores)['interval_end']) == len(payload(self.scores)['interval_start'])",
        "scores_table": f"forall(range(len(payload(self.scores)['interval_start'])), lambda i: implies(payload(self.scores)['score'][i] > 0, exists(range(0, n + 1), range(0, n + 1), lambda a, b: "
                        f"payload(self.scores)['argmax_anomaly_start'][i] == a and payload(self.scores)['argmax_anomaly_end'][i] == b and "
                        f"payload(self.scores)['interval_start'][i] < a and a + self.min_segment_length <= b and b < payload(self.scores)['interval_end'][i] and "
                        f"payload(self.scores)['score'][i] == AGG4(self._anomaly_score.ghost_tok, payload(self.scores)['interval_start'][i], a, b, payload(self.scores)['interval_end'][i]))))",
    },
    props=["C09", "C04", "C10"],
)

# ------------------------------------------------------------------------------------------------ MovingWindow._predict
contract(
    target=f"{MW}::MovingWindow._predict",
    params={"self": "obj:MovingWindow", "self._is_fitted": "bool=True", "self.bandwidth": "int", "self.threshold_": "real",
            "self.min_detection_interval": "int", **_MCS, "X": "real[n,p]"},
    requires=["self.bandwidth >= 1", "self._change_score.min_size >= 1", "self._change_score.min_size <= self.bandwidth",
              "self.min_detection_interval >= 1"],
    raises={"ValueError": "HASNAN(X) or n < 2 * self.bandwidth"},
    modifies={"self.scores": "series:real[n]", "self._change_score._X": "=X", "self._change_score._is_fitted": "=True", "self._change_score.ghost_tok": "int",
              "self._change_score.ghost_n": "=n", "self._change_score.ghost_p": "=p", "self._change_score.ghost_q": "int"},
    returns="frame:int[K]",
    ensures={
        # changepoints are positions whose score (the transform's score of this X) exceeds the fitted threshold
        "changepoints_above_threshold": "forall(range(len(payload(result))), lambda q: 0 <= payload(result)[q] and payload(result)[q] < n and "
                                        "payload(self.scores)[payload(result)[q]] > self.threshold_)",
        "scores_are_the_transform": "len(payload(self.scores)) == n and forall(range(n), lambda t: payload(self.scores)[t] == "
                                    "ite(self.bandwidth <= t and t <= n - self.bandwidth, "
                                    "AGG3(self._change_score.ghost_tok, t - self.bandwidth, t, t + self.bandwidth), 0))",
        # C04 for the moving window: strictly increasing; with a non-negative fitted threshold every changepoint lies in [bandwidth, n - bandwidth]
        # (the zero-padded border never exceeds it -- the negative-threshold case is known finding KF1)
        "increasing": "forall(range(len(payload(result)) - 1), lambda q: payload(result)[q] < payload(result)[q + 1])",
        "in_scored_range": "implies(self.threshold_ >= 0, forall(range(len(payload(result))), lambda q: self.bandwidth <= payload(result)[q] and "
                           "payload(result)[q] <= n - self.bandwidth))",
    },
    props=["C08", "C04", "C10"],
)

# ------------------------------------------------------------------------------------------------ CAPA._fit (penalties)
contract(
    target=f"{CP}::CAPA._fit",
    params={"self": "obj:CAPA", "self.collective_penalty_scale": "real", "self.point_penalty_scale": "real", "self.min_segment_length": "int",
            "self._collective_saving": "obj:~BaseSaving", "self._collective_saving.ghost_params_per_variable": "int", "X": "real[n,p]", "y": "none"},
    requires=["self.collective_penalty_scale >= 0", "self.point_penalty_scale >= 0", "self.min_segment_length >= 2", "p >= 1",
              "self._collective_saving.ghost_params_per_variable >= 1"],
    uses=["AX_LOG_ge0(n)"],
    raises={"ValueError": "HASNAN(X) or n < self.min_segment_length"},
    ensures={
        # C15: collective penalty == scale * (k + 2 sqrt(k log n) + 2 log n) with k parameters per segment
        "collective_penalty": "self.collective_penalty_ == self.collective_penalty_scale * (self._collective_saving.ghost_params_per_variable * p"
                              " + 2 * SQRT(self._collective_saving.ghost_params_per_variable * p * LOG(n)) + 2 * LOG(n))",
        "point_penalty": "self.point_penalty_ == self.point_penalty_scale * (self._collective_saving.ghost_params_per_variable * p) * p * LOG(n)",
    },
    props=["C15", "C14", "C10"],
)

# ------------------------------------------------------------------------------------------------ MVCAPA glue (C16, C03, C04, C15)
MVP = "skchange/anomaly_detectors/mvcapa.py"
_KIND = {"dense": 0, "sparse": 1, "intermediate": 2, "combined": 3}
_PALPHA = {   # alpha of the built-in penalties (p >= 2) as proved / assumed in penalties.py
    "dense": lambda n, p, k, sc: f"({sc} * ((({p}) * ({k})) + 2 * SQRT((({p}) * ({k})) * LOG({n})) + 2 * LOG({n})))",
    "sparse": lambda n, p, k, sc: f"(2 * ({sc}) * LOG({n}))",
    "intermediate": lambda n, p, k, sc: "0",
    "combined": lambda n, p, k, sc: "0",
}


def _msav(pre):
    return {pre: "obj:~BaseSaving", f"{pre}.min_size": "int", f"{pre}.ghost_params_per_variable": "int", f"{pre}.ghost_per_variable": "bool=True"}


def _cols_ok(lst):
    return (f"forall(range(len({lst})), lambda a: 1 <= len({lst}[a][2]) and len({lst}[a][2]) <= p and "
            f"forall(range(len({lst}[a][2])), lambda r: 0 <= {lst}[a][2][r] and {lst}[a][2][r] < p) and "
            f"forall(range(len({lst}[a][2])), range(len({lst}[a][2])), lambda r, r2: implies(r != r2, {lst}[a][2][r] != {lst}[a][2][r2])))")


def _topk(lst, tok):
    return (f"forall(range(len({lst})), lambda a: forall(range(len({lst}[a][2])), lambda r: "
            f"SC2({tok}, {lst}[a][0], {lst}[a][1], {lst}[a][2][r]) == SORTV({tok}, {lst}[a][0], {lst}[a][1], r)))")


def _argmaxk(lst, tok, alpha, bid, body_only=False):
    C = lambda k: f"CUMPEN({tok}, {lst}[a][0], {lst}[a][1], {alpha}, {bid}, {k})"
    body = (f"forall(range(p), lambda k: {C('k')} <= {C(f'len({lst}[a][2]) - 1')}) and "
            f"forall(range(len({lst}[a][2]) - 1), lambda k: {C('k')} < {C(f'len({lst}[a][2]) - 1')})")
    return body if body_only else f"forall(range(len({lst})), lambda a: {body})"


for _cp in _KIND:
    for _pp in _KIND:
        _kc, _kp = "collective_saving.ghost_params_per_variable", "point_saving.ghost_params_per_variable"
        _sa = _PALPHA["sparse"]("n", "p", _kc, "collective_penalty_scale")
        _sb = f"PEN_BID(1, n, p, {_kc}, collective_penalty_scale)"
        _pa = _PALPHA[_pp]("n", "p", _kp, "point_penalty_scale")
        _pb = f"PEN_BID({_KIND[_pp]}, n, p, {_kp}, point_penalty_scale)"
        _ca = _PALPHA[_cp]("n", "p", _kc, "collective_penalty_scale")
        _cb = f"PEN_BID({_KIND[_cp]}, n, p, {_kc}, collective_penalty_scale)"
        _tc, _tp = "collective_saving.ghost_tok", "point_saving.ghost_tok"
        contract(
            target=f"{MVP}::run_mvcapa", variant=f"{_cp}/{_pp}",
            params={"X": "real[n,p]", **_msav("collective_saving"), **_msav("point_saving"),
                    "collective_penalty": f"str={_cp}", "collective_penalty_scale": "real", "point_penalty": f"str={_pp}", "point_penalty_scale": "real",
                    "min_segment_length": "int", "max_segment_length": "int"},
            requires=["p >= 2", "min_segment_length >= 2", "max_segment_length >= min_segment_length", "n >= min_segment_length",
                      "collective_penalty_scale >= 0", "point_penalty_scale >= 0", f"{_kc} >= 1", f"{_kp} >= 1",
                      "collective_saving.min_size >= 1", "collective_saving.min_size <= min_segment_length", "point_saving.min_size == 1"],
            modifies={**_FITM("collective_saving"), **_FITM("point_saving")},
            returns="(real[n],list[(int,int,int[])],list[(int,int,int[])])",
            ensures={
                "scores_are_optimal": f"forall(range(1, n + 1), lambda T: result[0][T - 1] == CG({_tc}, {_tp}, T))",
                "collective_lengths": "forall(range(len(result[1])), lambda q: 0 <= result[1][q][0] and result[1][q][1] <= n and "
                                      "min_segment_length <= result[1][q][1] - result[1][q][0] and result[1][q][1] - result[1][q][0] <= max_segment_length)",
                "point_lengths": "forall(range(len(result[2])), lambda q: 0 <= result[2][q][0] and result[2][q][1] == result[2][q][0] + 1 and result[2][q][1] <= n)",
                "disjoint": "forall(range(len(result[1])), range(len(result[2])), lambda q, r: result[1][q][1] <= result[2][r][0] or result[2][r][1] <= result[1][q][0]) and "
                            "forall(range(len(result[1])), range(len(result[1])), lambda q, r: implies(q < r, result[1][r][1] <= result[1][q][0])) and "
                            "forall(range(len(result[2])), range(len(result[2])), lambda q, r: implies(q < r, result[2][r][1] <= result[2][q][0]))",
                "columns_valid_distinct": _cols_ok("result[1]") + " and " + _cols_ok("result[2]"),
                "top_k_in_order": _topk("result[1]", _tc) + " and " + _topk("result[2]", _tp),
                # collective anomalies: k maximises the cumulative saving minus the SPARSE penalty (whatever collective_penalty is)
                "collective_argmax_k_sparse_penalty": _argmaxk("result[1]", _tc, _sa, _sb),
                # point anomalies: ... minus the POINT penalty
                "point_argmax_k_point_penalty": _argmaxk("result[2]", _tp, _pa, _pb),
                # C03 for MVCAPA: re-evaluating the reported anomalies under the same (named, closed-form) penalties gives exactly the final score
                "reevaluation": f"CG({_tc}, {_tp}, n) == LSUM('coll', result[1], len(result[1]), lambda x: PSC({_tc}, x[0], x[1], {_ca}, {_cb})) + "
                                f"LSUM('pt', result[2], len(result[2]), lambda x: PSC({_tp}, x[0], x[0] + 1, {_pa}, {_pb}))",
            },
            ghost=[
                ("after:opt_savings, collective_anomalies, point_anomalies = run_base_capa(*", "g_c0 = collective_anomalies\ng_p0 = point_anomalies"),
                ("after:point_saving.fit(X)",
                 f"assume(CAPA_THEORY({_tc}, collective_alpha, arrid(collective_betas), {_tp}, point_alpha, arrid(point_betas), min_segment_length, max_segment_length, n))\n"
                 f"assume(CAPA_SUBADD({_tc}, collective_alpha, arrid(collective_betas), collective_alpha + vsum(collective_betas), min_segment_length, max_segment_length, n))"),
                ("after:point_anomalies = find_affected_components(*",
                 f"assume(ARRID_DEF(sparse_betas))\nassume(ARRID_DEF(point_betas))\n"
                 f"assume(PEN_BID_DEF(1, n, p, {_kc}, collective_penalty_scale))\nassume(PEN_BID_DEF({_KIND[_pp]}, n, p, {_kp}, point_penalty_scale))\n"
                 f"assert forall(range(len(collective_anomalies)), lambda a: using(L_cumpen_ext({_tc}, collective_anomalies[a][0], collective_anomalies[a][1], "
                 f"sparse_alpha, arrid(sparse_betas), {_sb}, p), {_argmaxk('collective_anomalies', _tc, _sa, _sb, True)}))\n"
                 f"assert forall(range(len(point_anomalies)), lambda a: using(L_cumpen_ext({_tp}, point_anomalies[a][0], point_anomalies[a][1], "
                 f"point_alpha, arrid(point_betas), {_pb}, p), {_argmaxk('point_anomalies', _tp, _pa, _pb, True)}))\n"
                 # re-evaluation: from the arrays the dynamic programme used to the named sequences, from the interval lists to the returned triples
                 f"assume(ARRID_DEF(collective_betas))\nassume(PEN_BID_DEF({_KIND[_cp]}, n, p, {_kc}, collective_penalty_scale))\n"
                 f"assert using(AX_psc_ext({_tc}, collective_alpha, arrid(collective_betas), {_cb}, p), "
                 f"LSUM_EXT('coll', g_c0, lambda x: PSC({_tc}, x[0], x[1], collective_alpha, arrid(collective_betas)), collective_anomalies, "
                 f"lambda x: PSC({_tc}, x[0], x[1], {_ca}, {_cb})), "
                 f"LSUM('coll', collective_anomalies, len(collective_anomalies), lambda x: PSC({_tc}, x[0], x[1], {_ca}, {_cb})) == "
                 f"LSUM('coll', g_c0, len(g_c0), lambda x: PSC({_tc}, x[0], x[1], collective_alpha, arrid(collective_betas))))\n"
                 f"assert using(AX_psc_ext({_tp}, point_alpha, arrid(point_betas), {_pb}, p), "
                 f"LSUM_EXT('pt', g_p0, lambda x: PSC({_tp}, x[0], x[0] + 1, point_alpha, arrid(point_betas)), point_anomalies, "
                 f"lambda x: PSC({_tp}, x[0], x[0] + 1, {_pa}, {_pb})), "
                 f"LSUM('pt', point_anomalies, len(point_anomalies), lambda x: PSC({_tp}, x[0], x[0] + 1, {_pa}, {_pb})) == "
                 f"LSUM('pt', g_p0, len(g_p0), lambda x: PSC({_tp}, x[0], x[0] + 1, point_alpha, arrid(point_betas))))"),
            ],
            props=["C16", "C03", "C04", "C15"],
        )

contract(
    target=f"{AB}::SubsetCollectiveAnomalyDetector._format_sparse_output", assumed=True, level="A",
    params={"collective_anomalies": "list[(int,int,int[])]", "closed": "str"},
    returns="=frame_of(collective_anomalies)",
    note="pandas: the returned frame lists exactly the given (start, end, columns) triples, in order (ilocs, labels 1..K, icolumns) (bounded: C04/C05/C16)",
)
for _cp in _KIND:
    for _pp in _KIND:
        _kc, _kp = "self._collective_saving.ghost_params_per_variable", "self._point_saving.ghost_params_per_variable"
        _sa = _PALPHA["sparse"]("n", "p", _kc, "self.collective_penalty_scale")
        _sb = f"PEN_BID(1, n, p, {_kc}, self.collective_penalty_scale)"
        _pa = _PALPHA[_pp]("n", "p", _kp, "self.point_penalty_scale")
        _pb = f"PEN_BID({_KIND[_pp]}, n, p, {_kp}, self.point_penalty_scale)"
        _tc, _tp = "self._collective_saving.ghost_tok", "self._point_saving.ghost_tok"
        _R = "payload(result)"
        _isp = f"({_R}[a][1] == {_R}[a][0] + 1)"
        Cc = lambda k: f"CUMPEN({_tc}, {_R}[a][0], {_R}[a][1], {_sa}, {_sb}, {k})"
        Cp = lambda k: f"CUMPEN({_tp}, {_R}[a][0], {_R}[a][1], {_pa}, {_pb}, {k})"
        _K1 = f"len({_R}[a][2]) - 1"
        contract(
            target=f"{MVP}::MVCAPA._predict", variant=f"{_cp}/{_pp}",
            params={"self": "obj:MVCAPA", "self.collective_penalty": f"str={_cp}", "self.collective_penalty_scale": "real",
                    "self.point_penalty": f"str={_pp}", "self.point_penalty_scale": "real",
                    "self.min_segment_length": "int", "self.max_segment_length": "int", "self.ignore_point_anomalies": "bool",
                    **{"self._collective_saving": "obj:~BaseSaving", "self._collective_saving.min_size": "int",
                       "self._collective_saving.ghost_params_per_variable": "int", "self._collective_saving.ghost_per_variable": "bool=True"},
                    **{"self._point_saving": "obj:~BaseSaving", "self._point_saving.min_size": "int",
                       "self._point_saving.ghost_params_per_variable": "int", "self._point_saving.ghost_per_variable": "bool=True"},
                    "X": "real[n,p]"},
            requires=["p >= 2", "self.min_segment_length >= 2", "self.max_segment_length >= self.min_segment_length",
                      "self.collective_penalty_scale >= 0", "self.point_penalty_scale >= 0", f"{_kc} >= 1", f"{_kp} >= 1",
                      "self._collective_saving.min_size >= 1", "self._collective_saving.min_size <= self.min_segment_length",
                      "self._point_saving.min_size == 1"],
            raises={"ValueError": "HASNAN(X) or n < self.min_segment_length"},
            modifies={"self.scores": "series:real[n]", **_FITM("self._collective_saving"), **_FITM("self._point_saving")},
            returns="frame:list[(int,int,int[])]",
            ensures={
                "scores": f"forall(range(1, n + 1), lambda T: payload(self.scores)[T - 1] == CG({_tc}, {_tp}, T))",
                # C04: reported intervals lie in [0, n], are point anomalies or of admissible length, sorted and pairwise disjoint
                "anomalies_wellformed": f"forall(range(len({_R})), lambda a: 0 <= {_R}[a][0] and {_R}[a][1] <= n and "
                                        f"({_isp} or (self.min_segment_length <= {_R}[a][1] - {_R}[a][0] and {_R}[a][1] - {_R}[a][0] <= self.max_segment_length)))",
                "sorted_disjoint": f"forall(range(len({_R})), range(len({_R})), lambda a, b: implies(a < b, {_R}[a][1] <= {_R}[b][0]))",
                "ignore_point_anomalies": f"implies(self.ignore_point_anomalies, forall(range(len({_R})), lambda a: self.min_segment_length <= {_R}[a][1] - {_R}[a][0]))",
                # C16
                "columns_valid_distinct": _cols_ok(_R),
                "top_k_in_order": f"forall(range(len({_R})), lambda a: forall(range(len({_R}[a][2])), lambda r: "
                                  f"SC2(ite({_isp}, {_tp}, {_tc}), {_R}[a][0], {_R}[a][1], {_R}[a][2][r]) == SORTV(ite({_isp}, {_tp}, {_tc}), {_R}[a][0], {_R}[a][1], r)))",
                "argmax_k": f"forall(range(len({_R})), lambda a: implies({_isp}, "
                            f"forall(range(p), lambda k: {Cp('k')} <= {Cp(_K1)}) and forall(range({_K1}), lambda k: {Cp('k')} < {Cp(_K1)})) and implies(not {_isp}, "
                            f"forall(range(p), lambda k: {Cc('k')} <= {Cc(_K1)}) and forall(range({_K1}), lambda k: {Cc('k')} < {Cc(_K1)})))",
            },
            props=["C16", "C03", "C04", "C10"],
        )

# ------------------------------------------------------------------------------------------------ transform_scores glue (C02: scores are those of THIS X)
contract(
    target=f"{P}::PELT._transform_scores",
    params={"self": "obj:PELT", "self._is_fitted": "bool=True", "self.penalty_": "real", "self.min_segment_length": "int", "self._cost": "obj:~BaseCost",
            "self._cost.min_size": "int", "self.scores": "any", "X": "real[n,p]"},
    requires=["self.min_segment_length >= 1", "self.penalty_ >= 0", "self._cost.min_size >= 1", "self._cost.min_size <= self.min_segment_length",
              "PELT_THEORY('all', self.min_segment_length, self.penalty_, n)", "SPLIT_INEQ('all', self.min_segment_length, 0.0, n)"],
    raises={"ValueError": "HASNAN(X) or n < 2 * self.min_segment_length"},
    ensures={
        # whatever was computed or stored before (self.scores is arbitrary at entry), the returned scores are the optimal costs of the prefixes of X
        "scores_of_this_X": f"forall(range(self.min_segment_length, n + 1), lambda u: payload(result)[u - 1] == PF({TOKP}, self.min_segment_length, self.penalty_, u))",
        "fitted_on_X": "self._cost._is_fitted == True and self._cost.ghost_n == n",
    },
    props=["C02", "C10"],
)

contract(
    target=f"{CP}::CAPA._transform_scores",
    params={"self": "obj:CAPA", "self._is_fitted": "bool=True", "self.collective_penalty_": "real", "self.point_penalty_": "real", "self.min_segment_length": "int",
            "self.max_segment_length": "int", "self.ignore_point_anomalies": "bool", "self.scores": "any",
            "self._collective_saving": "obj:~BaseSaving", "self._collective_saving.min_size": "int",
            "self._point_saving": "obj:~BaseSaving", "self._point_saving.min_size": "int", "X": "real[n,p]"},
    requires=["self._collective_saving.min_size >= 1", "self._collective_saving.min_size <= self.min_segment_length", "self._point_saving.min_size == 1",
              "self.min_segment_length >= 2", "self.max_segment_length >= self.min_segment_length",
              "CAPA_THEORY('all', self.collective_penalty_, ZEROS1(), 'all', self.point_penalty_, ZEROS1(), self.min_segment_length, self.max_segment_length, n)",
              "CAPA_SUBADD('all', self.collective_penalty_, ZEROS1(), self.collective_penalty_, self.min_segment_length, self.max_segment_length, n)"],
    raises={"ValueError": "HASNAN(X) or n < self.min_segment_length"},
    ensures={"scores_of_this_X": "forall(range(1, n + 1), lambda T: payload(result)[T - 1] == CG(self._collective_saving.ghost_tok, self._point_saving.ghost_tok, T))"},
    props=["C03", "C10"],
)

contract(
    target=f"{MVP}::MVCAPA._fit",
    params={"self": "obj:MVCAPA", "self.min_segment_length": "int", "X": "real[n,p]", "y": "none"},
    requires=["self.min_segment_length >= 2"],
    # the only job of MVCAPA's fit: reject inadmissible training data (C14)
    raises={"ValueError": "HASNAN(X) or n < self.min_segment_length"},
    returns="=self",
    props=["C14", "C10"],
)

# check_data on its real body for ndarray input (C14): the assumed contract above is what call sites use (it models the returned frame by its
# values); this one proves the same raises clause on the code, with the pandas accessors (DataFrame(values), ndim, shape, isna().any) assumed
contract(
    target="skchange/utils/validation/data.py::check_data", variant="body/ndarray",
    params={"X": "real[n,p]", "min_length": "int", "min_length_name": "str", "allow_missing_values": "bool=False"},
    raises={"ValueError": "HASNAN(X) or n < min_length"},
    returns="frame:real[n,p]",
    ensures={"same_values": "payload(result).shape == (n, p) and forall(range(n), range(p), lambda i, j: payload(result)[i, j] == X[i, j])"},
    props=["C14"],
)

# ------------------------------------------------------------------------------------------------ tuned thresholds (C15: scale None)
_MWSC = ("ite(self.bandwidth <= t and t <= n - self.bandwidth, "
         "AGG3(self._change_score.ghost_tok, t - self.bandwidth, t, t + self.bandwidth), 0)")
_MW_TUNE_MODS = {"self._change_score._X": "=X", "self._change_score._is_fitted": "=True", "self._change_score.ghost_tok": "int",
                 "self._change_score.ghost_n": "=n", "self._change_score.ghost_p": "=p", "self._change_score.ghost_q": "int"}
contract(
    target=f"{MW}::MovingWindow._tune_threshold",
    params={"self": "obj:MovingWindow", "self.bandwidth": "int", "self.level": "real", **_MCS, "X": "real[n,p]"},
    requires=["self.bandwidth >= 1", "self._change_score.min_size >= 1", "self._change_score.min_size <= self.bandwidth", "n >= 2 * self.bandwidth",
              "0 <= self.level", "self.level <= 1"],
    modifies=_MW_TUNE_MODS,
    returns="real",
    ensures={
        # the (1 - level) quantile of exactly the moving-window scores (fitted bandwidth) of the training data
        "quantile_of_training_scores": "result == MWQ(self._change_score.ghost_tok, self.bandwidth, n, 1 - self.level)",
        "fitted_on_X": "self._change_score._is_fitted == True and self._change_score.ghost_n == n",
    },
    ghost=[("after:tuned_threshold = *",
            "assert using(AX_mwq(scores, self._change_score.ghost_tok, self.bandwidth, n, 1 - self.level), "
            "tuned_threshold == MWQ(self._change_score.ghost_tok, self.bandwidth, n, 1 - self.level))")],
    props=["C15"],
)
contract(
    target=f"{MW}::MovingWindow._fit", variant="tuned",
    params={"self": "obj:MovingWindow", "self.threshold_scale": "none", "self.bandwidth": "int", "self.level": "real", **_MCS, "X": "real[n,p]", "y": "none"},
    requires=["self.bandwidth >= 1", "self._change_score.min_size >= 1", "self._change_score.min_size <= self.bandwidth",
              "0 <= self.level", "self.level <= 1"],
    raises={"ValueError": "HASNAN(X) or n < 2 * self.bandwidth"},
    modifies=_MW_TUNE_MODS,
    # the value of threshold_ is the post-condition of _tune_threshold (above); it is not repeated here: it rests on the axiom instance inside
    # that contract, and a maintainer moving the two lines of _tune_threshold into _get_threshold would otherwise turn a missing hint into a
    # refuted post-condition (a false alarm) - with the clause at the function that computes the quantile, that refactoring is "undecided"
    ensures={"fitted_on_X": "self._change_score._is_fitted == True and self._change_score.ghost_n == n"},
    props=["C15", "C14"],
)
