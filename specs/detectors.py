"""Class-level glue of the detectors (argument wiring), with the pandas calls assumed (C02, C15, C14, C10)."""
from pyvc.contracts import contract

from .pelt import COST_FIELDS

# check_data: assumed contract (pandas): the returned frame is modelled by its 2-D values
contract(
    target="skchange/utils/validation/data.py::check_data", assumed=True, level="A",
    params={"X": "real[n,p]", "min_length": "int", "min_length_name": "str", "allow_missing_values": "bool"},
    raises={"ValueError": "HASNAN(X) or n < min_length"},
    returns="=X",
    note="check_data converts ndarray/Series to a DataFrame and raises ValueError iff the data contain missing values or have fewer than "
         "min_length rows (pandas; exercised by the bounded drivers C11/C14)",
)

P = "skchange/change_detectors/pelt.py"
contract(
    target=f"{P}::PELT._fit", variant="scale",
    params={"self": "obj:PELT", "self.penalty_scale": "real", "self.min_segment_length": "int", "X": "real[n,p]", "y": "none"},
    requires=["self.penalty_scale >= 0", "self.min_segment_length >= 1", "p >= 1"],
    raises={"ValueError": "HASNAN(X) or n < 2 * self.min_segment_length"},
    ensures={
        # C15: fitted penalty == scale * 2 p log n  (hence proportional to the scale)
        "penalty": "self.penalty_ == self.penalty_scale * (2 * p * LOG(n))",
        "hyper_parameters_untouched": "self.penalty_scale == old(self.penalty_scale) and self.min_segment_length == old(self.min_segment_length)",
    },
    props=["C15", "C14", "C10"],
)
contract(
    target=f"{P}::PELT._fit", variant="scale=None",
    params={"self": "obj:PELT", "self.penalty_scale": "none", "self.min_segment_length": "int", "X": "real[n,p]", "y": "none"},
    requires=["self.min_segment_length >= 1"],
    raises={"ValueError": "True"},          # documented: tuning is not supported; missing data / short data also ValueError
    props=["C14"],
)
TOKP = "self._cost.ghost_tok"
contract(
    target=f"{P}::PELT._predict",
    params={"self": "obj:PELT", "self.penalty_": "real", "self.min_segment_length": "int", "self._cost": "obj:~BaseCost", "self._cost.min_size": "int",
            "X": "real[n,p]"},
    requires=["self.min_segment_length >= 1", "self.penalty_ >= 0", "self._cost.min_size >= 1", "self._cost.min_size <= self.min_segment_length",
              "PELT_THEORY('all', self.min_segment_length, self.penalty_, n)", "SPLIT_INEQ('all', self.min_segment_length, 0.0, n)"],
    raises={"ValueError": "HASNAN(X) or n < 2 * self.min_segment_length"},
    ensures={
        # the wiring: data values, the fitted penalty and min_segment_length reach run_pelt; scores and changepoints are its results
        "scores": f"forall(range(self.min_segment_length, n + 1), lambda u: payload(self.scores)[u - 1] == PF({TOKP}, self.min_segment_length, self.penalty_, u))",
        "changepoints_wellformed": "forall(range(len(payload(result))), lambda q: self.min_segment_length <= payload(result)[q] and "
                                   "payload(result)[q] <= n - self.min_segment_length)",
        "fitted_on_X": "self._cost._is_fitted == True and self._cost.ghost_n == n",
    },
    props=["C02", "C10", "C04"],
)

# ------------------------------------------------------------------------------------------------ SeededBinarySegmentation glue
SB = "skchange/change_detectors/seeded_binseg.py"
contract(
    target=f"{SB}::SeededBinarySegmentation._fit", variant="scale",
    params={"self": "obj:SeededBinarySegmentation", "self.threshold_scale": "real", "self.min_segment_length": "int", "X": "real[n,p]", "y": "none"},
    requires=["self.threshold_scale >= 0", "self.min_segment_length >= 1", "p >= 1"],
    uses=["AX_LOG_ge0(n)"],
    raises={"ValueError": "HASNAN(X) or n < 2 * self.min_segment_length"},
    ensures={"threshold": "self.threshold_ == self.threshold_scale * (2 * p * SQRT(LOG(n)))"},
    props=["C15", "C14", "C10"],
)
_CS = {"self._change_score": "obj:~BaseChangeScore", "self._change_score.min_size": "int"}
contract(
    target=f"{SB}::SeededBinarySegmentation._predict",
    params={"self": "obj:SeededBinarySegmentation", "self.threshold_": "real", "self.min_segment_length": "int", "self.max_interval_length": "int",
            "self.growth_factor": "real", **_CS, "X": "real[n,p]"},
    requires=["self.min_segment_length >= 1", "self.threshold_ >= 0", "self._change_score.min_size >= 1",
              "self._change_score.min_size <= self.min_segment_length", "self.max_interval_length >= 2 * self.min_segment_length",
              "self.growth_factor > 1", "self.growth_factor <= 2"],
    raises={"ValueError": "HASNAN(X) or n < 2 * self.min_segment_length"},
    ensures={
        "changepoints_wellformed": "forall(range(len(payload(result))), lambda q: self.min_segment_length <= payload(result)[q] and "
                                   "payload(result)[q] <= n - self.min_segment_length) and "
                                   "forall(range(len(payload(result)) - 1), lambda q: payload(result)[q] + self.min_segment_length <= payload(result)[q + 1])",
        "fitted_on_X": "self._change_score._is_fitted == True and self._change_score.ghost_n == n",
    },
    props=["C07", "C04", "C10"],
)

# ------------------------------------------------------------------------------------------------ MovingWindow glue
MW = "skchange/change_detectors/moving_window.py"
contract(
    target=f"{MW}::MovingWindow.get_default_threshold", assumed=True, level="A",
    params={"n": "int", "p": "int", "bandwidth": "int", "level": "real"},
    returns="real",
    ensures={"published_formula": "result == MWTHR(n, p, bandwidth, level)"},
    note="the detector's own published default-threshold function (nested logs of n/bandwidth and level): kept uninterpreted, the statement of C15 "
         "defers to it; its sign / domain is what known finding KF1 is about",
)
contract(
    target=f"{MW}::MovingWindow._fit", variant="scale",
    params={"self": "obj:MovingWindow", "self.threshold_scale": "real", "self.bandwidth": "int", "self.level": "real", "X": "real[n,p]", "y": "none"},
    requires=["self.threshold_scale >= 0", "self.bandwidth >= 1"],
    raises={"ValueError": "HASNAN(X) or n < 2 * self.bandwidth"},
    ensures={"threshold": "self.threshold_ == self.threshold_scale * MWTHR(n, p, self.bandwidth, self.level)"},
    props=["C15", "C14", "C10"],
)
_MCS = {"self._change_score": "obj:~BaseChangeScore", "self._change_score.min_size": "int"}
contract(
    target=f"{MW}::MovingWindow._transform_scores",
    params={"self": "obj:MovingWindow", "self.bandwidth": "int", **_MCS, "X": "real[n,p]"},
    requires=["self.bandwidth >= 1", "self._change_score.min_size >= 1", "self._change_score.min_size <= self.bandwidth"],
    raises={"ValueError": "HASNAN(X) or n < 2 * self.bandwidth"},
    ensures={
        "score_def": "len(payload(result)) == n and forall(range(n), lambda t: payload(result)[t] == ite(self.bandwidth <= t and t <= n - self.bandwidth, "
                     "AGG3(self._change_score.ghost_tok, t - self.bandwidth, t, t + self.bandwidth), 0))",
        "fitted_on_X": "self._change_score._is_fitted == True and self._change_score.ghost_n == n",
    },
    props=["C08", "C10"],
)

# ------------------------------------------------------------------------------------------------ CAPA glue
CP = "skchange/anomaly_detectors/capa.py"
AB = "skchange/anomaly_detectors/base.py"
contract(
    target=f"{AB}::CollectiveAnomalyDetector._format_sparse_output", assumed=True, level="A",
    params={"anomaly_intervals": "list[(int,int)]", "closed": "str"},
    returns="=frame_of(anomaly_intervals)",
    note="pandas: the returned frame lists exactly the given intervals, in order, as a left-closed IntervalIndex with labels 1..K (bounded: C04/C05)",
)


def _csav(pre):
    return {pre: "obj:~BaseSaving", f"{pre}.min_size": "int"}


_FITM = lambda pre: {f"{pre}._X": "=X", f"{pre}._is_fitted": "=True", f"{pre}.ghost_tok": "int", f"{pre}.ghost_n": "=n", f"{pre}.ghost_p": "=p",
                     f"{pre}.ghost_q": "int"}
_CAPA_REQ = lambda a_c, a_p, m, M: [
    f"{m} >= 2", f"{M} >= {m}", f"n >= {m}",
    f"CAPA_THEORY('all', {a_c}, ZEROS1(), 'all', {a_p}, ZEROS1(), {m}, {M}, n)",
    f"CAPA_SUBADD('all', {a_c}, ZEROS1(), {a_c}, {m}, {M}, n)"]
contract(
    target=f"{CP}::run_capa",
    params={"X": "real[n,p]", **_csav("collective_saving"), **_csav("point_saving"), "collective_alpha": "real", "point_alpha": "real",
            "min_segment_length": "int", "max_segment_length": "int"},
    requires=["collective_saving.min_size >= 1", "collective_saving.min_size <= min_segment_length", "point_saving.min_size == 1"]
             + _CAPA_REQ("collective_alpha", "point_alpha", "min_segment_length", "max_segment_length"),
    modifies={**_FITM("collective_saving"), **_FITM("point_saving")},
    returns="(real[n],list[(int,int)],list[(int,int)])",
    ensures={
        # both savings are fitted on X here, alpha-only penalties (betas = zeros(1)) reach the dynamic programme
        "scores_are_optimal": "forall(range(1, n + 1), lambda T: result[0][T - 1] == CG(collective_saving.ghost_tok, point_saving.ghost_tok, T))",
        "collective_lengths": "forall(range(len(result[1])), lambda q: 0 <= result[1][q][0] and result[1][q][1] <= n and "
                              "min_segment_length <= result[1][q][1] - result[1][q][0] and result[1][q][1] - result[1][q][0] <= max_segment_length)",
        "point_lengths": "forall(range(len(result[2])), lambda q: 0 <= result[2][q][0] and result[2][q][1] == result[2][q][0] + 1 and result[2][q][1] <= n)",
        "fitted_on_X": "collective_saving._is_fitted == True and collective_saving.ghost_n == n and point_saving._is_fitted == True and point_saving.ghost_n == n",
    },
    props=["C03", "C10", "C04"],
)
contract(
    target=f"{CP}::CAPA._predict",
    params={"self": "obj:CAPA", "self.collective_penalty_": "real", "self.point_penalty_": "real", "self.min_segment_length": "int",
            "self.max_segment_length": "int", "self.ignore_point_anomalies": "bool",
            "self._collective_saving": "obj:~BaseSaving", "self._collective_saving.min_size": "int",
            "self._point_saving": "obj:~BaseSaving", "self._point_saving.min_size": "int", "X": "real[n,p]"},
    requires=["self._collective_saving.min_size >= 1", "self._collective_saving.min_size <= self.min_segment_length", "self._point_saving.min_size == 1",
              "self.min_segment_length >= 2", "self.max_segment_length >= self.min_segment_length",
              "CAPA_THEORY('all', self.collective_penalty_, ZEROS1(), 'all', self.point_penalty_, ZEROS1(), self.min_segment_length, self.max_segment_length, n)",
              "CAPA_SUBADD('all', self.collective_penalty_, ZEROS1(), self.collective_penalty_, self.min_segment_length, self.max_segment_length, n)"],
    raises={"ValueError": "HASNAN(X) or n < self.min_segment_length"},
    ensures={
        "scores": "forall(range(1, n + 1), lambda T: payload(self.scores)[T - 1] == CG(self._collective_saving.ghost_tok, self._point_saving.ghost_tok, T))",
        "anomalies_wellformed": "forall(range(len(payload(result))), lambda q: 0 <= payload(result)[q][0] and payload(result)[q][1] <= n and "
                                "(payload(result)[q][1] == payload(result)[q][0] + 1 or (self.min_segment_length <= payload(result)[q][1] - payload(result)[q][0] "
                                "and payload(result)[q][1] - payload(result)[q][0] <= self.max_segment_length)))",
        # with ignore_point_anomalies no length-1 interval is reported (min_segment_length >= 2)
        "ignore_point_anomalies": "implies(self.ignore_point_anomalies, forall(range(len(payload(result))), lambda q: "
                                  "self.min_segment_length <= payload(result)[q][1] - payload(result)[q][0]))",
    },
    props=["C03", "C04", "C10"],
)
