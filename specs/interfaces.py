"""Interface contracts of BaseIntervalScorer subclasses used through an *abstract* (interface-typed, `obj:~Class`) object.

They are assumptions for user-defined scorers (the properties quantify over "programs" that meet the interface) and are
refined by the concrete classes' own proved contracts in scorers.py (same raises clause; the value clause with
SCk(tok, cut, j) := the class's spec value for the data of the fit that produced `tok`).
"""
from pyvc.contracts import contract

from .scorers import EVAL, FIT, valid_cuts

IFACES = {"BaseCost": 2, "BaseSaving": 2, "BaseChangeScore": 3, "BaseLocalAnomalyScore": 4}

for _cls, _k in IFACES.items():
    contract(
        target=FIT, variant=f"iface/{_cls}", assumed=True, level="A",
        params={"self": f"obj:~{_cls}", "X": "real[n,p]", "y": "none"},
        modifies={"self._X": "=X", "self._is_fitted": "=True", "self.ghost_tok": "int", "self.ghost_n": "=n", "self.ghost_p": "=p",
                  "self.ghost_q": "int"},
        returns="=self",
        ensures={"q": "self.ghost_q >= 1"},
        note="fit(X) replaces the fitted state (fresh token), modifies only the scorer",
    )
    _cut = ", ".join(f"cuts[i, {q}]" for q in range(_k))
    if _cls == "BaseLocalAnomalyScore":
        # LocalAnomalyScore's own rule: outer gaps >= 1, inner >= min_size, pooled surroundings >= min_size
        _valid = ("(c == 4 and forall(range(r), lambda i: cuts[i, 1] - cuts[i, 0] >= 1 and cuts[i, 3] - cuts[i, 2] >= 1 and "
                  "cuts[i, 2] - cuts[i, 1] >= self.min_size and (cuts[i, 1] - cuts[i, 0]) + (cuts[i, 3] - cuts[i, 2]) >= self.min_size "
                  "and 0 <= cuts[i, 0] and cuts[i, 3] <= self.ghost_n))")
    else:
        _valid = valid_cuts(_k, "self.min_size", n="self.ghost_n")
    contract(
        target=EVAL, variant=f"iface/{_cls}", assumed=True, level="A",
        params={"self": f"obj:~{_cls}", "self._is_fitted": "bool=True", "self.min_size": "int", "self.ghost_tok": "int",
                "self.ghost_n": "int", "self.ghost_q": "int", "cuts": "int[r,c]"},
        raises={"ValueError": f"not {_valid}"},
        returns="real[r,self.ghost_q]",
        ensures={
            "shape": "result.shape == (r, self.ghost_q)",
            "value": f"forall(range(r), range(self.ghost_q), lambda i, j: result[i, j] == SC{_k}(self.ghost_tok, {_cut}, j))",
            "agg": f"forall(range(r), lambda i: rowsum(result, i) == AGG{_k}(self.ghost_tok, {_cut}))",
        },
        note="evaluate is a function of (last fit, cuts): row i depends on cuts[i] only; raises ValueError exactly for invalid cuts",
    )

    if _k == 2:
        # a single 1-D cut [s, e] is evaluated as the one-row array [[s, e]] (BaseIntervalScorer.evaluate: as_2d_array(cuts, vertical=False))
        contract(
            target=EVAL, variant=f"iface1d/{_cls}", assumed=True, level="A",
            params={"self": f"obj:~{_cls}", "self._is_fitted": "bool=True", "self.min_size": "int", "self.ghost_tok": "int",
                    "self.ghost_n": "int", "self.ghost_q": "int", "cuts": "int[c]"},
            raises={"ValueError": "not (c == 2 and 0 <= cuts[0] and cuts[1] <= self.ghost_n and cuts[1] - cuts[0] >= self.min_size)"},
            returns="real[1,self.ghost_q]",
            ensures={
                "value": "forall(range(self.ghost_q), lambda j: result[0, j] == SC2(self.ghost_tok, cuts[0], cuts[1], j))",
                "agg": "rowsum(result, 0) == AGG2(self.ghost_tok, cuts[0], cuts[1])",
            },
            note="1-D cuts are one row (as_2d_array(vertical=False)); otherwise the same interface assumption as the 2-D variant",
        )


# per-variable savings (one output column per data column, e.g. L2Saving): what MVCAPA's subset inference needs
contract(
    target=FIT, variant="iface-pervar/BaseSaving", assumed=True, level="A",
    params={"self": "obj:~BaseSaving", "self.ghost_per_variable": "bool=True", "X": "real[n,p]", "y": "none"},
    modifies={"self._X": "=X", "self._is_fitted": "=True", "self.ghost_tok": "int", "self.ghost_n": "=n", "self.ghost_p": "=p",
              "self.ghost_q": "=p"},
    returns="=self",
    note="fit(X) of a saving that returns one column per variable (ghost trait ghost_per_variable): evaluate has p columns",
)


# data-keyed costs: the fit token is a function of (configuration kind, data identity) -- used where the SAME configuration is fitted on
# different data and the results are related (LocalAnomalyScore's pooled surroundings)
contract(
    target=FIT, variant="iface-data/BaseCost", assumed=True, level="A",
    params={"self": "obj:~BaseCost", "self.ghost_datakeyed": "bool=True", "self.ghost_kind": "int", "X": "real[n,p]", "y": "none"},
    modifies={"self._X": "=X", "self._is_fitted": "=True", "self.ghost_tok": "=FITTOK(self.ghost_kind, DATAID(X))", "self.ghost_n": "=n", "self.ghost_p": "=p",
              "self.ghost_q": "int"},
    returns="=self",
    ensures={"q": "self.ghost_q >= 1 and self.ghost_q == QOF(self.ghost_kind, p)"},
    note="fit(X) of a cost whose evaluate is a function of (its configuration, the fitted data, the cuts): the token is FITTOK(kind, data)",
)
for _cls in ("BaseCost",):
    contract(
        target=EVAL, variant=f"iface1l/{_cls}", assumed=True, level="A",
        params={"self": f"obj:~{_cls}", "self._is_fitted": "bool=True", "self.min_size": "int", "self.ghost_tok": "int",
                "self.ghost_n": "int", "self.ghost_q": "int", "cuts": "list[int]"},
        raises={"ValueError": "not (len(cuts) == 2 and 0 <= cuts[0] and cuts[1] <= self.ghost_n and cuts[1] - cuts[0] >= self.min_size)"},
        returns="real[1,self.ghost_q]",
        ensures={"value": "forall(range(self.ghost_q), lambda j: result[0, j] == SC2(self.ghost_tok, cuts[0], cuts[1], j))"},
        note="a cut given as the python list [s, e] is the one-row array [[s, e]] (as_2d_array); otherwise the 2-D interface assumption",
    )

# get_param_size of a user saving / cost: k parameters per variable (assumed interface: linear in p)
for _cls in ("BaseSaving", "BaseCost"):
    contract(
        target=f"skchange/anomaly_scores/base.py::BaseSaving.get_param_size" if _cls == "BaseSaving" else "skchange/costs/base.py::BaseCost.get_param_size",
        variant=f"iface/{_cls}", assumed=True, level="A",
        params={"self": f"obj:~{_cls}", "self.ghost_params_per_variable": "int", "p": "int"},
        returns="int",
        ensures={"linear": "result == self.ghost_params_per_variable * p"},
        note="get_param_size(p) == (parameters per variable) * p for the built-in and assumed for user-defined savings / costs",
    )
