"""Contracts of the seeded / circular binary segmentation kernels (C07, C09, C04)."""
from pyvc.contracts import contract

SB = "skchange/change_detectors/seeded_binseg.py"
CB = "skchange/anomaly_detectors/circular_binseg.py"

# ------------------------------------------------------------------------------------------------ greedy changepoint selection
contract(
    target=f"{SB}::greedy_changepoint_selection",
    params={"scores": "real[K]", "maximizers": "int[K]", "starts": "int[K]", "ends": "int[K]", "threshold": "real"},
    ghost_params={"m": "int", "n": "int"},
    requires=["threshold >= 0", "m >= 1",
              "forall(range(K), lambda i: 0 <= starts[i] and starts[i] + m <= maximizers[i] and maximizers[i] <= ends[i] - m and ends[i] <= n)"],
    returns="list[int]",
    ensures={
        # C04: strictly increasing, in [m, n-m], consecutive changepoints at least m apart
        "wellformed": "forall(range(len(result)), lambda q: m <= result[q] and result[q] <= n - m) and "
                      "forall(range(len(result) - 1), lambda q: result[q] + m <= result[q + 1])",
        # C07: every changepoint is the maximiser of an interval scoring above the threshold
        "supported": "forall(range(len(result)), lambda q: exists(range(K), lambda i: result[q] == maximizers[i] and scores[i] > threshold))",
        # C07: no above-threshold interval is left without a changepoint inside it
        "exhaustive": "forall(range(K), lambda i: implies(scores[i] > threshold, exists(range(len(result)), lambda q: starts[i] <= result[q] and result[q] <= ends[i] - 1)))",
        # C07: exactly the greedy sequence. With t = the pick time of result[r] (its position before the final sort): result[r] is the maximiser of an
        # interval a that scores above the threshold and at least as high as every interval not containing an EARLIER pick (strictly higher than
        # such intervals of smaller index: np.argmax takes the first maximum)
        "greedy": "forall(range(len(result)), lambda r: 0 <= WIT('src', result, r) and WIT('src', result, r) < K and result[r] == maximizers[WIT('src', result, r)] and scores[WIT('src', result, r)] > threshold and forall(range(len(result)), lambda r2: implies(sort_perm(result, r2) < sort_perm(result, r), not (starts[WIT('src', result, r)] <= result[r2] and result[r2] <= ends[WIT('src', result, r)] - 1))) and forall(range(K), lambda b: implies(forall(range(len(result)), lambda r2: implies(sort_perm(result, r2) < sort_perm(result, r), not (starts[b] <= result[r2] and result[r2] <= ends[b] - 1))), scores[b] <= scores[WIT('src', result, r)] and implies(b < WIT('src', result, r), scores[b] < scores[WIT('src', result, r)]))))",
    },
    invariants={"loop#1": {
        "len": "len(scores) == K",
        # the q-th pick is the (first) highest-scoring interval among those still alive at time q (alive: not zeroed yet, or zeroed by pick g_hit >= q);
        # intervals with original score 0 never compete (the picked score exceeds threshold >= 0)
        "I6_greedy": "forall(range(len(cpts)), range(K), lambda q, b: implies(old(scores)[b] != 0 and (scores[b] == old(scores)[b] or g_hit[b] >= q), "
                     "old(scores)[b] <= old(scores)[g_src[q]] and implies(b < g_src[q], old(scores)[b] < old(scores)[g_src[q]])))",
        # the picked interval itself is alive when picked: it contains no earlier pick
        "I7_src_alive": "forall(range(len(cpts)), range(len(cpts)), lambda q, r: implies(r < q, not (starts[g_src[q]] <= cpts[r] and cpts[r] <= ends[g_src[q]] - 1)))",
        "I1_zeroed_or_kept": "forall(range(K), lambda i: scores[i] == old(scores)[i] or (scores[i] == 0 and 0 <= g_hit[i] and g_hit[i] < len(cpts) and "
                             "starts[i] <= cpts[g_hit[i]] and cpts[g_hit[i]] <= ends[i] - 1))",
        "I3_containing_are_zero": "forall(range(K), range(len(cpts)), lambda i, q: implies(starts[i] <= cpts[q] and cpts[q] <= ends[i] - 1, scores[i] == 0))",
        "I4_supported": "forall(range(len(cpts)), lambda q: 0 <= g_src[q] and g_src[q] < K and cpts[q] == maximizers[g_src[q]] and old(scores)[g_src[q]] > threshold)",
        "I5_spacing": "forall(range(len(cpts)), range(len(cpts)), lambda q, r: implies(q != r, cpts[q] + m <= cpts[r] or cpts[r] + m <= cpts[q]))",
    }},
    loop_vars={"loop#1": {"cpts": "list[int]", "g_hit": "int[K]", "g_src": "int[K]"}},
    ghost=[
        ("before:while *", "g_hit = lam('int', K, lambda i: 0)\ng_src = lam('int', K, lambda q: 0)"),
        ("after:scores[*",
         "g_hit = lam('int', K, lambda i: ite(starts[i] <= cpt and cpt <= ends[i] - 1 and g_sc0[i] != 0, len(cpts) - 1, g_hit[i]))\n"
         "g_src = lam('int', K, lambda q: ite(q == len(cpts) - 1, argmax, g_src[q]))"),
        ("before:scores[*", "g_sc0 = scores"),
        ("after:cpts.sort()",
         "assert forall(range(K), lambda i: implies(scores[i] != old(scores)[i], 0 <= sort_inv(cpts, g_hit[i]) and sort_inv(cpts, g_hit[i]) < len(cpts)"
         " and starts[i] <= cpts[sort_inv(cpts, g_hit[i])] and cpts[sort_inv(cpts, g_hit[i])] <= ends[i] - 1 and sort_perm(cpts, sort_inv(cpts, g_hit[i])) == g_hit[i]))\n"
         "assert forall(range(len(cpts)), lambda r: 0 <= sort_perm(cpts, r) and sort_perm(cpts, r) < len(cpts) and cpts[r] == maximizers[g_src[sort_perm(cpts, r)]] and "
         "old(scores)[g_src[sort_perm(cpts, r)]] > threshold)\n"
         "assume(WIT_DEF('src', cpts, lam('int', len(cpts), lambda r: g_src[sort_perm(cpts, r)])))\n"
         "assert forall(range(len(cpts)), lambda r2: cpts[r2] == g_un[sort_perm(cpts, r2)] and "
         "0 <= sort_perm(cpts, r2) and sort_perm(cpts, r2) < len(cpts))"),
        ("before:cpts.sort()", "g_un = cpts"),
    ],
    props=["C07", "C04"],
)

# ------------------------------------------------------------------------------------------------ seeded intervals
SEEDED_POST = {
    "lengths_agree": "len(result[0]) == len(result[1])",
    "nonempty": "len(result[0]) >= 1",
    "range": "forall(range(len(result[0])), lambda q: 0 <= result[0][q] and result[0][q] < result[1][q] and result[1][q] <= n)",
    "length": "forall(range(len(result[0])), lambda q: min_length <= result[1][q] - result[0][q] and "
              "result[1][q] - result[0][q] <= min(max_length, n))",
}
contract(
    target=f"{SB}::make_seeded_intervals",
    params={"n": "int", "min_length": "int", "max_length": "int", "growth_factor": "real"},
    requires=["min_length >= 2", "n >= min_length", "max_length >= min_length", "growth_factor > 1", "growth_factor <= 2"],
    uses=["AX_LOG_pos(growth_factor)"],
    returns="(int[L],int[L])",
    ensures=SEEDED_POST,
    invariants={"loop#1": {
        "lens": "len(starts) == len(ends) and len(starts) >= 1 + _k",
        "entries": "forall(range(1, len(starts)), lambda q: 0 <= starts[q] and starts[q] < ends[q] and ends[q] <= n and "
                   "min_length <= ends[q] - starts[q] and ends[q] - starts[q] <= max_length)",
        "consts": "max_length <= n and max_length >= min_length and 2 * step_factor <= 1 and step_factor > 0 and "
                  "forall(range(len(interval_lens)), lambda q: min_length <= interval_lens[q] and interval_lens[q] <= max_length)",
    }},
    loop_vars={"loop#1": {"starts": "list[int]", "ends": "list[int]"}},
    level="P",
    props=["C07", "C09", "C04", "C14"],
)

# ------------------------------------------------------------------------------------------------ run_seeded_binseg
CS_FIELDS = {"change_score": "obj:~BaseChangeScore", "change_score.min_size": "int"}
CS_FIT_MODS = {"change_score._X": "=X", "change_score._is_fitted": "=True", "change_score.ghost_tok": "int", "change_score.ghost_n": "=n",
               "change_score.ghost_p": "=p", "change_score.ghost_q": "int"}
M = "min_segment_length"
TOK = "change_score.ghost_tok"


def _interval_facts(sc, mx, st, en, i):
    return (f"{st}[{i}] + {M} <= {mx}[{i}] and {mx}[{i}] <= {en}[{i}] - {M} and {sc}[{i}] == AGG3({TOK}, {st}[{i}], {mx}[{i}], {en}[{i}]) and "
            f"forall(range({st}[{i}] + {M}, {en}[{i}] - {M} + 1), lambda k: AGG3({TOK}, {st}[{i}], k, {en}[{i}]) <= {sc}[{i}]) and "
            f"forall(range({st}[{i}] + {M}, {mx}[{i}]), lambda k: AGG3({TOK}, {st}[{i}], k, {en}[{i}]) < {sc}[{i}])")


contract(
    target=f"{SB}::run_seeded_binseg",
    params={"X": "real[n,p]", **CS_FIELDS, "threshold": "real", "min_segment_length": "int", "max_interval_length": "int", "growth_factor": "real"},
    requires=[f"{M} >= 1", "change_score.min_size >= 1", f"change_score.min_size <= {M}", f"n >= 2 * {M}", f"max_interval_length >= 2 * {M}",
              "growth_factor > 1", "growth_factor <= 2", "threshold >= 0"],
    modifies=CS_FIT_MODS,
    returns="(list[int],real[L],int[L],int[L],int[L])",
    ensures={
        "intervals": "len(result[1]) == len(result[3]) and len(result[2]) == len(result[3]) and len(result[4]) == len(result[3]) and len(result[3]) >= 1 and "
                     f"forall(range(len(result[3])), lambda q: 0 <= result[3][q] and result[4][q] <= n and 2 * {M} <= result[4][q] - result[3][q] and "
                     "result[4][q] - result[3][q] <= min(max_interval_length, n))",
        # score and maximiser are max / first argmax over admissible splits of the column-summed change score
        "max_argmax": f"forall(range(len(result[3])), lambda i: {_interval_facts('result[1]', 'result[2]', 'result[3]', 'result[4]', 'i')})",
        "cpts_wellformed": f"forall(range(len(result[0])), lambda q: {M} <= result[0][q] and result[0][q] <= n - {M}) and "
                           f"forall(range(len(result[0]) - 1), lambda q: result[0][q] + {M} <= result[0][q + 1])",
        "cpts_supported": "forall(range(len(result[0])), lambda q: exists(range(len(result[3])), lambda i: result[0][q] == result[2][i] and result[1][i] > threshold))",
        "cpts_exhaustive": "forall(range(len(result[3])), lambda i: implies(result[1][i] > threshold, exists(range(len(result[0])), "
                           "lambda q: result[3][i] <= result[0][q] and result[0][q] <= result[4][i] - 1)))",
        # exactly the greedy sequence over the returned scores table (pick order = order before the final sort; WIT: the picked interval)
        "cpts_greedy": "forall(range(len(result[0])), lambda r: 0 <= WIT('src', result[0], r) and WIT('src', result[0], r) < len(result[3]) and result[0][r] == result[2][WIT('src', result[0], r)] and "
                       "result[1][WIT('src', result[0], r)] > threshold and forall(range(len(result[0])), lambda r2: implies(sort_perm(result[0], r2) < sort_perm(result[0], r), not (result[3][WIT('src', result[0], r)] <= result[0][r2] and result[0][r2] <= result[4][WIT('src', result[0], r)] - 1))) and forall(range(len(result[3])), lambda b: implies(forall(range(len(result[0])), lambda r2: implies(sort_perm(result[0], r2) < sort_perm(result[0], r), not (result[3][b] <= result[0][r2] and result[0][r2] <= result[4][b] - 1))), "
                       "result[1][b] <= result[1][WIT('src', result[0], r)] and implies(b < WIT('src', result[0], r), result[1][b] < result[1][WIT('src', result[0], r)]))))",
    },
    invariants={"loop#1": {
        "shapes": "len(amoc_scores) == len(starts) and len(maximizers) == len(starts) and change_score._is_fitted == True and change_score.ghost_n == n",
        "done": f"forall(range(_k), lambda i: {_interval_facts('amoc_scores', 'maximizers', 'starts', 'ends', 'i')})",
    }},
    ghost=[("after:agg_scores = *",
            f"assert forall(range(start + {M}, end - {M} + 1), lambda k: agg_scores[k - (start + {M})] == AGG3({TOK}, start, k, end))")],
    call_ghosts={"cpts = greedy_changepoint_selection(*":
                 {"greedy_changepoint_selection": {"m": M, "n": "n"}}},
    props=["C07", "C04", "C10"],
)

# ------------------------------------------------------------------------------------------------ circular binary segmentation
contract(
    target=f"{CB}::greedy_anomaly_selection",
    params={"scores": "real[K]", "anomaly_starts": "int[K]", "anomaly_ends": "int[K]", "starts": "int[K]", "ends": "int[K]", "threshold": "real"},
    ghost_params={"m": "int", "n": "int"},
    requires=["threshold >= 0", "m >= 1",
              "forall(range(K), lambda i: implies(scores[i] > threshold, 0 <= starts[i] and starts[i] < anomaly_starts[i] and "
              "anomaly_starts[i] + m <= anomaly_ends[i] and anomaly_ends[i] < ends[i] and ends[i] <= n))"],
    returns="list[(int,int)]",
    ensures={
        # C04: sorted, pairwise disjoint, strictly inside the data, length >= m
        "wellformed": "forall(range(len(result)), lambda q: 1 <= result[q][0] and result[q][0] + m <= result[q][1] and result[q][1] <= n - 1) and "
                      "forall(range(len(result) - 1), lambda q: result[q][1] <= result[q + 1][0])",
        "supported": "forall(range(len(result)), lambda q: exists(range(K), lambda i: result[q][0] == anomaly_starts[i] and "
                     "result[q][1] == anomaly_ends[i] and scores[i] > threshold))",
        "exhaustive": "forall(range(K), lambda i: implies(scores[i] > threshold, exists(range(len(result)), lambda q: result[q][1] > starts[i] and result[q][0] < ends[i])))",
        # C09: exactly the greedy sequence (pick time = position before the final sort): each reported anomaly is the inner interval of a candidate that
        # scores above the threshold and at least as high as every candidate not overlapping an EARLIER pick (first maximum on ties)
        "greedy": "forall(range(len(result)), lambda r: 0 <= WIT('src', result, r) and WIT('src', result, r) < K and result[r][0] == anomaly_starts[WIT('src', result, r)] and result[r][1] == anomaly_ends[WIT('src', result, r)] and scores[WIT('src', result, r)] > threshold and forall(range(len(result)), lambda r2: implies(sort_perm(result, r2) < sort_perm(result, r), not (result[r2][1] > starts[WIT('src', result, r)] and result[r2][0] < ends[WIT('src', result, r)]))) and forall(range(K), lambda b: implies(forall(range(len(result)), lambda r2: implies(sort_perm(result, r2) < sort_perm(result, r), not (result[r2][1] > starts[b] and result[r2][0] < ends[b]))), scores[b] <= scores[WIT('src', result, r)] and implies(b < WIT('src', result, r), scores[b] < scores[WIT('src', result, r)]))))",
    },
    invariants={"loop#1": {
        "len": "len(scores) == K",
        "I6_greedy": "forall(range(len(anomalies)), range(K), lambda q, b: implies(old(scores)[b] != 0 and (scores[b] == old(scores)[b] or g_hit[b] >= q), "
                     "old(scores)[b] <= old(scores)[g_src[q]] and implies(b < g_src[q], old(scores)[b] < old(scores)[g_src[q]])))",
        "I7_src_alive": "forall(range(len(anomalies)), range(len(anomalies)), lambda q, r: implies(r < q, not (anomalies[r][1] > starts[g_src[q]] and anomalies[r][0] < ends[g_src[q]])))",
        "I1_zeroed_or_kept": "forall(range(K), lambda i: scores[i] == old(scores)[i] or (scores[i] == 0 and 0 <= g_hit[i] and g_hit[i] < len(anomalies) and "
                             "anomalies[g_hit[i]][1] > starts[i] and anomalies[g_hit[i]][0] < ends[i]))",
        "I3_overlapping_are_zero": "forall(range(K), range(len(anomalies)), lambda i, q: implies(anomalies[q][1] > starts[i] and anomalies[q][0] < ends[i], scores[i] == 0))",
        "I4_supported": "forall(range(len(anomalies)), lambda q: 0 <= g_src[q] and g_src[q] < K and anomalies[q][0] == anomaly_starts[g_src[q]] and "
                        "anomalies[q][1] == anomaly_ends[g_src[q]] and old(scores)[g_src[q]] > threshold)",
        "I5_disjoint": "forall(range(len(anomalies)), range(len(anomalies)), lambda q, r: implies(q != r, anomalies[q][1] <= anomalies[r][0] or anomalies[r][1] <= anomalies[q][0]))",
    }},
    loop_vars={"loop#1": {"anomalies": "list[(int,int)]", "g_hit": "int[K]", "g_src": "int[K]"}},
    ghost=[
        ("before:while *", "g_hit = lam('int', K, lambda i: 0)\ng_src = lam('int', K, lambda q: 0)"),
        ("before:scores[*", "g_sc0 = scores"),
        ("after:scores[*",
         "g_hit = lam('int', K, lambda i: ite(anomaly_end > starts[i] and anomaly_start < ends[i] and g_sc0[i] != 0, len(anomalies) - 1, g_hit[i]))\n"
         "g_src = lam('int', K, lambda q: ite(q == len(anomalies) - 1, argmax, g_src[q]))"),
        ("after:anomalies.sort()",
         "assert forall(range(K), lambda i: implies(scores[i] != old(scores)[i], 0 <= sort_inv(anomalies, g_hit[i]) and sort_inv(anomalies, g_hit[i]) < len(anomalies)"
         " and anomalies[sort_inv(anomalies, g_hit[i])][1] > starts[i] and anomalies[sort_inv(anomalies, g_hit[i])][0] < ends[i] and "
         "sort_perm(anomalies, sort_inv(anomalies, g_hit[i])) == g_hit[i]))\n"
         "assert forall(range(len(anomalies)), lambda r: 0 <= sort_perm(anomalies, r) and sort_perm(anomalies, r) < len(anomalies) and "
         "anomalies[r][0] == anomaly_starts[g_src[sort_perm(anomalies, r)]] and anomalies[r][1] == anomaly_ends[g_src[sort_perm(anomalies, r)]] and "
         "old(scores)[g_src[sort_perm(anomalies, r)]] > threshold)\n"
         "assume(WIT_DEF('src', anomalies, lam('int', len(anomalies), lambda r: g_src[sort_perm(anomalies, r)])))\n"
         "assert forall(range(len(anomalies)), lambda r2: anomalies[r2][0] == g_un[sort_perm(anomalies, r2)][0] and anomalies[r2][1] == g_un[sort_perm(anomalies, r2)][1] and "
         "0 <= sort_perm(anomalies, r2) and sort_perm(anomalies, r2) < len(anomalies))"),
        ("before:anomalies.sort()", "g_un = anomalies"),
    ],
    props=["C09", "C04"],
)

ADM = lambda a, b, s, e, m: f"({s} < {a} and {b} < {e} and {b} - {a} >= {m} and ({e} - {b}) + ({a} - {s}) >= {m})"
_S, _E, _MM = "interval_start", "interval_end", "min_segment_length"
_SOUND = f"forall(range(len(starts)), lambda q: {ADM('starts[q]', 'ends[q]', _S, _E, _MM)})"
contract(
    target=f"{CB}::make_anomaly_intervals",
    params={"interval_start": "int", "interval_end": "int", "min_segment_length": "int"},
    requires=["min_segment_length >= 1", "interval_start >= 0", "interval_start <= interval_end"],
    returns="(int[L],int[L])",
    ensures={
        "lengths_agree": "len(result[0]) == len(result[1])",
        # exactly the admissible inner intervals: both inclusions
        "sound": f"forall(range(len(result[0])), lambda q: {ADM('result[0][q]', 'result[1][q]', _S, _E, _MM)})",
        "complete": f"forall(range({_S}, {_E} + 1), range({_S}, {_E} + 1), lambda a, b: implies({ADM('a', 'b', _S, _E, _MM)}, "
                    "exists(range(len(result[0])), lambda q: result[0][q] == a and result[1][q] == b)))",
    },
    invariants={
        "loop#1": {
            "lens": "len(starts) == len(ends)",
            "sound": _SOUND,
            "complete": f"forall(range({_S}, i), range({_S}, {_E} + 1), lambda a, b: implies({ADM('a', 'b', _S, _E, _MM)}, "
                        "0 <= g_idx[a, b] and g_idx[a, b] < len(starts) and starts[g_idx[a, b]] == a and ends[g_idx[a, b]] == b))",
        },
        "loop#2": {
            "lens": "len(starts) == len(ends)",
            "sound": _SOUND,
            "complete": f"forall(range({_S}, i + 1), range({_S}, {_E} + 1), lambda a, b: implies({ADM('a', 'b', _S, _E, _MM)} and (a < i or b < j), "
                        "0 <= g_idx[a, b] and g_idx[a, b] < len(starts) and starts[g_idx[a, b]] == a and ends[g_idx[a, b]] == b))",
        },
    },
    loop_vars={"loop#1": {"starts": "list[int]", "ends": "list[int]", "g_idx": "int[interval_end+1,interval_end+1]"},
               "loop#2": {"starts": "list[int]", "ends": "list[int]", "g_idx": "int[interval_end+1,interval_end+1]"}},
    ghost=[
        ("before:for i in *", "g_idx = lam('int', interval_end + 1, interval_end + 1, lambda a, b: 0)"),
        ("after:ends.append(*", "g_idx = lam('int', interval_end + 1, interval_end + 1, lambda a, b: ite(a == i and b == j, len(starts) - 1, g_idx[a, b]))"),
    ],
    props=["C09", "C04", "C14"],
)

LS_FIELDS = {"score": "obj:~BaseLocalAnomalyScore", "score.min_size": "int"}
LS_FIT_MODS = {"score._X": "=X", "score._is_fitted": "=True", "score.ghost_tok": "int", "score.ghost_n": "=n", "score.ghost_p": "=p", "score.ghost_q": "int"}
LTOK = "score.ghost_tok"


def _cb_facts(sc, a_s, a_e, st, en, i):
    adm_ab = ADM("a", "b", f"{st}[{i}]", f"{en}[{i}]", M)
    adm_mx = ADM(f"{a_s}", f"{a_e}", f"{st}[{i}]", f"{en}[{i}]", M)
    return (f"forall(range({st}[{i}], {en}[{i}] + 1), range({st}[{i}], {en}[{i}] + 1), lambda a, b: implies({adm_ab}, AGG4({LTOK}, {st}[{i}], a, b, {en}[{i}]) <= {sc}[{i}]))",
            adm_mx, f"{sc}[{i}] == AGG4({LTOK}, {st}[{i}], {a_s}, {a_e}, {en}[{i}])")


_mx, _ad, _at = _cb_facts("anomaly_scores", "anomaly_starts[i]", "anomaly_ends[i]", "starts", "ends", "i")
contract(
    target=f"{CB}::run_circular_binseg",
    params={"X": "real[n,p]", **LS_FIELDS, "threshold": "real", "min_segment_length": "int", "max_interval_length": "int", "growth_factor": "real"},
    requires=[f"{M} >= 1", "score.min_size >= 1", f"score.min_size <= {M}", f"n >= 2 * {M}", f"max_interval_length >= 2 * {M}",
              "growth_factor > 1", "growth_factor <= 2", "threshold >= 0"],
    modifies=LS_FIT_MODS,
    returns="(list[(int,int)],real[L],real[L,2],int[L],int[L])",
    ensures={
        "intervals": "len(result[1]) == len(result[3]) and len(result[4]) == len(result[3]) and len(result[3]) >= 1 and "
                     f"forall(range(len(result[3])), lambda q: 0 <= result[3][q] and result[4][q] <= n and 2 * {M} <= result[4][q] - result[3][q])",
        # per-candidate score is the maximum of the column-summed local anomaly score over admissible inner intervals (0 if there is none)
        "max": "forall(range(len(result[3])), lambda i: forall(range(result[3][i], result[4][i] + 1), range(result[3][i], result[4][i] + 1), lambda a, b: "
               f"implies({ADM('a', 'b', 'result[3][i]', 'result[4][i]', M)}, AGG4({LTOK}, result[3][i], a, b, result[4][i]) <= result[1][i])))",
        # ... attained at the inner interval reported in the scores table (the table columns are the argmax)
        "table_is_argmax": "forall(range(len(result[3])), lambda i: implies(result[1][i] > 0, exists(range(0, n + 1), range(0, n + 1), lambda a, b: "
                           f"{ADM('a', 'b', 'result[3][i]', 'result[4][i]', M)} and result[2][i, 0] == a and result[2][i, 1] == b and "
                           f"result[1][i] == AGG4({LTOK}, result[3][i], a, b, result[4][i]))))",
        "anomalies_wellformed": f"forall(range(len(result[0])), lambda q: 1 <= result[0][q][0] and result[0][q][0] + {M} <= result[0][q][1] and result[0][q][1] <= n - 1) and "
                                "forall(range(len(result[0]) - 1), lambda q: result[0][q][1] <= result[0][q + 1][0])",
        # exactly the greedy sequence over the returned scores table: each anomaly is the listed inner interval of the candidate WIT, which scores above the
        # threshold and at least as high as every candidate not overlapping an earlier pick
        "anomalies_greedy": "forall(range(len(result[0])), lambda r: 0 <= WIT('src', result[0], r) and WIT('src', result[0], r) < len(result[3]) and result[0][r][0] == result[2][WIT('src', result[0], r), 0] and "
                            "result[0][r][1] == result[2][WIT('src', result[0], r), 1] and result[1][WIT('src', result[0], r)] > threshold and forall(range(len(result[0])), lambda r2: implies(sort_perm(result[0], r2) < sort_perm(result[0], r), not (result[0][r2][1] > result[3][WIT('src', result[0], r)] and result[0][r2][0] < result[4][WIT('src', result[0], r)]))) and forall(range(len(result[3])), lambda b: implies(forall(range(len(result[0])), lambda r2: implies(sort_perm(result[0], r2) < sort_perm(result[0], r), not (result[0][r2][1] > result[3][b] and result[0][r2][0] < result[4][b]))), "
                            "result[1][b] <= result[1][WIT('src', result[0], r)] and implies(b < WIT('src', result[0], r), result[1][b] < result[1][WIT('src', result[0], r)]))))",
    },
    invariants={"loop#1": {
        "shapes": "len(anomaly_scores) == len(starts) and len(anomaly_starts) == len(starts) and len(anomaly_ends) == len(starts) and "
                  "maximizers.shape == (len(starts), 2) and score._is_fitted == True and score.ghost_n == n",
        "max": f"forall(range(_k), lambda i: {_mx})",
        "argmax": f"forall(range(_k), lambda i: (anomaly_scores[i] == 0 and not g_has[i]) or (g_has[i] and {_ad} and {_at} and "
                  "maximizers[i, 0] == anomaly_starts[i] and maximizers[i, 1] == anomaly_ends[i]))",
        "rest": "forall(range(_k, len(starts)), lambda i: anomaly_scores[i] == 0 and not g_has[i])",
    }},
    loop_vars={"loop#1": {"g_has": "bool[L]"}},
    ghost=[
        ("before:for i, (start, end) in *", "g_has = lam('bool', len(starts), lambda q: False)"),
        ("after:maximizers[i, 1] = *", "g_has = lam('bool', len(starts), lambda q: q == i or g_has[q])"),
        ("after:agg_scores = *",
         "assert forall(range(len(anomaly_start_candidates)), lambda q: agg_scores[q] == AGG4(score.ghost_tok, start, anomaly_start_candidates[q], anomaly_end_candidates[q], end))"),
        ("after:anomalies = greedy_anomaly_selection(*",
         "assert forall(range(len(starts)), lambda i: implies(anomaly_scores[i] > threshold, maximizers[i, 0] == anomaly_starts[i] and maximizers[i, 1] == anomaly_ends[i]))\n"
         "assert forall(range(len(anomalies)), lambda r: anomalies[r][0] == maximizers[WIT('src', anomalies, r), 0] and anomalies[r][1] == maximizers[WIT('src', anomalies, r), 1])"),
    ],
    call_ghosts={"anomalies = greedy_anomaly_selection(*":
                 {"greedy_anomaly_selection": {"m": M, "n": "n"}}},
    props=["C09", "C04", "C10"],
)
