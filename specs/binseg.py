"""Contracts of the seeded / circular binary segmentation kernels (C07, C09, C04)."""
from pyvc.contracts import contract

SB = "skchange/change_detectors/seeded_binseg.py"
CB = "skchange/anomaly_detectors/circular_binseg.py"

# ------------------------------------------------------------------------------------------------ greedy changepoint selection
contract(
    target=f"{SB}::greedy_changepoint_selection",
    params={"scores": "real[K]", "maximizers": "int[K]", "starts": "int[K]", "ends": "int[K]", "threshold": "real"},
    ghost_params={"m": "int", "n": "int"},
    requires=["threshold >= 0", "m >= 1",
              "forall(range(K), lambda i: 0 <= starts[i] and starts[i] + m <= maximizers[i] and maximizers[i] <= ends[i] - m and ends[i] <= n)"],
    returns="list[int]",
    ensures={
        # C04: strictly increasing, in [m, n-m], consecutive changepoints at least m apart
        "wellformed": "forall(range(len(result)), lambda q: m <= result[q] and result[q] <= n - m) and "
                      "forall(range(len(result) - 1), lambda q: result[q] + m <= result[q + 1])",
        # C07: every changepoint is the maximiser of an interval scoring above the threshold
        "supported": "forall(range(len(result)), lambda q: exists(range(K), lambda i: result[q] == maximizers[i] and scores[i] > threshold))",
        # C07: no above-threshold interval is left without a changepoint inside it
        "exhaustive": "forall(range(K), lambda i: implies(scores[i] > threshold, exists(range(len(result)), lambda q: starts[i] <= result[q] and result[q] <= ends[i] - 1)))",
    },
    invariants={"loop#1": {
        "len": "len(scores) == K",
        "I1_zeroed_or_kept": "forall(range(K), lambda i: scores[i] == old(scores)[i] or (scores[i] == 0 and 0 <= g_hit[i] and g_hit[i] < len(cpts) and "
                             "starts[i] <= cpts[g_hit[i]] and cpts[g_hit[i]] <= ends[i] - 1))",
        "I3_containing_are_zero": "forall(range(K), range(len(cpts)), lambda i, q: implies(starts[i] <= cpts[q] and cpts[q] <= ends[i] - 1, scores[i] == 0))",
        "I4_supported": "forall(range(len(cpts)), lambda q: 0 <= g_src[q] and g_src[q] < K and cpts[q] == maximizers[g_src[q]] and old(scores)[g_src[q]] > threshold)",
        "I5_spacing": "forall(range(len(cpts)), range(len(cpts)), lambda q, r: implies(q != r, cpts[q] + m <= cpts[r] or cpts[r] + m <= cpts[q]))",
    }},
    loop_vars={"loop#1": {"cpts": "list[int]", "g_hit": "int[K]", "g_src": "int[K]"}},
    ghost=[
        ("before:while np.any(scores > threshold):", "g_hit = lam('int', K, lambda i: 0)\ng_src = lam('int', K, lambda q: 0)"),
        ("after:scores[(cpt >= starts) & (cpt <= ends - 1)] = 0.0",
         "g_hit = lam('int', K, lambda i: ite(starts[i] <= cpt and cpt <= ends[i] - 1 and g_sc0[i] != 0, len(cpts) - 1, g_hit[i]))\n"
         "g_src = lam('int', K, lambda q: ite(q == len(cpts) - 1, argmax, g_src[q]))"),
        ("before:scores[(cpt >= starts) & (cpt <= ends - 1)] = 0.0", "g_sc0 = scores"),
        ("after:cpts.sort()",
         "assert forall(range(K), lambda i: implies(scores[i] != old(scores)[i], 0 <= sort_inv(cpts, g_hit[i]) and sort_inv(cpts, g_hit[i]) < len(cpts)"
         " and starts[i] <= cpts[sort_inv(cpts, g_hit[i])] and cpts[sort_inv(cpts, g_hit[i])] <= ends[i] - 1))"),
    ],
    props=["C07", "C04"],
)
