"""Contracts of the seeded / circular binary segmentation kernels (C07, C09, C04)."""
from pyvc.contracts import contract

SB = "skchange/change_detectors/seeded_binseg.py"
CB = "skchange/anomaly_detectors/circular_binseg.py"

# ------------------------------------------------------------------------------------------------ greedy changepoint selection
contract(
    target=f"{SB}::greedy_changepoint_selection",
    params={"scores": "real[K]", "maximizers": "int[K]", "starts": "int[K]", "ends": "int[K]", "threshold": "real"},
    ghost_params={"m": "int", "n": "int"},
    requires=["threshold >= 0", "m >= 1",
              "forall(range(K), lambda i: 0 <= starts[i] and starts[i] + m <= maximizers[i] and maximizers[i] <= ends[i] - m and ends[i] <= n)"],
    returns="list[int]",
    ensures={
        # C04: strictly increasing, in [m, n-m], consecutive changepoints at least m apart
        "wellformed": "forall(range(len(result)), lambda q: m <= result[q] and result[q] <= n - m) and "
                      "forall(range(len(result) - 1), lambda q: result[q] + m <= result[q + 1])",
        # C07: every changepoint is the maximiser of an interval scoring above the threshold
        "supported": "forall(range(len(result)), lambda q: exists(range(K), lambda i: result[q] == maximizers[i] and scores[i] > threshold))",
        # C07: no above-threshold interval is left without a changepoint inside it
        "exhaustive": "forall(range(K), lambda i: implies(scores[i] > threshold, exists(range(len(result)), lambda q: starts[i] <= result[q] and result[q] <= ends[i] - 1)))",
    },
    invariants={"loop#1": {
        "len": "len(scores) == K",
        "I1_zeroed_or_kept": "forall(range(K), lambda i: scores[i] == old(scores)[i] or (scores[i] == 0 and 0 <= g_hit[i] and g_hit[i] < len(cpts) and "
                             "starts[i] <= cpts[g_hit[i]] and cpts[g_hit[i]] <= ends[i] - 1))",
        "I3_containing_are_zero": "forall(range(K), range(len(cpts)), lambda i, q: implies(starts[i] <= cpts[q] and cpts[q] <= ends[i] - 1, scores[i] == 0))",
        "I4_supported": "forall(range(len(cpts)), lambda q: 0 <= g_src[q] and g_src[q] < K and cpts[q] == maximizers[g_src[q]] and old(scores)[g_src[q]] > threshold)",
        "I5_spacing": "forall(range(len(cpts)), range(len(cpts)), lambda q, r: implies(q != r, cpts[q] + m <= cpts[r] or cpts[r] + m <= cpts[q]))",
    }},
    loop_vars={"loop#1": {"cpts": "list[int]", "g_hit": "int[K]", "g_src": "int[K]"}},
    ghost=[
        ("before:while *", "g_hit = lam('int', K, lambda i: 0)\ng_src = lam('int', K, lambda q: 0)"),
        ("after:scores[*",
         "g_hit = lam('int', K, lambda i: ite(starts[i] <= cpt and cpt <= ends[i] - 1 and g_sc0[i] != 0, len(cpts) - 1, g_hit[i]))\n"
         "g_src = lam('int', K, lambda q: ite(q == len(cpts) - 1, argmax, g_src[q]))"),
        ("before:scores[*", "g_sc0 = scores"),
        ("after:cpts.sort()",
         "assert forall(range(K), lambda i: implies(scores[i] != old(scores)[i], 0 <= sort_inv(cpts, g_hit[i]) and sort_inv(cpts, g_hit[i]) < len(cpts)"
         " and starts[i] <= cpts[sort_inv(cpts, g_hit[i])] and cpts[sort_inv(cpts, g_hit[i])] <= ends[i] - 1))"),
    ],
    props=["C07", "C04"],
)

# ------------------------------------------------------------------------------------------------ seeded intervals
SEEDED_POST = {
    "lengths_agree": "len(result[0]) == len(result[1])",
    "nonempty": "len(result[0]) >= 1",
    "range": "forall(range(len(result[0])), lambda q: 0 <= result[0][q] and result[0][q] < result[1][q] and result[1][q] <= n)",
    "length": "forall(range(len(result[0])), lambda q: min_length <= result[1][q] - result[0][q] and "
              "result[1][q] - result[0][q] <= min(max_length, n))",
}
contract(
    target=f"{SB}::make_seeded_intervals",
    params={"n": "int", "min_length": "int", "max_length": "int", "growth_factor": "real"},
    requires=["min_length >= 2", "n >= min_length", "max_length >= min_length", "growth_factor > 1", "growth_factor <= 2"],
    returns="(int[L],int[L])",
    ensures=SEEDED_POST,
    invariants={"loop#1": {
        "lens": "len(starts) == len(ends) and len(starts) >= 1 + _k",
        "entries": "forall(range(1, len(starts)), lambda q: 0 <= starts[q] and starts[q] < ends[q] and ends[q] <= n and "
                   "min_length <= ends[q] - starts[q] and ends[q] - starts[q] <= max_length)",
        "consts": "max_length <= n and max_length >= min_length and 2 * step_factor <= 1 and step_factor > 0 and "
                  "forall(range(len(interval_lens)), lambda q: min_length <= interval_lens[q] and interval_lens[q] <= max_length)",
    }},
    loop_vars={"loop#1": {"starts": "list[int]", "ends": "list[int]"}},
    level="P",
    props=["C07", "C09", "C04", "C14"],
)

# ------------------------------------------------------------------------------------------------ run_seeded_binseg
CS_FIELDS = {"change_score": "obj:~BaseChangeScore", "change_score.min_size": "int"}
CS_FIT_MODS = {"change_score._X": "=X", "change_score._is_fitted": "=True", "change_score.ghost_tok": "int", "change_score.ghost_n": "=n",
               "change_score.ghost_p": "=p", "change_score.ghost_q": "int"}
M = "min_segment_length"
TOK = "change_score.ghost_tok"


def _interval_facts(sc, mx, st, en, i):
    return (f"{st}[{i}] + {M} <= {mx}[{i}] and {mx}[{i}] <= {en}[{i}] - {M} and {sc}[{i}] == AGG3({TOK}, {st}[{i}], {mx}[{i}], {en}[{i}]) and "
            f"forall(range({st}[{i}] + {M}, {en}[{i}] - {M} + 1), lambda k: AGG3({TOK}, {st}[{i}], k, {en}[{i}]) <= {sc}[{i}]) and "
            f"forall(range({st}[{i}] + {M}, {mx}[{i}]), lambda k: AGG3({TOK}, {st}[{i}], k, {en}[{i}]) < {sc}[{i}])")


contract(
    target=f"{SB}::run_seeded_binseg",
    params={"X": "real[n,p]", **CS_FIELDS, "threshold": "real", "min_segment_length": "int", "max_interval_length": "int", "growth_factor": "real"},
    requires=[f"{M} >= 1", "change_score.min_size >= 1", f"change_score.min_size <= {M}", f"n >= 2 * {M}", f"max_interval_length >= 2 * {M}",
              "growth_factor > 1", "growth_factor <= 2", "threshold >= 0"],
    modifies=CS_FIT_MODS,
    returns="(list[int],real[L],int[L],int[L],int[L])",
    ensures={
        "intervals": "len(result[1]) == len(result[3]) and len(result[2]) == len(result[3]) and len(result[4]) == len(result[3]) and len(result[3]) >= 1 and "
                     f"forall(range(len(result[3])), lambda q: 0 <= result[3][q] and result[4][q] <= n and 2 * {M} <= result[4][q] - result[3][q] and "
                     "result[4][q] - result[3][q] <= min(max_interval_length, n))",
        # score and maximiser are max / first argmax over admissible splits of the column-summed change score
        "max_argmax": f"forall(range(len(result[3])), lambda i: {_interval_facts('result[1]', 'result[2]', 'result[3]', 'result[4]', 'i')})",
        "cpts_wellformed": f"forall(range(len(result[0])), lambda q: {M} <= result[0][q] and result[0][q] <= n - {M}) and "
                           f"forall(range(len(result[0]) - 1), lambda q: result[0][q] + {M} <= result[0][q + 1])",
        "cpts_supported": "forall(range(len(result[0])), lambda q: exists(range(len(result[3])), lambda i: result[0][q] == result[2][i] and result[1][i] > threshold))",
        "cpts_exhaustive": "forall(range(len(result[3])), lambda i: implies(result[1][i] > threshold, exists(range(len(result[0])), "
                           "lambda q: result[3][i] <= result[0][q] and result[0][q] <= result[4][i] - 1)))",
    },
    invariants={"loop#1": {
        "shapes": "len(amoc_scores) == len(starts) and len(maximizers) == len(starts) and change_score._is_fitted == True and change_score.ghost_n == n",
        "done": f"forall(range(_k), lambda i: {_interval_facts('amoc_scores', 'maximizers', 'starts', 'ends', 'i')})",
    }},
    ghost=[("after:agg_scores = *",
            f"assert forall(range(start + {M}, end - {M} + 1), lambda k: agg_scores[k - (start + {M})] == AGG3({TOK}, start, k, end))")],
    call_ghosts={"cpts = greedy_changepoint_selection(amoc_scores, maximizers, starts, ends, threshold)":
                 {"greedy_changepoint_selection": {"m": M, "n": "n"}}},
    props=["C07", "C04", "C10"],
)
