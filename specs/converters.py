"""Dense/sparse converters (C05): the NumPy labelling loops under contract, the pandas accessors around them assumed."""
from pyvc.contracts import contract

CB = "skchange/change_detectors/base.py"
_CP = "payload(y_sparse)"        # the changepoint positions held by the sparse frame's `ilocs` column
# segment number of position t: the number q with cps'[q] <= t < cps'[q+1], cps' = [0] + changepoints + [n]
contract(
    target=f"{CB}::ChangeDetector.sparse_to_dense",
    params={"y_sparse": "frame:list[int]", "index": "series:int[n]", "columns": "any"},
    requires=[f"forall(range(len({_CP})), lambda q: 1 <= {_CP}[q] and {_CP}[q] <= n - 1)",
              f"forall(range(len({_CP})), range(len({_CP})), lambda q, r: implies(q < r, {_CP}[q] < {_CP}[r]))"],      # strictly increasing
    returns="frame:real[n]",
    ensures={
        "length": "len(payload(result)) == n",
        # position t carries the number of changepoints <= t, i.e. the index of the segment that contains it
        "before_first": f"forall(range(n), lambda t: implies(len({_CP}) == 0 or t < {_CP}[0], payload(result)[t] == 0))",
        "segment_number": f"forall(range(len({_CP})), range(n), lambda q, t: implies({_CP}[q] <= t and (q == len({_CP}) - 1 or t < {_CP}[q + 1]), "
                          "payload(result)[t] == q + 1))",
    },
    invariants={"loop#1": {
        "shape": "len(segment_labels) == n and len(changepoints) == len(payload(y_sparse)) + 2 and changepoints[0] == 0 and "
                 "changepoints[len(changepoints) - 1] == n and forall(range(len(payload(y_sparse))), lambda q: changepoints[q + 1] == payload(y_sparse)[q])",
        "sorted": "forall(range(len(changepoints)), range(len(changepoints)), lambda a, b: implies(a < b, changepoints[a] <= changepoints[b]))",
        "done": "forall(range(_k), range(n), lambda q, t: implies(changepoints[q] <= t and t < changepoints[q + 1], segment_labels[t] == q))",
        "rest_zero": "forall(range(n), lambda t: implies(changepoints[_k] <= t, segment_labels[t] == 0))",
    }},
    note="assumed pandas accessors: y_sparse['ilocs'].to_list() is the list of positions, len(index) == n, pd.DataFrame(values, index=..) holds values",
    props=["C05"],
)

AB = "skchange/anomaly_detectors/base.py"
_R = "payload(y_sparse)"
_HIT = lambda a, t, c: (f"({_R}[{a}][0] <= {t} and {t} < {_R}[{a}][1] and exists(range(len({_R}[{a}][2])), lambda r: {_R}[{a}][2][r] == {c}))")
contract(
    target=f"{AB}::SubsetCollectiveAnomalyDetector.sparse_to_dense",
    params={"y_sparse": "frame:list[(int,int,int[])]", "index": "series:int[n]", "columns": "series:int[p]"},
    requires=[f"forall(range(len({_R})), lambda a: 0 <= {_R}[a][0] and {_R}[a][0] < {_R}[a][1] and {_R}[a][1] <= n and "
              f"forall(range(len({_R}[a][2])), lambda r: 0 <= {_R}[a][2][r] and {_R}[a][2][r] < p))",
              # rows of the sparse output are pairwise disjoint intervals (C04)
              f"forall(range(len({_R})), range(len({_R})), lambda a, b: implies(a < b, {_R}[a][1] <= {_R}[b][0]))"],
    returns="frame:int[n,p]",
    ensures={
        "shape": "payload(result).shape == (n, p)",
        # C05 / C16: transform marks exactly the affected columns on exactly the anomaly's rows with the anomaly's label, 0 elsewhere
        "marks_exactly": f"forall(range(len({_R})), range(n), range(p), lambda a, t, c: implies({_HIT('a', 't', 'c')}, payload(result)[t, c] == a + 1))",
        "zero_elsewhere": f"forall(range(n), range(p), lambda t, c: implies(not exists(range(len({_R})), lambda a: {_HIT('a', 't', 'c')}), payload(result)[t, c] == 0))",
    },
    invariants={"loop#1": {
        "shape": "labels.shape == (n, p)",
        "done": f"forall(range(_k), range(n), range(p), lambda a, t, c: implies({_HIT('a', 't', 'c')}, labels[t, c] == a + 1))",
        "rest_zero": f"forall(range(n), range(p), lambda t, c: implies(not exists(range(_k), lambda a: {_HIT('a', 't', 'c')}), labels[t, c] == 0))",
    }},
    note="assumed pandas accessors: ilocs.array.left/right/closed ('left'), icolumns, len(index), len(columns), pd.DataFrame(values, ..) holds values",
    props=["C05", "C16"],
)
