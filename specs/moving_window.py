"""Contracts of the moving-window kernels (C08, C04)."""
from pyvc.contracts import contract

CS_FIELDS = {"change_score": "obj:~BaseChangeScore", "change_score.min_size": "int"}
CS_FIT_MODS = {"change_score._X": "=X", "change_score._is_fitted": "=True", "change_score.ghost_tok": "int", "change_score.ghost_n": "=n",
               "change_score.ghost_p": "=p", "change_score.ghost_q": "int"}

contract(
    target="skchange/change_detectors/moving_window.py::moving_window_transform",
    params={"X": "real[n,p]", **CS_FIELDS, "bandwidth": "int"},
    requires=["bandwidth >= 1", "change_score.min_size >= 1", "bandwidth >= change_score.min_size", "n >= 2 * bandwidth"],
    modifies=CS_FIT_MODS,
    returns="real[n]",
    ensures={
        "length": "len(result) == n",
        # C08: the score at t compares X[t-b:t] with X[t:t+b] (cut (t-b, t, t+b)), summed over columns; 0 outside [b, n-b]
        "score_def": "forall(range(n), lambda t: result[t] == ite(bandwidth <= t and t <= n - bandwidth, "
                     "AGG3(change_score.ghost_tok, t - bandwidth, t, t + bandwidth), 0))",
        "fitted_on_X": "change_score._is_fitted == True and change_score.ghost_n == n",
    },
    props=["C08", "C10"],
)
