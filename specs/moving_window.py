"""Contracts of the moving-window kernels (C08, C04)."""
from pyvc.contracts import contract

CS_FIELDS = {"change_score": "obj:~BaseChangeScore", "change_score.min_size": "int"}
CS_FIT_MODS = {"change_score._X": "=X", "change_score._is_fitted": "=True", "change_score.ghost_tok": "int", "change_score.ghost_n": "=n",
               "change_score.ghost_p": "=p", "change_score.ghost_q": "int"}

contract(
    target="skchange/change_detectors/moving_window.py::moving_window_transform",
    params={"X": "real[n,p]", **CS_FIELDS, "bandwidth": "int"},
    requires=["bandwidth >= 1", "change_score.min_size >= 1", "bandwidth >= change_score.min_size", "n >= 2 * bandwidth"],
    modifies=CS_FIT_MODS,
    returns="real[n]",
    ensures={
        "length": "len(result) == n",
        # C08: the score at t compares X[t-b:t] with X[t:t+b] (cut (t-b, t, t+b)), summed over columns; 0 outside [b, n-b]
        "score_def": "forall(range(n), lambda t: result[t] == ite(bandwidth <= t and t <= n - bandwidth, "
                     "AGG3(change_score.ghost_tok, t - bandwidth, t, t + bandwidth), 0))",
        "fitted_on_X": "change_score._is_fitted == True and change_score.ghost_n == n",
    },
    props=["C08", "C10"],
)

# ------------------------------------------------------------------------------------------------ where: maximal runs of True
contract(
    target="skchange/utils/numba/general.py::where",
    params={"indicator": "bool[N]"},
    returns="list[(int,int)]",
    ensures={
        "in_range_sorted": "forall(range(len(result)), lambda q: 0 <= result[q][0] and result[q][0] < result[q][1] and result[q][1] <= N) and "
                           "forall(range(len(result)), range(len(result)), lambda q, r: implies(q < r, result[q][1] < result[r][0]))",
        "inside_true": "forall(range(len(result)), range(N), lambda q, u: implies(result[q][0] <= u and u < result[q][1], indicator[u]))",
        "maximal": "forall(range(len(result)), lambda q: (result[q][0] == 0 or not indicator[result[q][0] - 1]) and (result[q][1] == N or not indicator[result[q][1]]))",
        "covers": "forall(range(N), lambda u: implies(indicator[u], exists(range(len(result)), lambda q: result[q][0] <= u and u < result[q][1])))",
    },
    invariants={"loop#1": {
        "closed": "forall(range(len(intervals)), lambda q: 0 <= intervals[q][0] and intervals[q][0] < intervals[q][1] and intervals[q][1] < _k + 1 and "
                  "intervals[q][1] < N and not indicator[intervals[q][1]] and (intervals[q][0] == 0 or not indicator[intervals[q][0] - 1]))",
        "sorted": "forall(range(len(intervals)), range(len(intervals)), lambda q, r: implies(q < r, intervals[q][1] < intervals[r][0]))",
        "inside_true": "forall(range(len(intervals)), range(N), lambda q, u: implies(intervals[q][0] <= u and u < intervals[q][1], indicator[u]))",
        "open_run": "iff(is_none(start), _k == 0 or not indicator[_k - 1]) and implies(not is_none(start), 0 <= optval(start) and optval(start) < _k and "
                    "(optval(start) == 0 or not indicator[optval(start) - 1]) and forall(range(N), lambda u: implies(optval(start) <= u and u < _k, indicator[u])) and "
                    "forall(range(len(intervals)), lambda q: intervals[q][1] < optval(start)))",
        "covers": "forall(range(_k), lambda u: implies(indicator[u], (not is_none(start) and optval(start) <= u) or "
                  "(0 <= g_run[u] and g_run[u] < len(intervals) and intervals[g_run[u]][0] <= u and u < intervals[g_run[u]][1])))",
    }},
    loop_vars={"loop#1": {"intervals": "list[(int,int)]", "start": "opt:int", "end": "opt:int", "g_run": "int[N]"}},
    ghost=[
        ("before:for i, val in *", "g_run = lam('int', N, lambda u: 0)"),
        ("before:intervals.append(*", "g_s0 = start"),
        ("after:intervals.append(*", "g_run = lam('int', N, lambda u: ite(g_s0 <= u and u < i, len(intervals) - 1, g_run[u]))"),
    ],
    props=["C08", "C04"],
)

ABOVE = lambda v: f"scores[{v}] > threshold"
contract(
    target="skchange/change_detectors/moving_window.py::get_moving_window_changepoints",
    params={"scores": "real[n]", "threshold": "real", "min_detection_interval": "int"},
    requires=["min_detection_interval >= 1"],
    returns="list[int]",
    ensures={
        "range_increasing": f"forall(range(len(result)), lambda q: 0 <= result[q] and result[q] < n and {ABOVE('result[q]')}) and "
                            "forall(range(len(result) - 1), lambda q: result[q] < result[q + 1])",
        # each changepoint is the (first) position of the maximum score within its maximal run of above-threshold positions
        "peak_of_run": "forall(range(len(result)), range(n), lambda q, u: implies(forall(range(n), lambda v: implies((u <= v and v <= result[q]) or "
                       f"(result[q] <= v and v <= u), {ABOVE('v')})), scores[u] <= scores[result[q]] and implies(u < result[q], scores[u] < scores[result[q]])))",
        # every maximal run of at least min_detection_interval positions contributes a changepoint
        "complete": "forall(range(n), range(n + 1), lambda a, b: implies(a < b and b - a >= min_detection_interval and "
                    f"forall(range(n), lambda v: implies(a <= v and v < b, {ABOVE('v')})) and (a == 0 or not {ABOVE('a - 1')}) and (b == n or not {ABOVE('b')}), "
                    "exists(range(len(result)), lambda q: a <= result[q] and result[q] < b)))",
        # ... and runs shorter than that contribute none
        "min_run": "forall(range(len(result)), range(n), range(n + 1), lambda q, a, b: implies(a <= result[q] and result[q] < b and "
                   f"forall(range(n), lambda v: implies(a <= v and v < b, {ABOVE('v')})) and (a == 0 or not {ABOVE('a - 1')}) and (b == n or not {ABOVE('b')}), "
                   "b - a >= min_detection_interval))",
    },
    invariants={"loop#1": {
        "src": "forall(range(len(changepoints)), lambda q: 0 <= g_iv[q] and g_iv[q] < _k and detection_intervals[g_iv[q]][0] <= changepoints[q] and "
               "changepoints[q] < detection_intervals[g_iv[q]][1] and detection_intervals[g_iv[q]][1] - detection_intervals[g_iv[q]][0] >= min_detection_interval and "
               "forall(range(detection_intervals[g_iv[q]][0], detection_intervals[g_iv[q]][1]), lambda u: scores[u] <= scores[changepoints[q]]) and "
               "forall(range(detection_intervals[g_iv[q]][0], changepoints[q]), lambda u: scores[u] < scores[changepoints[q]]))",
        "increasing": "forall(range(len(changepoints) - 1), lambda q: g_iv[q] < g_iv[q + 1])",
        "complete": "forall(range(_k), lambda r: implies(detection_intervals[r][1] - detection_intervals[r][0] >= min_detection_interval, "
                    "0 <= g_cp[r] and g_cp[r] < len(changepoints) and g_iv[g_cp[r]] == r))",
    }},
    loop_vars={"loop#1": {"changepoints": "list[int]", "g_iv": "int[n]", "g_cp": "int[n]"}},
    ghost=[
        ("before:for interval in *", "g_iv = lam('int', n, lambda q: 0)\ng_cp = lam('int', n, lambda r: 0)"),
        ("after:changepoints.append(*",
         "g_iv = lam('int', n, lambda q: ite(q == len(changepoints) - 1, _k, g_iv[q]))\n"
         "g_cp = lam('int', n, lambda r: ite(r == _k, len(changepoints) - 1, g_cp[r]))"),
    ],
    props=["C08", "C04"],
)
