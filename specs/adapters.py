"""Contracts of the cost-to-score adapters (C06): ChangeScore, Saving (LocalAnomalyScore: see DESIGN, bounded)."""
from pyvc.contracts import contract

from .scorers import EVAL, FIT, valid_cuts

_COST_FIELDS = lambda pre: {f"{pre}": "obj:~BaseCost", f"{pre}._is_fitted": "bool=True", f"{pre}.min_size": "int",
                            f"{pre}.ghost_tok": "int", f"{pre}.ghost_n": "int", f"{pre}.ghost_q": "int"}

# ------------------------------------------------------------------------------------------------ ChangeScore
contract(
    target=FIT, self_class="ChangeScore", variant="ChangeScore",
    params={"self": "obj:ChangeScore", "self._is_fitted": "bool", "self._X": "any", "self.cost": "obj:~BaseCost", "X": "real[n,p]", "y": "none"},
    modifies={"self._X": "=X", "self._is_fitted": "=True", "self.cost._X": "=X", "self.cost._is_fitted": "=True",
              "self.cost.ghost_tok": "int", "self.cost.ghost_n": "=n", "self.cost.ghost_p": "=p", "self.cost.ghost_q": "int"},
    returns="=self",
    ensures={"fitted": "self._is_fitted == True and self.cost._is_fitted == True", "n": "self.cost.ghost_n == n", "q": "self.cost.ghost_q >= 1"},
    props=["C06", "C10"],
)
contract(
    target=EVAL, self_class="ChangeScore", variant="ChangeScore",
    params={"self": "obj:ChangeScore", "self._is_fitted": "bool=True", "self._X": "real[n,p]", **_COST_FIELDS("self.cost"), "cuts": "int[r,c]"},
    requires=["self.cost.ghost_n == n", "self.cost.min_size >= 1", "self.cost.ghost_q >= 1"],
    raises={"ValueError": f"not {valid_cuts(3, 'self.cost.min_size')}"},
    returns="real[r,self.cost.ghost_q]",
    ensures={
        "shape": "result.shape == (r, self.cost.ghost_q)",
        "value": "forall(range(r), range(self.cost.ghost_q), lambda i, j: result[i, j] == SC2(self.cost.ghost_tok, cuts[i, 0], cuts[i, 2], j)"
                 " - SC2(self.cost.ghost_tok, cuts[i, 0], cuts[i, 1], j) - SC2(self.cost.ghost_tok, cuts[i, 1], cuts[i, 2], j))",
    },
    props=["C06", "C13"],
)

# ------------------------------------------------------------------------------------------------ Saving
contract(
    target=EVAL, self_class="Saving", variant="Saving",
    params={"self": "obj:Saving", "self._is_fitted": "bool=True", "self._X": "real[n,p]",
            **_COST_FIELDS("self.baseline_cost"), **_COST_FIELDS("self.optimised_cost"), "cuts": "int[r,c]"},
    requires=["self.baseline_cost.ghost_n == n", "self.optimised_cost.ghost_n == n", "self.optimised_cost.min_size >= 1",
              "self.baseline_cost.min_size == self.optimised_cost.min_size", "self.baseline_cost.ghost_q == self.optimised_cost.ghost_q",
              "self.optimised_cost.ghost_q >= 1"],
    raises={"ValueError": f"not {valid_cuts(2, 'self.optimised_cost.min_size')}"},
    returns="real[r,self.optimised_cost.ghost_q]",
    ensures={
        "shape": "result.shape == (r, self.optimised_cost.ghost_q)",
        "value": "forall(range(r), range(self.optimised_cost.ghost_q), lambda i, j: result[i, j] == "
                 "SC2(self.baseline_cost.ghost_tok, cuts[i, 0], cuts[i, 1], j) - SC2(self.optimised_cost.ghost_tok, cuts[i, 0], cuts[i, 1], j))",
    },
    props=["C06", "C13"],
)
contract(
    target=FIT, self_class="Saving", variant="Saving",
    params={"self": "obj:Saving", "self._is_fitted": "bool", "self._X": "any", "self.baseline_cost": "obj:~BaseCost", "self.optimised_cost": "obj:~BaseCost", "X": "real[n,p]", "y": "none"},
    modifies={"self._X": "=X", "self._is_fitted": "=True"},
    returns="=self",
    ensures={"fitted": "self._is_fitted == True and self.baseline_cost._is_fitted == True and self.optimised_cost._is_fitted == True",
             "n": "self.baseline_cost.ghost_n == n and self.optimised_cost.ghost_n == n"},
    props=["C06", "C10"],
)
