"""Spec functions, lemmas and assumed external contracts (DESIGN 5 / Appendix C)."""
from __future__ import annotations

import z3

from pyvc.values import (NONE, Arr, FuncRef, Lst, ObjRef, Opaque, Unsupported, fresh_name, is_concrete, mk_and, mk_not,
                         num_cmp, to_real, to_z3)

SPEC_FUNCS = {}
EXTERNALS = {"methods": {}}


def spec(name):
    def deco(f):
        SPEC_FUNCS[name] = f
        return f
    return deco


def external(name):
    def deco(f):
        EXTERNALS[name] = f
        return f
    return deco


def extmethod(name):
    def deco(f):
        EXTERNALS["methods"][name] = f
        return f
    return deco

# ----------------------------------------------------------------------------- transcendental symbols
from pyvc.npmodel import LOG as _LOG, PI as _PI, SQRT as _SQRT

SPEC_CONSTS = {"PI": _PI}


@spec("LOG")
def _log(eng, st, x):
    return _LOG(to_z3(to_real(x)))


@spec("SQRT")
def _sqrt(eng, st, x):
    return _SQRT(to_z3(to_real(x)))
