"""Spec functions, lemmas and assumed external contracts (DESIGN 5 / Appendix C)."""
from __future__ import annotations

import z3

from pyvc.values import (NONE, Arr, FuncRef, Lst, ObjRef, Opaque, Unsupported, fresh_name, is_concrete, mk_and, mk_not,
                         num_add, num_cmp, to_real, to_z3)

SPEC_FUNCS = {}
EXTERNALS = {"methods": {}}


def spec(name):
    def deco(f):
        SPEC_FUNCS[name] = f
        return f
    return deco


def external(name):
    def deco(f):
        EXTERNALS[name] = f
        return f
    return deco


def extmethod(name):
    def deco(f):
        EXTERNALS["methods"][name] = f
        return f
    return deco

# ----------------------------------------------------------------------------- transcendental symbols
from pyvc.npmodel import LOG as _LOG, PI as _PI, SQRT as _SQRT

SPEC_CONSTS = {"PI": _PI}


@spec("LOG")
def _log(eng, st, x):
    return _LOG(to_z3(to_real(x)))


@spec("SQRT")
def _sqrt(eng, st, x):
    return _SQRT(to_z3(to_real(x)))


# ----------------------------------------------------------------------------- lemmas (each proved once, used by explicit instances)
from pyvc.symex import EngineError, LemmaInst

LEMMAS = {}


def lemma(name, sorts):
    """Register a lemma: f(*terms) -> (premises, conclusion). `sorts` gives the parameter sorts for its own proof."""
    def deco(f):
        LEMMAS[name] = (f, sorts)

        def inst(eng, st, *args):
            zargs = [to_z3(to_real(a)) if srt == "real" else to_z3(a) for a, srt in zip(args, sorts)]
            prem, concl = f(*zargs)
            return LemmaInst(name, prem, concl)

        SPEC_FUNCS[name] = inst
        return f
    return deco


def lemma_obligations(name):
    """[(label, hyps, goal)] proving the lemma (a lemma may define its own multi-step proof via LEMMA_PROOFS)."""
    if name in LEMMA_PROOFS:
        return LEMMA_PROOFS[name]()
    prem, concl = lemma_obligation(name)
    return [("", prem, concl)]


LEMMA_PROOFS = {}


def lemma_obligation(name):
    """(hyps, goal) of the lemma itself over fresh constants."""
    f, sorts = LEMMAS[name]
    consts = [z3.Real(f"{name}_a{i}") if srt == "real" else z3.Int(f"{name}_a{i}") for i, srt in enumerate(sorts)]
    prem, concl = f(*consts)
    return prem, concl


@lemma("L_cusum", ["real"] * 8)
def _l_cusum(a, b, na, nb, x, y, A, B):
    """Squared CUSUM == L2 change score in prefix-sum form (pure real algebra). na, nb are the products n*a, n*b as the
    code computes them (so that the premises match the program terms syntactically)."""
    n = a + b
    prem = [a > 0, b > 0, na == n * a, nb == n * b, x >= 0, y >= 0, x * x == b / na, y * y == a / nb]
    concl = (x * A - y * B) * (x * A - y * B) == A * A / a + B * B / b - (A + B) * (A + B) / n
    return prem, concl


# ----------------------------------------------------------------------------- data spec functions over a 2-D real array symbol
# SUM_X(j,s,e) = sum_{i in [s,e)} X[i,j];  SSQ_X = sum of squares;  SQDEV_X(j,s,e,mu) = sum (X[i,j]-mu)^2
# RSS_X(j,s,e) = SQDEV_X(j,s,e, SUM_X(j,s,e)/(e-s))   -- "computed directly from the rows X[s:e]" (C01)
_I, _R = z3.IntSort(), z3.RealSort()
_DATA = {}


def data_theory(eng, st, X: Arr):
    """Function symbols of the data theory of array X (X is materialised to a symbol if it is a closure)."""
    if X.rank != 2:
        raise Unsupported("data theory needs a 2-D array")
    if X.fn is None:
        X2 = eng.materialise(st, X, "data")
        X.fn = X2.fn          # remember on the closure so later uses agree
    key = X.fn.name()
    if key not in _DATA:
        _DATA[key] = {
            "X": X.fn,
            "SUM": z3.Function("SUM_" + key, _I, _I, _I, _R),
            "SSQ": z3.Function("SSQ_" + key, _I, _I, _I, _R),
            "SQDEV": z3.Function("SQDEV_" + key, _I, _I, _I, _R, _R),
            "RSS": z3.Function("RSS_" + key, _I, _I, _I, _R),
        }
    th = _DATA[key]
    tag = "datafacts_" + key
    if tag not in st.ghost_fns:
        st.ghost_fns[tag] = True
        n = to_z3(X.shape[0])
        j, s, e = z3.Ints("j!d s!d e!d")
        mu = z3.Real("mu!d")
        SUM, SSQ, SQDEV, RSS = th["SUM"], th["SSQ"], th["SQDEV"], th["RSS"]
        rng = z3.And(0 <= s, s < e, e <= n)
        # definition of RSS and the proved lemmas L_sqdev / L_rss (see LEMMA_PROOFS); no recursive definitions are exposed here
        st.assume(z3.ForAll([j, s, e], z3.Implies(rng, RSS(j, s, e) == SQDEV(j, s, e, SUM(j, s, e) / z3.ToReal(e - s))), patterns=[RSS(j, s, e)]))
        st.assume(z3.ForAll([j, s, e, mu], z3.Implies(z3.And(0 <= s, s <= e, e <= n),
                                                     SQDEV(j, s, e, mu) == SSQ(j, s, e) - 2 * mu * SUM(j, s, e) + z3.ToReal(e - s) * mu * mu),
                            patterns=[SQDEV(j, s, e, mu)]))
        st.assume(z3.ForAll([j, s, e], z3.Implies(rng, RSS(j, s, e) == SSQ(j, s, e) - SUM(j, s, e) * SUM(j, s, e) / z3.ToReal(e - s)),
                            patterns=[RSS(j, s, e)]))
        st.assume(z3.ForAll([j, s, e], z3.Implies(rng, RSS(j, s, e) >= 0), patterns=[RSS(j, s, e)]))
        k_ = z3.Int("k!d")
        mid = z3.And(0 <= s, s <= k_, k_ <= e, e <= n)
        st.assume(z3.ForAll([j, s, k_, e], z3.Implies(mid, SUM(j, s, e) == SUM(j, s, k_) + SUM(j, k_, e)),
                            patterns=[z3.MultiPattern(SUM(j, s, k_), SUM(j, k_, e))]))
        st.assume(z3.ForAll([j, s, k_, e], z3.Implies(mid, SSQ(j, s, e) == SSQ(j, s, k_) + SSQ(j, k_, e)),
                            patterns=[z3.MultiPattern(SSQ(j, s, k_), SSQ(j, k_, e))]))
        eng.used_lemmas.update(["L_sqdev", "L_rss", "L_rss_nonneg", "L_add"])
    return th


def _mk_data_fn(name):
    def f(eng, st, X, j, s, e, *rest):
        th = data_theory(eng, st, X)
        args = [to_z3(j), to_z3(s), to_z3(e)] + [to_z3(to_real(r)) for r in rest]
        return th[name](*args)
    return f


for _nm in ("SUM", "SSQ", "SQDEV", "RSS"):
    SPEC_FUNCS[_nm] = _mk_data_fn(_nm)


def _prefix_pred(square):
    def pred(eng, st, S, X):
        """PrefixSum(S, X): S has one more row than X, S[0,:]==0, S[i+1,j]==S[i,j]+X[i,j] (or its square).
        When used as a hypothesis the proved consequence L_prefix (S[e,j]-S[s,j] == SUM_X(j,s,e)) is attached; the two
        forms are equivalent by the lemma, so this is sound in any polarity. Goals get the plain definition."""
        n, p = X.shape
        from pyvc.state import forall, fresh_int
        i, j = fresh_int("i"), fresh_int("j")
        x = X.get(i, j)
        inc = x * x if square else x
        inc = to_z3(to_real(inc))
        shape_ok = mk_and(num_cmp("==", S.shape[0], n + 1), num_cmp("==", S.shape[1], p))
        zero = forall([j], z3.Implies(z3.And(j >= 0, j < to_z3(p)), to_z3(S.get(0, j)) == 0))
        s1 = to_z3(S.get(i + 1, j))
        rec = z3.ForAll([i, j], z3.Implies(z3.And(i >= 0, i < to_z3(n), j >= 0, j < to_z3(p)), s1 == to_z3(S.get(i, j)) + inc), patterns=[s1])
        definition = mk_and(shape_ok, zero, rec)
        if getattr(eng, "in_goal", False):
            return definition
        th = data_theory(eng, st, X)
        F = th["SSQ"] if square else th["SUM"]
        jj, s, e = z3.Ints("j!p s!p e!p")
        lhs = to_z3(S.get(e, jj)) - to_z3(S.get(s, jj))
        concl = z3.ForAll([jj, s, e], z3.Implies(z3.And(0 <= s, s <= e, e <= to_z3(n), 0 <= jj, jj < to_z3(p)), lhs == F(jj, s, e)),
                          patterns=[F(jj, s, e)])
        eng.used_lemmas.add("L_prefix")
        return mk_and(definition, concl)
    return pred


SPEC_FUNCS["PrefixSum"] = _prefix_pred(False)
SPEC_FUNCS["PrefixSumSq"] = _prefix_pred(True)


# ---- proofs of the data lemmas, over generic symbols, by explicit induction (base + step, ground instances of the definitions)
def _data_lemma_proofs():
    X = z3.Function("X!L", _I, _I, _R)
    S = z3.Function("S!L", _I, _I, _R)
    SUM = z3.Function("SUM!L", _I, _I, _I, _R)
    SSQ = z3.Function("SSQ!L", _I, _I, _I, _R)
    SQDEV = z3.Function("SQDEV!L", _I, _I, _I, _R, _R)
    n, j, s, e = z3.Ints("n!L j!L s!L e!L")
    mu = z3.Real("mu!L")
    # recursive definitions (ground instances at (j,s,e))
    def defs(e_):
        return [SUM(j, s, s) == 0, SSQ(j, s, s) == 0, SQDEV(j, s, s, mu) == 0,
                z3.Implies(e_ >= s, z3.And(SUM(j, s, e_ + 1) == SUM(j, s, e_) + X(e_, j),
                                           SSQ(j, s, e_ + 1) == SSQ(j, s, e_) + X(e_, j) * X(e_, j),
                                           SQDEV(j, s, e_ + 1, mu) == SQDEV(j, s, e_, mu) + (X(e_, j) - mu) * (X(e_, j) - mu)))]
    out = {}
    # L_prefix: S[0]=0, S[i+1]=S[i]+X[i]  =>  S[e]-S[s] == SUM(j,s,e)   (induction on e from s)
    i = z3.Int("i!L")
    pre = [z3.ForAll([i], z3.Implies(z3.And(i >= 0, i < n), S(i + 1, j) == S(i, j) + X(i, j)), patterns=[S(i + 1, j)]), 0 <= s, s <= e, e < n]
    out["L_prefix"] = [
        (".base", defs(s), S(s, j) - S(s, j) == SUM(j, s, s)),
        (".step", pre + defs(e) + [S(e, j) - S(s, j) == SUM(j, s, e)], S(e + 1, j) - S(s, j) == SUM(j, s, e + 1)),
    ]
    # L_sqdev: SQDEV(j,s,e,mu) == SSQ - 2 mu SUM + (e-s) mu^2
    ih = SQDEV(j, s, e, mu) == SSQ(j, s, e) - 2 * mu * SUM(j, s, e) + z3.ToReal(e - s) * mu * mu
    out["L_sqdev"] = [
        (".base", defs(s), SQDEV(j, s, s, mu) == SSQ(j, s, s) - 2 * mu * SUM(j, s, s) + z3.ToReal(s - s) * mu * mu),
        (".step", [s <= e] + defs(e) + [ih],
         SQDEV(j, s, e + 1, mu) == SSQ(j, s, e + 1) - 2 * mu * SUM(j, s, e + 1) + z3.ToReal(e + 1 - s) * mu * mu),
    ]
    # L_rss: with RSS := SQDEV at mu = SUM/(e-s):  RSS == SSQ - SUM^2/(e-s)   (pure algebra from L_sqdev)
    a, b, m_ = z3.Reals("ssq!L sum!L m!L")
    out["L_rss"] = [("", [m_ > 0], a - 2 * (b / m_) * b + m_ * (b / m_) * (b / m_) == a - b * b / m_)]
    # L_rss_nonneg: SQDEV(j,s,e,mu) >= 0 (induction), hence RSS >= 0
    out["L_rss_nonneg"] = [
        (".base", defs(s), SQDEV(j, s, s, mu) >= 0),
        (".step", [s <= e] + defs(e) + [SQDEV(j, s, e, mu) >= 0], SQDEV(j, s, e + 1, mu) >= 0),
    ]
    # L_add: SUM(j,s,e) == SUM(j,s,k)+SUM(j,k,e) for s<=k<=e (induction on e from k), same for SSQ
    k = z3.Int("k!L")

    def defs2(a_, e_):
        return [SUM(j, a_, a_) == 0, SSQ(j, a_, a_) == 0,
                z3.Implies(e_ >= a_, z3.And(SUM(j, a_, e_ + 1) == SUM(j, a_, e_) + X(e_, j),
                                            SSQ(j, a_, e_ + 1) == SSQ(j, a_, e_) + X(e_, j) * X(e_, j)))]
    out["L_add"] = [
        (".base", defs2(k, k), z3.And(SUM(j, s, k) == SUM(j, s, k) + SUM(j, k, k), SSQ(j, s, k) == SSQ(j, s, k) + SSQ(j, k, k))),
        (".step", [s <= k, k <= e] + defs2(s, e) + defs2(k, e) + [SUM(j, s, e) == SUM(j, s, k) + SUM(j, k, e), SSQ(j, s, e) == SSQ(j, s, k) + SSQ(j, k, e)],
         z3.And(SUM(j, s, e + 1) == SUM(j, s, k) + SUM(j, k, e + 1), SSQ(j, s, e + 1) == SSQ(j, s, k) + SSQ(j, k, e + 1))),
    ]
    return out


for _nm in ("L_prefix", "L_sqdev", "L_rss", "L_rss_nonneg", "L_add"):
    LEMMA_PROOFS[_nm] = (lambda nm=_nm: _data_lemma_proofs()[nm])


@lemma("L_var", ["real"] * 3)
def _l_var(ssq, sm, n):
    """ssq/n - (sm/n)^2 == (ssq - sm^2/n)/n for n > 0 (variance from sums vs RSS/n)."""
    return [n > 0], ssq / n - (sm / n) * (sm / n) == (ssq - sm * sm / n) / n


@lemma("L_sq", ["real"] * 2)
def _l_sq(x, y):
    """x == y  =>  x*x == y*y (congruence made explicit for the nonlinear core)."""
    return [x == y], x * x == y * y


# ----------------------------------------------------------------------------- scorer interface (uninterpreted score functions)
# SCk(tok, cut entries..., j): value in column j of the row that a scorer fitted with token `tok` returns for that cut.
_SC = {
    2: z3.Function("SC2", _I, _I, _I, _I, _R),
    3: z3.Function("SC3", _I, _I, _I, _I, _I, _R),
    4: z3.Function("SC4", _I, _I, _I, _I, _I, _I, _R),
}
# AGGk(tok, cut entries...) = sum over columns of SCk  (what np.sum(scores, axis=1) returns)
_AGG = {
    2: z3.Function("AGG2", _I, _I, _I, _R),
    3: z3.Function("AGG3", _I, _I, _I, _I, _R),
    4: z3.Function("AGG4", _I, _I, _I, _I, _I, _R),
}
for _k in (2, 3, 4):
    SPEC_FUNCS[f"SC{_k}"] = (lambda k: (lambda eng, st, *a: _SC[k](*[to_z3(x) for x in a])))(_k)
    SPEC_FUNCS[f"AGG{_k}"] = (lambda k: (lambda eng, st, *a: _AGG[k](*[to_z3(x) for x in a])))(_k)


# ----------------------------------------------------------------------------- optimal partitioning (PELT, C02)
# PF(tok, m, beta, u): optimal penalised cost of the prefix of length u (u == 0: -beta; defined for u >= m),
# PA(tok, m, beta, u): an optimal last segment start for u >= 2m.  C(s,e) = AGG2(tok, s, e).
_PF = z3.Function("PF", _I, _I, _R, _I, _R)
_PA = z3.Function("PA", _I, _I, _R, _I, _I)
SPEC_FUNCS["PF"] = lambda eng, st, tok, m, beta, u: _PF(to_z3(tok), to_z3(m), to_z3(to_real(beta)), to_z3(u))
SPEC_FUNCS["PA"] = lambda eng, st, tok, m, beta, u: _PA(to_z3(tok), to_z3(m), to_z3(to_real(beta)), to_z3(u))


def _adm(s, u, m):
    return z3.Or(s == 0, z3.And(m <= s, s <= u - m))


@spec("Adm")
def _adm_spec(eng, st, s, u, m):
    return _adm(to_z3(s), to_z3(u), to_z3(m))


def _has_ite(t):
    if not z3.is_app(t):
        return False
    if t.decl().kind() == z3.Z3_OP_ITE:
        return True
    return any(_has_ite(c) for c in t.children())


def _plain(st, v, real=False):
    """z3 term for v; a term containing an if-then-else (not allowed inside quantifier patterns) is named by a fresh constant equal to it"""
    t = to_z3(to_real(v)) if real else to_z3(v)
    if _has_ite(t):
        c = z3.Const(fresh_name("arg"), t.sort())
        st.assume(c == t)
        return c
    return t


@spec("PELT_THEORY")
def _pelt_theory(eng, st, tok, m, beta, n):
    """Bellman characterisation of PF (the definition of the optimal-partitioning value; L_bellman relates it to the
    minimum over all admissible segmentations). Triggers: B2 on the cost term, B3 only on an explicit PA(u) term."""
    allt = isinstance(tok, str) and tok == "all"
    tok = z3.Int("tok!pt") if allt else to_z3(tok)
    tv = [tok] if allt else []
    m, n = _plain(st, m), _plain(st, n)
    beta = _plain(st, beta, real=True)
    C = _AGG[2]
    F = lambda u: _PF(tok, m, beta, u)
    A = lambda u: _PA(tok, m, beta, u)
    u, s = z3.Ints("u!pt s!pt")
    eng.note_assumption("definition of the spec function PF (optimal partitioning value) by its Bellman equations: PF(0)=-beta, "
                        "PF(u)=C(0,u) for m<=u<2m, PF(u)=min over admissible s of PF(s)+C(s,u)+beta for u>=2m (PA(u) attains it)")
    eng.used_lemmas.add("L_bellman")
    return z3.And(
        z3.ForAll(tv, F(0) == -beta, patterns=[F(0)]) if allt else F(0) == -beta,
        z3.ForAll(tv + [u], z3.Implies(z3.And(m <= u, u < 2 * m, u <= n), F(u) == C(tok, 0, u)), patterns=[F(u)]),
        z3.ForAll(tv + [u, s], z3.Implies(z3.And(2 * m <= u, u <= n, _adm(s, u, m)), F(u) <= F(s) + C(tok, s, u) + beta), patterns=[C(tok, s, u)]),
        z3.ForAll(tv + [u], z3.Implies(z3.And(2 * m <= u, u <= n), z3.And(_adm(A(u), u, m), F(u) == F(A(u)) + C(tok, A(u), u) + beta)), patterns=[A(u)]),
    )


@spec("SPLIT_INEQ")
def _split_ineq(eng, st, tok, m, kappa, n):
    """C(a,b)+C(b,c)+kappa <= C(a,c) for segments of admissible length (the side condition of C02)."""
    allt = isinstance(tok, str) and tok == "all"
    tok = z3.Int("tok!si") if allt else to_z3(tok)
    m, n = _plain(st, m), _plain(st, n)
    kappa = _plain(st, kappa, real=True)
    C = _AGG[2]
    a, b, c = z3.Ints("a!si b!si c!si")
    return z3.ForAll(([tok] if allt else []) + [a, b, c], z3.Implies(z3.And(0 <= a, a + m <= b, b + m <= c, c <= n), C(tok, a, b) + C(tok, b, c) + kappa <= C(tok, a, c)),
                     patterns=[z3.MultiPattern(C(tok, a, b), C(tok, b, c))])


def _bellman_proof():
    """L_bellman: for every admissible segmentation b(0)=0<b(1)<...<b(K)=t (gaps >= m), PF(t) <= SegCost.
    Induction on the number of segments K over generic symbols: Cost(k) = sum_{i<k} C(b(i),b(i+1)) + beta*(k-1)."""
    tok, m, n, K, k = z3.Ints("tok!B m!B n!B K!B k!B")
    beta = z3.Real("beta!B")
    b = z3.Function("b!B", _I, _I)
    SC = z3.Function("SegCost!B", _I, _R)     # SegCost(k): cost of the first k segments incl. (k-1) penalties
    C = _AGG[2]
    F = lambda u: _PF(tok, m, beta, u)
    u, s, i = z3.Ints("u!B s!B i!B")
    theory = [
        m >= 1, F(0) == -beta,
        z3.ForAll([u], z3.Implies(z3.And(m <= u, u < 2 * m, u <= n), F(u) == C(tok, 0, u)), patterns=[F(u)]),
        z3.ForAll([u, s], z3.Implies(z3.And(2 * m <= u, u <= n, _adm(s, u, m)), F(u) <= F(s) + C(tok, s, u) + beta), patterns=[C(tok, s, u)]),
    ]
    seg = [b(0) == 0, z3.ForAll([i], z3.Implies(z3.And(0 <= i, i < K), z3.And(b(i) + m <= b(i + 1), b(i + 1) <= n)), patterns=[b(i + 1)]),
           SC(1) == C(tok, 0, b(1)),
           z3.ForAll([i], z3.Implies(z3.And(1 <= i, i < K), SC(i + 1) == SC(i) + C(tok, b(i), b(i + 1)) + beta), patterns=[SC(i + 1)])]
    # base: one segment [0, b(1))
    base = (".base", theory + seg + [K >= 1], F(b(1)) <= SC(1))
    # step: F(b(k)) <= SC(k)  =>  F(b(k+1)) <= SC(k+1)   for 1 <= k < K
    step = (".step", theory + seg + [1 <= k, k < K, F(b(k)) <= SC(k), b(k) >= m, b(k) + m <= b(k + 1), b(k + 1) <= n], F(b(k + 1)) <= SC(k + 1))
    # auxiliary: b(k) >= m for k >= 1 (monotone boundaries)
    aux = (".bounds", seg + [m >= 1, 1 <= k, k < K, b(k) >= m], b(k + 1) >= m)
    return [base, step, aux]


LEMMA_PROOFS["L_bellman"] = _bellman_proof


# ----------------------------------------------------------------------------- axiom instances on LOG (DESIGN 5.3): explicit, never quantified
def _ax(name, text):
    def deco(f):
        def g(eng, st, *args):
            zargs = [to_z3(to_real(a)) for a in args]
            st.assume(f(*zargs))
            eng.note_assumption(f"axiom instance {name}: {text}")
            return True
        SPEC_FUNCS[name] = g
        return f
    return deco


@_ax("AX_LOG_ge0", "x >= 1  =>  LOG(x) >= 0")
def _ax_log_ge0(x):
    return z3.Implies(x >= 1, _LOG(x) >= 0)


@_ax("AX_LOG_pos", "x > 1  =>  LOG(x) > 0")
def _ax_log_pos(x):
    return z3.Implies(x > 1, _LOG(x) > 0)


@_ax("AX_LOG_mono", "0 < x <= y  =>  LOG(x) <= LOG(y)")
def _ax_log_mono(x, y):
    return z3.Implies(z3.And(0 < x, x <= y), _LOG(x) <= _LOG(y))


@_ax("AX_LOG_mul", "x, y > 0  =>  LOG(x*y) == LOG(x) + LOG(y)")
def _ax_log_mul(x, y):
    return z3.Implies(z3.And(x > 0, y > 0), _LOG(x * y) == _LOG(x) + _LOG(y))


@_ax("AX_LOG_le", "y > 0  =>  LOG(y) <= y - 1")
def _ax_log_le(y):
    return z3.Implies(y > 0, _LOG(y) <= y - 1)


@_ax("AX_SQRT", "x >= 0  =>  SQRT(x) >= 0 and SQRT(x)^2 == x")
def _ax_sqrt(x):
    return z3.Implies(x >= 0, z3.And(_SQRT(x) >= 0, _SQRT(x) * _SQRT(x) == x))

_ICUM = z3.Function("ICUM", _I, _I, _I, _R, _I, _R)
SPEC_FUNCS["ICUM"] = lambda eng, st, n, p, k, scale, q: _ICUM(to_z3(n), to_z3(p), to_z3(k), to_z3(to_real(scale)), to_z3(q))


@spec("funcref")
def _funcref(eng, st, key):
    fi = eng.repo.func(key)
    if fi is None:
        raise EngineError(f"funcref: no function {key}")
    return FuncRef("func", fi, name=fi.node.name)


@spec("typeis")
def _typeis(eng, st, v, name):
    if isinstance(v, FuncRef) and v.kind == "func":
        return v.target.node.name == name
    if isinstance(v, ObjRef):          # exact (static) class of an object the function built or was handed
        return v.cls.name == name and not getattr(v, "abstract", False)
    return False


@spec("L_cumsum_tel")
def _l_cumsum_tel(eng, st, c, b, F):
    """Telescoping lemma instance: if b[j] == F[j+1]-F[j] (0<=j<len b) and c is np.cumsum(b) then c[i] == F[i+1]-F[0].
    The generic lemma is proved by induction in LEMMA_PROOFS['L_cumsum_tel']; premises are side obligations."""
    from pyvc.state import forall, fresh_int
    j, i = fresh_int("j"), fresh_int("i")
    n = to_z3(b.shape[0])
    prem = [
        forall([j], z3.Implies(z3.And(0 <= j, j < n), to_z3(to_real(b.get(j))) == to_z3(to_real(F.get(j + 1))) - to_z3(to_real(F.get(j))))),
        z3.Implies(n >= 1, to_z3(to_real(c.get(0))) == to_z3(to_real(b.get(0)))),
        forall([j], z3.Implies(z3.And(0 <= j, j + 1 < n), to_z3(to_real(c.get(j + 1))) == to_z3(to_real(c.get(j))) + to_z3(to_real(b.get(j + 1))))),
    ]
    # c must be the cumsum of b: c is evaluated by the caller as np.cumsum(b) (fresh symbol with the cumsum facts in the path)
    ci = to_z3(to_real(c.get(i)))
    concl = forall([i], z3.Implies(z3.And(0 <= i, i < n), ci == to_z3(to_real(F.get(i + 1))) - to_z3(to_real(F.get(0)))))
    # link c to the program's cumsum value: np.cumsum(b) evaluated twice gives two symbols with the same defining facts; equate them via recurrence
    return LemmaInst("L_cumsum_tel", prem, concl)


def _cumsum_tel_proof():
    b = z3.Function("b!T", _I, _R)
    c = z3.Function("c!T", _I, _R)
    F = z3.Function("F!T", _I, _R)
    n, i, j = z3.Ints("n!T i!T j!T")
    hyp = [z3.ForAll([j], z3.Implies(z3.And(0 <= j, j < n), b(j) == F(j + 1) - F(j)), patterns=[b(j)]),
           z3.Implies(n >= 1, c(0) == b(0)),
           z3.ForAll([j], z3.Implies(z3.And(0 <= j, j + 1 < n), c(j + 1) == c(j) + b(j + 1)), patterns=[c(j + 1)])]
    return [(".base", hyp + [n >= 1], c(0) == F(1) - F(0)),
            (".step", hyp + [0 <= i, i + 1 < n, c(i) == F(i + 1) - F(0)], c(i + 1) == F(i + 2) - F(0))]


LEMMA_PROOFS["L_cumsum_tel"] = _cumsum_tel_proof


# ----------------------------------------------------------------------------- CAPA (C03)
# PSC(tok, s, e, alpha, bid): penalised saving of [s,e) = best over non-empty subsets J of components of
#   sum_{j in J} SC2(tok,s,e,j) - alpha - sum_{k<|J|} beta_k   (clipped below at -alpha in the equal-betas form, DESIGN 5.2);
# bid identifies the betas array (arrid). For concrete p <= 3 the definition is expanded explicitly (PEN_EXPLICIT).
_PSC = z3.Function("PSC", _I, _I, _I, _R, _I, _R)
SPEC_FUNCS["PSC"] = lambda eng, st, tok, s, e, alpha, bid: _PSC(to_z3(tok), to_z3(s), to_z3(e), to_z3(to_real(alpha)), to_z3(bid))
# CG(tokc, tokp, T): optimal total penalised saving of the prefix of length T for the savings fitted with tokens tokc / tokp
# (penalties, m, M are those of the verification context); CA: an optimal collective start when the collective option attains CG.
_CG3 = z3.Function("CG", _I, _I, _I, _R)
_CA3 = z3.Function("CA", _I, _I, _I, _I)
SPEC_FUNCS["CG"] = lambda eng, st, tc, tp, T: _CG3(to_z3(tc), to_z3(tp), to_z3(T))
SPEC_FUNCS["CA"] = lambda eng, st, tc, tp, T: _CA3(to_z3(tc), to_z3(tp), to_z3(T))


@spec("ZEROS1")
def _zeros1(eng, st):
    return z3.Int("ID_zeros1")


@spec("frame_of")
def _frame_of(eng, st, x):
    return Opaque("frame", x)


@spec("arrid")
def _arrid(eng, st, a):
    if a.fn is None and len(a.shape) == 1 and isinstance(a.shape[0], int) and a.shape[0] == 1 and is_concrete(a.get(0)) and a.get(0) == 0:
        return z3.Int("ID_zeros1")      # canonical identity of np.zeros(1) (CAPA's "no per-component penalty")
    if a.fn is None:
        a2 = eng.materialise(st, a, "idarr")
        a.fn = a2.fn
    return z3.Int("ID_" + a.fn.name())


@spec("CAPA_THEORY")
def _capa_theory(eng, st, tokc, ac, bidc, tokp, ap, bidp, m, M, n):
    """Bellman characterisation of CG for the given savings / penalties (definition of the spec function).
    tokc / tokp may be the string 'all' (quantified: the facts hold for every pair of fits)."""
    allt = isinstance(tokc, str) and tokc == "all"
    tokc = z3.Int("tokc!ct") if allt else to_z3(tokc)
    tokp = z3.Int("tokp!ct") if allt else to_z3(tokp)
    tv = [tokc, tokp] if allt else []
    bidc, bidp, m, M, n = [to_z3(x) for x in (bidc, bidp, m, M, n)]
    ac, ap = to_z3(to_real(ac)), to_z3(to_real(ap))
    PSc = lambda s, e: _PSC(tokc, s, e, ac, bidc)
    PSp = lambda t: _PSC(tokp, t, t + 1, ap, bidp)
    _CG = lambda T: _CG3(tokc, tokp, T)
    _CA = lambda T: _CA3(tokc, tokp, T)
    T, s = z3.Ints("T!ct s!ct")
    eng.note_assumption("definition of the spec function CG (optimal total penalised saving per prefix) by its Bellman equations: CG(0)=0, "
                        "CG(T)=max(CG(T-1), CG(T-1)+PSp(T-1), max over s with m<=T-s<=M of CG(s)+PSc(s,T)); CA(T) attains the collective option")
    return z3.And(
        z3.ForAll(tv, _CG(0) == 0, patterns=[_CG(0)]) if allt else _CG(0) == 0,
        # stated over t = T-1, instantiated only where the ghost code names CA(t + 1) (no matching loop through CG(T-1))
        z3.ForAll(tv + [T], z3.Implies(z3.And(0 <= T, T < n), z3.And(_CG(T + 1) >= _CG(T), _CG(T + 1) >= _CG(T) + PSp(T))), patterns=[_CA(T + 1)]),
        z3.ForAll(tv + [T, s], z3.Implies(z3.And(1 <= T, T <= n, 0 <= s, m <= T - s, T - s <= M), _CG(T) >= _CG(s) + PSc(s, T)),
                  patterns=[z3.MultiPattern(PSc(s, T), _CG(T))] if allt else [PSc(s, T)]),
        z3.ForAll(tv + [T], z3.Implies(z3.And(1 <= T, T <= n),
                                       z3.Or(_CG(T) == _CG(T - 1), _CG(T) == _CG(T - 1) + PSp(T - 1),
                                             z3.And(0 <= _CA(T), m <= T - _CA(T), T - _CA(T) <= M, _CG(T) == _CG(_CA(T)) + PSc(_CA(T), T)))),
                  patterns=[_CA(T)]),
    )


@spec("CAPA_SUBADD")
def _capa_subadd(eng, st, tokc, ac, bidc, P, m, M, n):
    """Penalised sub-additivity under splitting: PSc(a,c) <= PSc(a,b) + PSc(b,c) + P (P = alpha + sum of betas), side condition of C03."""
    allt = isinstance(tokc, str) and tokc == "all"
    tokc = z3.Int("tokc!cs") if allt else to_z3(tokc)
    bidc, m, M, n = [to_z3(x) for x in (bidc, m, M, n)]
    ac, P = to_z3(to_real(ac)), to_z3(to_real(P))
    PSc = lambda s, e: _PSC(tokc, s, e, ac, bidc)
    a, b, c = z3.Ints("a!cs b!cs c!cs")
    return z3.ForAll(([tokc] if allt else []) + [a, b, c], z3.Implies(z3.And(0 <= a, a + m <= b, b + m <= c, c <= n, c - a <= M), PSc(a, c) <= PSc(a, b) + PSc(b, c) + P),
                     patterns=[z3.MultiPattern(PSc(a, b), PSc(b, c))])


@spec("vsum")
def _vsum(eng, st, a):
    """sum of a 1-D array, the same term the engine uses for a.sum() / np.sum(a)."""
    return eng.np_sum(st, [a], {}, None)

_HASNAN = {}


@spec("HASNAN")
def _hasnan(eng, st, a):
    """uninterpreted: the frame / array contains a missing value"""
    if a.fn is None:
        a2 = eng.materialise(st, a, "nanarg")
        a.fn = a2.fn
    return z3.Bool("HASNAN_" + a.fn.name())

_MWTHR = z3.Function("MWTHR", _I, _I, _I, _R, _R)
SPEC_FUNCS["MWTHR"] = lambda eng, st, n, p, b, level: _MWTHR(to_z3(n), to_z3(p), to_z3(b), to_z3(to_real(level)))
_QUANT = z3.Function("QUANTILE", _I, _R, _R)      # np.quantile(scores-array id, q)
SPEC_FUNCS["QUANTILE"] = lambda eng, st, aid, q: _QUANT(to_z3(aid), to_z3(to_real(q)))
# MWQ(tok, bandwidth, n, q): the q-quantile of the moving-window scores (C08's definition) of the fit `tok` on n rows
_MWQ = z3.Function("MWQ", _I, _I, _I, _R, _R)
SPEC_FUNCS["MWQ"] = lambda eng, st, tok, b, n, q: _MWQ(to_z3(tok), to_z3(b), to_z3(n), to_z3(to_real(q)))


@spec("AX_mwq")
def _ax_mwq(eng, st, a, tok, b, n, q):
    """Definition of MWQ as an axiom instance: if a has n entries and a[t] is the moving-window score at t (column-summed change score of
    the cut (t-b, t, t+b) for b <= t <= n-b, 0 elsewhere) then QUANTILE(a, q) == MWQ(tok, b, n, q).  Premises are obligations of each use;
    what is assumed is that np.quantile depends on the values of its array only."""
    from pyvc.state import fresh_int
    t = fresh_int("t")
    tokz, bz, nz = to_z3(tok), to_z3(b), to_z3(n)
    at = to_z3(to_real(a.get(t)))
    want = z3.If(z3.And(bz <= t, t <= nz - bz), _AGG[3](tokz, t - bz, t, t + bz), z3.RealVal(0))
    prem = [to_z3(a.shape[0]) == nz,
            z3.ForAll([t], z3.Implies(z3.And(0 <= t, t < nz), at == want), patterns=[at])]
    concl = _QUANT(to_z3(SPEC_FUNCS["arrid"](eng, st, a)), to_z3(to_real(q))) == _MWQ(tokz, bz, nz, to_z3(to_real(q)))
    eng.note_assumption("definition of MWQ: the quantile of the moving-window scores; np.quantile depends only on the values of its array "
                        "(axiom AX_mwq; premises proved per use)")
    return LemmaInst("AX_mwq", prem, concl)


LEMMA_PROOFS["AX_mwq"] = lambda: []


# ----------------------------------------------------------------------------- affected components (C16)
# SORTV(tok,s,e,r): the r-th largest value of the saving row SC2(tok,s,e,.) (non-increasing rearrangement);
# CUMPEN(tok,s,e,alpha,bid,k): cumulative penalised saving of the k+1 largest components: sum_{r<=k}(SORTV(r) - beta_r) - alpha.
_SORTV = z3.Function("SORTV", _I, _I, _I, _I, _R)
_CUMPEN = z3.Function("CUMPEN", _I, _I, _I, _R, _I, _I, _R)
SPEC_FUNCS["SORTV"] = lambda eng, st, tok, s, e, r: _SORTV(to_z3(tok), to_z3(s), to_z3(e), to_z3(r))
SPEC_FUNCS["CUMPEN"] = lambda eng, st, tok, s, e, alpha, bid, k: _CUMPEN(to_z3(tok), to_z3(s), to_z3(e), to_z3(to_real(alpha)), to_z3(bid), to_z3(k))


@spec("AX_sorted_unique")
def _ax_sorted_unique(eng, st, tok, s, e, order, q):
    """Axiom (no machine proof here): if `order` maps 0..q-1 injectively into 0..q-1 and lists the row SC2(tok,s,e,.) in non-increasing
    order, then SC2(tok,s,e,order[r]) == SORTV(tok,s,e,r) -- the non-increasing rearrangement of a finite sequence is unique.
    The premises are side obligations of every instance."""
    from pyvc.state import fresh_int
    r, r2 = fresh_int("r"), fresh_int("r")
    tok, s, e, q = to_z3(tok), to_z3(s), to_z3(e), to_z3(q)
    o = lambda x: to_z3(order.get(x))
    V = lambda c: _SC[2](tok, s, e, c)
    prem = [
        z3.ForAll([r], z3.Implies(z3.And(0 <= r, r < q), z3.And(0 <= o(r), o(r) < q)), patterns=[o(r)]),
        z3.ForAll([r, r2], z3.Implies(z3.And(0 <= r, r < r2, r2 < q), o(r) != o(r2)), patterns=[z3.MultiPattern(o(r), o(r2))]),
        z3.ForAll([r, r2], z3.Implies(z3.And(0 <= r, r <= r2, r2 < q), V(o(r)) >= V(o(r2))), patterns=[z3.MultiPattern(o(r), o(r2))]),
    ]
    concl = z3.ForAll([r], z3.Implies(z3.And(0 <= r, r < q), V(o(r)) == _SORTV(tok, s, e, r)), patterns=[_SORTV(tok, s, e, r), o(r)])
    eng.note_assumption("mathematics (axiom AX_sorted_unique, not machine-proved): the non-increasing rearrangement of a finite sequence is unique, "
                        "so any injective sorting order yields SORTV; the premises (range, injective, sorted) are proved at each use")
    return LemmaInst("AX_sorted_unique", prem, concl)


LEMMA_PROOFS["AX_sorted_unique"] = lambda: []     # axiom: nothing to discharge, listed among the assumptions


# BETA(bid, j): the j-th element of the penalty-increment sequence named `bid`. arrid(a) names the array a (BETA(arrid(a), j) == a[j]);
# PEN_BID(kind, n, p, k, scale) names the betas of the built-in penalty `kind` (0 dense, 1 sparse, 2 intermediate, 3 combined) by closed form.
_BETA = z3.Function("BETA", _I, _I, _R)
_PEN_BID = z3.Function("PEN_BID", _I, _I, _I, _I, _R, _I)
SPEC_FUNCS["BETA"] = lambda eng, st, bid, j: _BETA(to_z3(bid), to_z3(j))
SPEC_FUNCS["PEN_BID"] = lambda eng, st, kind, n, p, k, scale: _PEN_BID(to_z3(kind), to_z3(n), to_z3(p), to_z3(k), to_z3(to_real(scale)))


def _cumpen_rec(tokz, sz, ez, al, bid, qz):
    k = z3.Int(fresh_name("k"))
    C = lambda kk: _CUMPEN(tokz, sz, ez, al, bid, kk)
    S = lambda rr: _SORTV(tokz, sz, ez, rr)
    return [C(0) == S(0) - _BETA(bid, 0) - al,
            z3.ForAll([k], z3.Implies(z3.And(0 <= k, k + 1 < qz), C(k + 1) == C(k) + S(k + 1) - _BETA(bid, k + 1)), patterns=[C(k + 1)])]


@spec("ARRID_DEF")
def _arrid_def(eng, st, a):
    """Definition of the name arrid(a): BETA(arrid(a), j) == a[j]."""
    j = z3.Int(fresh_name("j"))
    bid = _arrid(eng, st, a)
    st.assume(z3.ForAll([j], z3.Implies(z3.And(0 <= j, j < to_z3(a.shape[0])), _BETA(bid, j) == to_z3(to_real(a.get(j)))), patterns=[_BETA(bid, j)]))
    eng.note_assumption("definition: arrid(a) names the sequence of the array a (BETA(arrid(a), j) == a[j])")
    return True


@spec("CUMPEN_DEF")
def _cumpen_def(eng, st, tok, s, e, alpha, betas, q):
    """Definition of CUMPEN by its recurrence (instance for this row and the sequence named arrid(betas))."""
    _arrid_def(eng, st, betas)
    for f in _cumpen_rec(to_z3(tok), to_z3(s), to_z3(e), to_z3(to_real(alpha)), _arrid(eng, st, betas), to_z3(q)):
        st.assume(f)
    eng.note_assumption("definition of the spec function CUMPEN (cumulative penalised saving of the k+1 largest components) by its recurrence")
    return True


def _pen_closed(kind, n, p, k, scale, j):
    """Closed form of beta_j of the built-in penalties (the proved / assumed post-conditions of the *_mvcapa_penalty functions)."""
    n, p, k, j = z3.ToReal(n) if False else n, p, k, j
    kp = z3.ToReal(k * p)
    lg = _LOG(z3.ToReal(n))
    dense = scale * (kp + 2 * _SQRT(kp * lg) + 2 * lg)
    sparse = lambda q: 2 * scale * lg + z3.ToReal(q) * (2 * scale * _LOG(kp))
    inter = lambda q: _ICUM(n, p, k, scale, q)
    mn = lambda a, b: z3.If(a <= b, a, b)
    min3 = lambda q: z3.If(q == 0, z3.RealVal(0), mn(mn(dense, sparse(q)), inter(q)))
    return {0: z3.RealVal(0), 1: 2 * scale * _LOG(kp), 2: inter(j + 1) - inter(j), 3: min3(j + 1) - min3(j)}[kind]


@spec("PEN_BID_DEF")
def _pen_bid_def(eng, st, kind, n, p, k, scale):
    """Definition of the named sequence PEN_BID(kind, n, p, k, scale) by the closed form of the built-in penalty's betas."""
    j = z3.Int(fresh_name("j"))
    n, p, k, scale = to_z3(n), to_z3(p), to_z3(k), to_z3(to_real(scale))
    bid = _PEN_BID(z3.IntVal(kind), n, p, k, scale)
    st.assume(z3.ForAll([j], z3.Implies(z3.And(0 <= j, j < p), _BETA(bid, j) == _pen_closed(kind, n, p, k, scale, j)), patterns=[_BETA(bid, j)]))
    eng.note_assumption("definition: PEN_BID(kind, n, p, k, scale) names the closed-form beta sequence of the built-in MVCAPA penalty `kind`")
    return True


@spec("L_cumpen_ext")
def _l_cumpen_ext(eng, st, tok, s, e, alpha, bid1, bid2, q):
    """CUMPEN depends on the named beta sequence only through its first q values (proved by induction in LEMMA_PROOFS)."""
    j, k = z3.Int(fresh_name("j")), z3.Int(fresh_name("k"))
    tokz, sz, ez, al, b1, b2, qz = to_z3(tok), to_z3(s), to_z3(e), to_z3(to_real(alpha)), to_z3(bid1), to_z3(bid2), to_z3(q)
    prem = [qz >= 1, z3.ForAll([j], z3.Implies(z3.And(0 <= j, j < qz), _BETA(b1, j) == _BETA(b2, j)), patterns=[_BETA(b1, j)])]
    concl = z3.ForAll([k], z3.Implies(z3.And(0 <= k, k < qz), _CUMPEN(tokz, sz, ez, al, b1, k) == _CUMPEN(tokz, sz, ez, al, b2, k)),
                      patterns=[_CUMPEN(tokz, sz, ez, al, b1, k), _CUMPEN(tokz, sz, ez, al, b2, k)])
    return LemmaInst("L_cumpen_ext", prem, concl)


def _cumpen_ext_proof():
    tok, s, e, b1, b2, q, i, j = z3.Ints("tok!E s!E e!E b1!E b2!E q!E i!E j!E")
    al = z3.Real("al!E")
    hyp = _cumpen_rec(tok, s, e, al, b1, q) + _cumpen_rec(tok, s, e, al, b2, q) + [
        q >= 1, z3.ForAll([j], z3.Implies(z3.And(0 <= j, j < q), _BETA(b1, j) == _BETA(b2, j)), patterns=[_BETA(b1, j)])]
    C = lambda b, k: _CUMPEN(tok, s, e, al, b, k)
    return [(".base", hyp, C(b1, 0) == C(b2, 0)),
            (".step", hyp + [0 <= i, i + 1 < q, C(b1, i) == C(b2, i)], C(b1, i + 1) == C(b2, i + 1))]


LEMMA_PROOFS["L_cumpen_ext"] = _cumpen_ext_proof


# ----------------------------------------------------------------------------- C12: relational (symmetry) lemmas over the data spec functions
# The scorer contracts state "evaluate == f(SUM, SSQ, RSS of the fitted rows)". The lemmas below relate those spec functions for two data
# arrays X and Y = T(X) (shift / positive scale / column permutation / time reversal), by explicit induction over the recursive definitions
# (ground instances), plus the algebraic consequences for RSS, the squared CUSUM and the Gaussian cost. Together with the contracts they give
# the scorer-level part of C12; the detector-level part (search kernels consume only these values) stays with the bounded tier.
def _sym_syms():
    X = z3.Function("X!S", _I, _I, _R)
    Y = z3.Function("Y!S", _I, _I, _R)
    F = {nm: z3.Function(nm + "!S", _I, _I, _I, _R) for nm in ("SUMX", "SSQX", "SUMY", "SSQY")}
    return X, Y, F


def _sym_defs(F, A, tag, col, s, e_):
    """ground instances of the recursive definitions of SUM/SSQ of array A (tag 'X' | 'Y') for column `col` at (s, e_)"""
    SUM, SSQ = F["SUM" + tag], F["SSQ" + tag]
    return [SUM(col, s, s) == 0, SSQ(col, s, s) == 0,
            z3.Implies(e_ >= s, z3.And(SUM(col, s, e_ + 1) == SUM(col, s, e_) + A(e_, col), SSQ(col, s, e_ + 1) == SSQ(col, s, e_) + A(e_, col) * A(e_, col)))]


def _sym_shift_proof():
    X, Y, F = _sym_syms()
    c = z3.Function("c!S", _I, _R)
    j, s, e = z3.Ints("j!S s!S e!S")
    rel = lambda i: Y(i, j) == X(i, j) + c(j)
    P = lambda e_: z3.And(F["SUMY"](j, s, e_) == F["SUMX"](j, s, e_) + z3.ToReal(e_ - s) * c(j),
                          F["SSQY"](j, s, e_) == F["SSQX"](j, s, e_) + 2 * c(j) * F["SUMX"](j, s, e_) + z3.ToReal(e_ - s) * c(j) * c(j))
    a, b, a2, b2, m, cc, r, r2, d = z3.Reals("a!S b!S a2!S b2!S m!S cc!S r!S r2!S d!S")
    return [
        (".base", _sym_defs(F, X, "X", j, s, s) + _sym_defs(F, Y, "Y", j, s, s), P(s)),
        (".step", [s <= e, rel(e), P(e)] + _sym_defs(F, X, "X", j, s, e) + _sym_defs(F, Y, "Y", j, s, e), P(e + 1)),
        # RSS = SSQ - SUM^2/m is unchanged (L2 cost, change score, saving at the optimal mean, Gaussian variance estimate)
        (".rss", [m > 0, a2 == a + 2 * cc * b + m * cc * cc, b2 == b + m * cc], a2 - b2 * b2 / m == a - b * b / m),
        # CUSUM: the non-negative score with the given square is unique, so it is unchanged when its square (an RSS difference) is
        (".cusum", [r >= 0, r2 >= 0, r * r == d, r2 * r2 == d], r == r2),
    ]


def _sym_scale_proof():
    X, Y, F = _sym_syms()
    j, s, e = z3.Ints("j!S s!S e!S")
    k = z3.Real("k!S")
    rel = lambda i: Y(i, j) == k * X(i, j)
    P = lambda e_: z3.And(F["SUMY"](j, s, e_) == k * F["SUMX"](j, s, e_), F["SSQY"](j, s, e_) == k * k * F["SSQX"](j, s, e_))
    a, b, a2, b2, m, m1, m2, v, v1, v2, L, L0, L1, L2, M0, M1, M2 = z3.Reals("a!S b!S a2!S b2!S m!S m1!S m2!S v!S v1!S v2!S L!S L0!S L1!S L2!S M0!S M1!S M2!S")
    return [
        (".base", _sym_defs(F, X, "X", j, s, s) + _sym_defs(F, Y, "Y", j, s, s), P(s)),
        (".step", [s <= e, rel(e), P(e)] + _sym_defs(F, X, "X", j, s, e) + _sym_defs(F, Y, "Y", j, s, e), P(e + 1)),
        (".rss", [m > 0, a2 == k * k * a, b2 == k * b], a2 - b2 * b2 / m == k * k * (a - b * b / m)),
        # Gaussian cost m*LOG(2 pi var) + m with var scaled by k^2 (no flooring): each cost moves by m*LOG(k^2) (L = LOG(k^2); Li / Mi are the
        # logarithms before / after, related by the product axiom of LOG: instances AX_LOG_mul), so the change score (m = m1 + m2) is unchanged
        (".gauss_cost", [M0 == L + L0], m * M0 + m == (m * L0 + m) + m * L),
        (".gauss_change_score", [m == m1 + m2, M0 == L + L0, M1 == L + L1, M2 == L + L2],
         (m * M0 + m) - (m1 * M1 + m1) - (m2 * M2 + m2) == (m * L0 + m) - (m1 * L1 + m1) - (m2 * L2 + m2)),
    ]


def _sym_perm_proof():
    X, Y, F = _sym_syms()
    pi = z3.Function("pi!S", _I, _I)
    j, s, e = z3.Ints("j!S s!S e!S")
    rel = lambda i: Y(i, j) == X(i, pi(j))
    P = lambda e_: z3.And(F["SUMY"](j, s, e_) == F["SUMX"](pi(j), s, e_), F["SSQY"](j, s, e_) == F["SSQX"](pi(j), s, e_))
    return [
        (".base", _sym_defs(F, X, "X", pi(j), s, s) + _sym_defs(F, Y, "Y", j, s, s), P(s)),
        (".step", [s <= e, rel(e), P(e)] + _sym_defs(F, X, "X", pi(j), s, e) + _sym_defs(F, Y, "Y", j, s, e), P(e + 1)),
    ]


def _sym_rev_proof():
    X, Y, F = _sym_syms()
    j, s, e, n = z3.Ints("j!S s!S e!S n!S")
    rel = lambda i: Y(i, j) == X(n - 1 - i, j)
    P = lambda e_: z3.And(F["SUMY"](j, s, e_) == F["SUMX"](j, n - e_, n - s), F["SSQY"](j, s, e_) == F["SSQX"](j, n - e_, n - s))
    a = n - e - 1
    # instance of the proved lemma L_add for X: split [a, n-s) at a+1; and the definition at (a, a): SUM(a, a+1) == X(a)
    add = [F["SUMX"](j, a, n - s) == F["SUMX"](j, a, a + 1) + F["SUMX"](j, a + 1, n - s),
           F["SSQX"](j, a, n - s) == F["SSQX"](j, a, a + 1) + F["SSQX"](j, a + 1, n - s)]
    return [
        (".base", _sym_defs(F, X, "X", j, n - s, n - s) + _sym_defs(F, Y, "Y", j, s, s), P(s)),
        (".step", [0 <= s, s <= e, e < n, rel(e), P(e)] + add + _sym_defs(F, X, "X", j, a, a) + _sym_defs(F, Y, "Y", j, s, e), P(e + 1)),
    ]


LEMMA_PROOFS["L_sym_shift"] = _sym_shift_proof
LEMMA_PROOFS["L_sym_scale"] = _sym_scale_proof
LEMMA_PROOFS["L_sym_perm"] = _sym_perm_proof
LEMMA_PROOFS["L_sym_rev"] = _sym_rev_proof


# ----------------------------------------------------------------------------- Gaussian covariance cost (C01, C13)
# LOGDETCOV(X[s:e]) = log det of the (ddof=0) sample covariance of the rows s..e-1; COVPD(X[s:e]) = that covariance is positive definite.
# Both are uninterpreted functions of (data array, s, e): np.cov / np.linalg.slogdet are outside the verifier's reach (assumed contract of
# log_det_covariance); a row slice of a row slice resolves to the root array, so "depends only on the rows s..e-1" is built into the key.
_LDC = z3.Function("LOGDETCOV", _I, _I, _I, _R)
_CPD = z3.Function("COVPD", _I, _I, _I, z3.BoolSort())


def _seg_key(eng, st, X):
    lo, n = 0, X.shape[0]          # the rows [lo, lo + n) of the root array
    while getattr(X, "row_slice_of", None) is not None:
        base, off, _length = X.row_slice_of
        lo, X = num_add(lo, off), base
    return _data_id(eng, st, X), to_z3(lo), to_z3(num_add(lo, n))


def _data_id(eng, st, X):
    if X.fn is None:
        X2 = eng.materialise(st, X, "data")
        X.fn = X2.fn
    return z3.Int("ID_" + X.fn.name())


@spec("LOGDETCOV")
def _logdetcov(eng, st, X, *se):
    if se:
        return _LDC(_data_id(eng, st, X), to_z3(se[0]), to_z3(se[1]))
    return _LDC(*_seg_key(eng, st, X))


@spec("COVPD")
def _covpd(eng, st, X, *se):
    if se:
        return _CPD(_data_id(eng, st, X), to_z3(se[0]), to_z3(se[1]))
    return _CPD(*_seg_key(eng, st, X))


# ----------------------------------------------------------------------------- telescoping along a returned chain (C02: total cost of the segmentation)
# SEGTOT(tok, cid, n, beta, q): penalised cost of the first q segments of the segmentation 0 = t_0 < t_1 = cps[0] < ... < t_K = cps[K-1] < t_{K+1} = n
# named cid: SEGTOT(0) = 0, SEGTOT(q+1) = SEGTOT(q) + AGG2(tok, t_q, t_{q+1}) + beta.
_SEGTOT = z3.Function("SEGTOT", _I, _I, _I, _R, _I, _R)
SPEC_FUNCS["SEGTOT"] = lambda eng, st, tok, cps, n, beta, q: _SEGTOT(to_z3(tok), _arrid(eng, st, cps), to_z3(n), to_z3(to_real(beta)), to_z3(q))


@spec("SEGTOT_DEF")
def _segtot_def(eng, st, tok, cps, n, beta):
    """Definition of SEGTOT by its recurrence for the chain `cps` (instance)."""
    q = z3.Int(fresh_name("q"))
    K = to_z3(cps.shape[0])
    tokz, nz, bz, cid = to_z3(tok), to_z3(n), to_z3(to_real(beta)), _arrid(eng, st, cps)
    S = lambda x: _SEGTOT(tokz, cid, nz, bz, x)
    t = lambda x: z3.If(x == 0, z3.IntVal(0), z3.If(x <= K, to_z3(cps.get(x - 1)), nz))
    f = z3.ForAll([q], z3.Implies(z3.And(0 <= q, q <= K), S(q + 1) == S(q) + _AGG[2](tokz, t(q), t(q + 1)) + bz), patterns=[S(q + 1)])
    eng.note_assumption("definition of the spec function SEGTOT (penalised cost of the first q segments of the returned segmentation) by its recurrence")
    st.assume(S(0) == 0)
    st.assume(f)
    return True


@spec("L_tel")
def _l_tel(eng, st, F, S, k):
    """Telescoping: F[0] == S[0] + k and F[q+1] - F[q] == S[q+1] - S[q] for all q  =>  F[q] == S[q] + k for all q (induction in LEMMA_PROOFS)."""
    q = z3.Int(fresh_name("q"))
    n = to_z3(F.shape[0])
    f = lambda x: to_z3(to_real(F.get(x)))
    s = lambda x: to_z3(to_real(S.get(x)))
    kz = to_z3(to_real(k))
    prem = [f(0) == s(0) + kz,
            z3.ForAll([q], z3.Implies(z3.And(0 <= q, q + 1 < n), f(q + 1) - f(q) == s(q + 1) - s(q)), patterns=[s(q + 1)])]
    concl = z3.ForAll([q], z3.Implies(z3.And(0 <= q, q < n), f(q) == s(q) + kz), patterns=[s(q)])
    return LemmaInst("L_tel", prem, concl)


def _tel_proof():
    F = z3.Function("F!T2", _I, _R)
    S = z3.Function("S!T2", _I, _R)
    n, i, q = z3.Ints("n!T2 i!T2 q!T2")
    k = z3.Real("k!T2")
    hyp = [F(0) == S(0) + k, z3.ForAll([q], z3.Implies(z3.And(0 <= q, q + 1 < n), F(q + 1) - F(q) == S(q + 1) - S(q)), patterns=[S(q + 1)])]
    return [(".base", hyp, F(0) == S(0) + k), (".step", hyp + [0 <= i, i + 1 < n, F(i) == S(i) + k], F(i + 1) == S(i + 1) + k)]


LEMMA_PROOFS["L_tel"] = _tel_proof


@spec("L_chain")
def _l_chain(eng, st, F):
    """Consecutive order implies pairwise order: F[q] < F[q+1] for all q  =>  F[q] < F[r] for all q < r (induction on r in LEMMA_PROOFS).
    F is an int array or an int list (the changepoints of a sparse frame)."""
    q, r = z3.Int(fresh_name("q")), z3.Int(fresh_name("r"))
    n = to_z3(F.length if isinstance(F, Lst) else F.shape[0])
    f = lambda x: to_z3(F.get(x))
    prem = [z3.ForAll([q], z3.Implies(z3.And(0 <= q, q + 1 < n), f(q) < f(q + 1)), patterns=[f(q + 1)])]
    concl = z3.ForAll([q, r], z3.Implies(z3.And(0 <= q, q < r, r < n), f(q) < f(r)), patterns=[z3.MultiPattern(f(q), f(r))])
    return LemmaInst("L_chain", prem, concl)


def _chain_proof():
    F = z3.Function("F!CH", _I, _I)
    n, q, r, i = z3.Ints("n!CH q!CH r!CH i!CH")
    hyp = [z3.ForAll([i], z3.Implies(z3.And(0 <= i, i + 1 < n), F(i) < F(i + 1)), patterns=[F(i + 1)]), 0 <= q]
    return [(".base", hyp + [q + 1 < n], F(q) < F(q + 1)),
            (".step", hyp + [q < r, r + 1 < n, F(q) < F(r)], F(q) < F(r + 1))]


LEMMA_PROOFS["L_chain"] = _chain_proof


# ----------------------------------------------------------------------------- sums over lists built by append (C03: re-evaluating the reported anomalies)
# LSUM(name, lst, k, g) = sum_{q<k} g(lst[q]), defined by recurrence over k for the list object `lst` (named by a fresh identity constant):
#   S(id, 0) = 0,  S(id, q+1) = S(id, q) + g(lst[q]).
# For a list made by `old.append(x)` the proved extensionality lemma L_lsum_ext (equal elements on a prefix => equal partial sums) is added as a
# fact: S(id_new, k) == S(id_old, k) for k <= len(old); its premise holds by construction (new[q] IS old[q] for q < len(old)).
_LSUM = {}


def _list_id(lst):
    if getattr(lst, "lid", None) is None:
        lst.lid = z3.Int(fresh_name("LID"))
    return lst.lid


@spec("LSUM")
def _lsum(eng, st, name, lst, k, g):
    if not isinstance(lst, Lst):
        raise EngineError("LSUM needs a list")
    S = _LSUM.setdefault(name, z3.Function("LSUM_" + name, _I, _I, _R))

    def ensure(l):
        lid = _list_id(l)
        tag = f"lsum:{name}:{lid}"
        if tag in st.ghost_fns:
            return lid
        st.ghost_fns[tag] = True
        # only the instances of the defining recurrence that the proofs need are handed to the solver (a quantified recurrence with the trigger
        # S(id, q+1) re-triggers on its own right-hand side): S(id, 0) = 0, and at each append the step q = len(old)
        st.assume(S(lid, 0) == 0)
        eng.note_assumption(f"definition of the spec function LSUM_{name} (sum of the gains of the first k list elements) by its recurrence "
                            "S(id,0)=0, S(id,q+1)=S(id,q)+g(lst[q]); instances: q = len(old) at each append")
        h = getattr(l, "hist", None)
        if h is not None and h[0] == "append":
            old = h[1]
            oid = ensure(old)
            n_old = old.length
            gain = to_z3(to_real(eng.call_lambda(st, g, [l.get(n_old)])))
            st.assume(S(lid, to_z3(n_old) + 1) == S(lid, to_z3(n_old)) + gain)
            kk = z3.Int(fresh_name("k"))
            st.assume(z3.ForAll([kk], z3.Implies(z3.And(0 <= kk, kk <= to_z3(old.length)), S(lid, kk) == S(oid, kk)),
                                patterns=[S(lid, kk), S(oid, kk)]))
            eng.used_lemmas.add("L_lsum_ext")
        return lid

    return S(ensure(lst), to_z3(k))


def _lsum_ext_proof():
    G1 = z3.Function("G1!X", _I, _R)
    G2 = z3.Function("G2!X", _I, _R)
    S1 = z3.Function("S1!X", _I, _R)
    S2 = z3.Function("S2!X", _I, _R)
    m, i, q = z3.Ints("m!X i!X q!X")
    hyp = [S1(0) == 0, S2(0) == 0,
           z3.ForAll([q], z3.Implies(0 <= q, S1(q + 1) == S1(q) + G1(q)), patterns=[S1(q + 1)]),
           z3.ForAll([q], z3.Implies(0 <= q, S2(q + 1) == S2(q) + G2(q)), patterns=[S2(q + 1)]),
           z3.ForAll([q], z3.Implies(z3.And(0 <= q, q < m), G1(q) == G2(q)), patterns=[G1(q)])]
    return [(".base", hyp, S1(0) == S2(0)), (".step", hyp + [0 <= i, i + 1 <= m, S1(i) == S2(i)], S1(i + 1) == S2(i + 1))]


LEMMA_PROOFS["L_lsum_ext"] = _lsum_ext_proof


# ----------------------------------------------------------------------------- data-keyed fit tokens (LocalAnomalyScore: cost of pooled rows)
# FITTOK(kind, data): the token of a fit of the cost configuration `kind` on the data named `data` (evaluate is a function of the last fit's
# configuration and data). POOLID(data, a, b, c, d) names the array made of the rows [a, b) followed by the rows [c, d) of `data`.
_FITTOK = z3.Function("FITTOK", _I, _I, _I)
_POOLID = z3.Function("POOLID", _I, _I, _I, _I, _I, _I)
SPEC_FUNCS["FITTOK"] = lambda eng, st, kind, data: _FITTOK(to_z3(kind), to_z3(data))
SPEC_FUNCS["POOLID"] = lambda eng, st, data, a, b, c, d: _POOLID(to_z3(data), to_z3(a), to_z3(b), to_z3(c), to_z3(d))
SPEC_FUNCS["DATAID"] = lambda eng, st, X: _data_id(eng, st, X)


@spec("POOL_NAMED")
def _pool_named(eng, st, arr, X, a, b, c, d):
    """Naming of a pooled array: its identity is POOLID(DATAID(X), a, b, c, d). Sound as a definition because the contents of `arr` are a function of
    (X, a, b, c, d) -- which the accompanying ghost assert proves elementwise."""
    eng.note_assumption("definition: an array proved to consist of the rows [a,b) and [c,d) of X is named POOLID(DATAID(X), a, b, c, d)")
    return _data_id(eng, st, arr) == _POOLID(_data_id(eng, st, X), to_z3(a), to_z3(b), to_z3(c), to_z3(d))
_QOF = z3.Function("QOF", _I, _I, _I)
SPEC_FUNCS["QOF"] = lambda eng, st, kind, p: _QOF(to_z3(kind), to_z3(p))      # number of output columns of configuration `kind` on p-column data


# ----------------------------------------------------------------------------- skolem witnesses attached to a returned list
# WIT(name, lst, r): an integer witness for the r-th element of the list `lst` (an uninterpreted function of the list identity and r). A post
# "forall r: P(r, WIT(name, result, r))" is the skolemised form of "forall r: exists a: P(r, a)"; inside the function WIT_DEF *defines* the fresh
# function on this list by the ghost array that holds the witnesses (a conservative definition: nothing else constrains WIT_name on this list).
_WIT = {}


@spec("WIT")
def _wit(eng, st, name, lst, r):
    f = _WIT.setdefault(name, z3.Function("WIT_" + name, _I, _I, _I))
    return f(_list_id(lst), to_z3(r))


@spec("WIT_DEF")
def _wit_def(eng, st, name, lst, arr):
    f = _WIT.setdefault(name, z3.Function("WIT_" + name, _I, _I, _I))
    r = z3.Int(fresh_name("r"))
    lid = _list_id(lst)
    eng.note_assumption(f"definition: the skolem witness function WIT_{name} of the returned list is the ghost array of witnesses (skolemised existential)")
    return z3.ForAll([r], z3.Implies(z3.And(0 <= r, r < to_z3(lst.length)), f(lid, r) == to_z3(arr.get(r))), patterns=[f(lid, r)])


# ----------------------------------------------------------------------------- MVCAPA: re-evaluation under the named (closed-form) penalties
@spec("AX_psc_ext")
def _ax_psc_ext(eng, st, tok, alpha, bid1, bid2, p):
    """Axiom (part of the definition of the assumed PSC): the penalised saving depends on the per-component penalties only through their values
    BETA(bid, j), j < p. Premise (proved at each use): the two named sequences agree on [0, p)."""
    j, s_, e_ = z3.Int(fresh_name("j")), z3.Int(fresh_name("s")), z3.Int(fresh_name("e"))
    tokz, al, b1, b2, pz = to_z3(tok), to_z3(to_real(alpha)), to_z3(bid1), to_z3(bid2), to_z3(p)
    prem = [z3.ForAll([j], z3.Implies(z3.And(0 <= j, j < pz), _BETA(b1, j) == _BETA(b2, j)), patterns=[_BETA(b1, j)])]
    concl = z3.ForAll([s_, e_], _PSC(tokz, s_, e_, al, b1) == _PSC(tokz, s_, e_, al, b2), patterns=[_PSC(tokz, s_, e_, al, b1), _PSC(tokz, s_, e_, al, b2)])
    eng.note_assumption("definition of the assumed PSC: it depends on the per-component penalties only through their values (axiom AX_psc_ext; premise proved per use)")
    return LemmaInst("AX_psc_ext", prem, concl)


LEMMA_PROOFS["AX_psc_ext"] = lambda: []


@spec("LSUM_EXT")
def _lsum_ext_inst(eng, st, name, l1, g1, l2, g2):
    """Instance of L_lsum_ext for two list objects: equal length and equal gains elementwise => equal partial sums."""
    S = _LSUM.setdefault(name, z3.Function("LSUM_" + name, _I, _I, _R))
    q, k = z3.Int(fresh_name("q")), z3.Int(fresh_name("k"))
    id1, id2 = _list_id(l1), _list_id(l2)
    ga = to_z3(to_real(eng.call_lambda(st, g1, [l1.get(q)])))
    gb = to_z3(to_real(eng.call_lambda(st, g2, [l2.get(q)])))
    n1 = to_z3(l1.length)
    prem = [n1 == to_z3(l2.length), z3.ForAll([q], z3.Implies(z3.And(0 <= q, q < n1), ga == gb))]
    concl = z3.ForAll([k], z3.Implies(z3.And(0 <= k, k <= n1), S(id1, k) == S(id2, k)), patterns=[S(id1, k), S(id2, k)])
    eng.used_lemmas.add("L_lsum_ext")
    return LemmaInst("L_lsum_ext", prem, concl)


# ----------------------------------------------------------------------------- C07 / C09: raising the threshold can only remove detections
# A lemma over the posts of the greedy selections. Two runs on the same scores table with thresholds t1 <= t2; run i makes K_i picks, w_i(tau) is the
# interval / candidate picked at time tau (the skolem witness of the post in pick-time order), HIT(b, a): pick a removes interval b (b contains a's
# maximiser / overlaps a's inner interval). Hypotheses = the posts `greedy` (score above threshold, alive when picked, at least as high as every
# alive interval, strictly higher than alive ones of smaller index) and `exhaustive` of both runs and HIT(a, a) (requires). By strong induction on
# the pick time: run 2's pick tau exists in run 1 and is the same pick - so run 2's picks are a prefix of run 1's.
def _greedy_mono_proof():
    sc = z3.Function("sc!G", _I, _R)
    HIT = z3.Function("HIT!G", _I, _I, z3.BoolSort())
    w = {i: z3.Function(f"w{i}!G", _I, _I) for i in (1, 2)}
    dead = {i: z3.Function(f"dead{i}!G", _I, _I) for i in (1, 2)}      # least pick time that hits b (K_i if none): b is alive at time q iff dead_i(b) >= q
    K = {i: z3.Int(f"K{i}!G") for i in (1, 2)}
    t = {i: z3.Real(f"t{i}!G") for i in (1, 2)}
    N, tau, tp, b, q = z3.Ints("N!G tau!G tp!G b!G q!G")
    hyps = [t[1] <= t[2], N >= 0, K[1] >= 0, K[2] >= 0]
    for i in (1, 2):
        # definition of dead_i (least hitting time)
        hyps.append(z3.ForAll([b], z3.And(0 <= dead[i](b), dead[i](b) <= K[i], z3.Implies(dead[i](b) < K[i], HIT(b, w[i](dead[i](b))))), patterns=[dead[i](b)]))
        hyps.append(z3.ForAll([b, q], z3.Implies(z3.And(0 <= q, q < K[i], HIT(b, w[i](q))), dead[i](b) <= q), patterns=[HIT(b, w[i](q))]))
        # post `greedy` of run i in pick-time order (alive(b, q) <=> dead_i(b) >= q)
        hyps.append(z3.ForAll([q], z3.Implies(z3.And(0 <= q, q < K[i]), z3.And(0 <= w[i](q), w[i](q) < N, sc(w[i](q)) > t[i], dead[i](w[i](q)) >= q)),
                              patterns=[w[i](q)]))
        hyps.append(z3.ForAll([q, b], z3.Implies(z3.And(0 <= q, q < K[i], 0 <= b, b < N, dead[i](b) >= q),
                                                 z3.And(sc(b) <= sc(w[i](q)), z3.Implies(b < w[i](q), sc(b) < sc(w[i](q))))),
                              patterns=[z3.MultiPattern(w[i](q), dead[i](b))]))
        # post `exhaustive`: an interval scoring above the threshold is hit by some pick
        hyps.append(z3.ForAll([b], z3.Implies(z3.And(0 <= b, b < N, sc(b) > t[i]), dead[i](b) < K[i]), patterns=[dead[i](b)]))
    ih = z3.ForAll([tp], z3.Implies(z3.And(0 <= tp, tp < tau), z3.And(tp < K[1], w[1](tp) == w[2](tp))), patterns=[w[2](tp), w[1](tp)])
    base = hyps + [0 <= tau, tau < K[2], ih]
    a2 = w[2](tau)
    a1 = w[1](tau)
    return [(".exists_in_run1", base, z3.And(dead[1](a2) >= tau, tau < K[1])),
            (".same_pick", base + [dead[1](a2) >= tau, tau < K[1]], z3.And(dead[2](a1) >= tau, a1 == a2))]


LEMMA_PROOFS["L_greedy_mono"] = _greedy_mono_proof


# ----------------------------------------------------------------------------- C15: a larger penalty never increases the number of changepoints PELT reports
# Lemma over the posts of two runs of run_pelt on the same cost with penalties b1 < b2 (same n, m): run i returns K_i changepoints with
# F_i = PF_{b_i}(n) = S_i + b_i K_i, where S_i is the sum of the segment costs of its segmentation (post total_cost with L_segtot_split), and by
# L_bellman F_i <= S_j + b_i K_j for the OTHER run's segmentation (admissible: same n, m). Adding the two inequalities: (b2 - b1)(K2 - K1) <= 0.
def _segtot_split_proof():
    """SEGTOT_b(q) == SSEG(q) + b q: the penalised total of the first q segments is the sum of their costs plus q penalties (induction on q)."""
    T = z3.Function("T!P", _I, _R)       # SEGTOT(q)
    S = z3.Function("S!P", _I, _R)       # sum of the first q segment costs
    c = z3.Function("c!P", _I, _R)       # cost of segment q
    b = z3.Real("b!P")
    q, i = z3.Ints("q!P i!P")
    hyp = [T(0) == 0, S(0) == 0, z3.ForAll([q], z3.Implies(0 <= q, z3.And(T(q + 1) == T(q) + c(q) + b, S(q + 1) == S(q) + c(q))), patterns=[T(q + 1)])]
    return [(".base", hyp, T(0) == S(0) + b * 0), (".step", hyp + [0 <= i, T(i) == S(i) + b * z3.ToReal(i)], T(i + 1) == S(i + 1) + b * z3.ToReal(i + 1))]


def _pelt_pen_mono_proof():
    b1, b2, S1, S2, F1, F2 = z3.Reals("b1!M b2!M S1!M S2!M F1!M F2!M")
    K1, K2 = z3.Ints("K1!M K2!M")
    k1, k2 = z3.ToReal(K1), z3.ToReal(K2)
    hyp = [b1 < b2, K1 >= 0, K2 >= 0,
           F1 == S1 + b1 * k1, F2 == S2 + b2 * k2,          # total_cost of each run (final score == cost of exactly the returned segmentation)
           F1 <= S2 + b1 * k2, F2 <= S1 + b2 * k1]          # L_bellman: the optimum under b_i is at most the cost of the other run's segmentation
    return [("", hyp, K2 <= K1)]


LEMMA_PROOFS["L_segtot_split"] = _segtot_split_proof
LEMMA_PROOFS["L_pelt_pen_mono"] = _pelt_pen_mono_proof
