"""Spec functions, lemmas and assumed external contracts (DESIGN 5 / Appendix C)."""
from __future__ import annotations

import z3

from pyvc.values import (NONE, Arr, FuncRef, Lst, ObjRef, Opaque, Unsupported, fresh_name, is_concrete, mk_and, mk_not,
                         num_cmp, to_real, to_z3)

SPEC_FUNCS = {}
EXTERNALS = {"methods": {}}


def spec(name):
    def deco(f):
        SPEC_FUNCS[name] = f
        return f
    return deco


def external(name):
    def deco(f):
        EXTERNALS[name] = f
        return f
    return deco


def extmethod(name):
    def deco(f):
        EXTERNALS["methods"][name] = f
        return f
    return deco

# ----------------------------------------------------------------------------- transcendental symbols
from pyvc.npmodel import LOG as _LOG, PI as _PI, SQRT as _SQRT

SPEC_CONSTS = {"PI": _PI}


@spec("LOG")
def _log(eng, st, x):
    return _LOG(to_z3(to_real(x)))


@spec("SQRT")
def _sqrt(eng, st, x):
    return _SQRT(to_z3(to_real(x)))


# ----------------------------------------------------------------------------- lemmas (each proved once, used by explicit instances)
from pyvc.symex import LemmaInst

LEMMAS = {}


def lemma(name, sorts):
    """Register a lemma: f(*terms) -> (premises, conclusion). `sorts` gives the parameter sorts for its own proof."""
    def deco(f):
        LEMMAS[name] = (f, sorts)

        def inst(eng, st, *args):
            zargs = [to_z3(to_real(a)) if srt == "real" else to_z3(a) for a, srt in zip(args, sorts)]
            prem, concl = f(*zargs)
            return LemmaInst(name, prem, concl)

        SPEC_FUNCS[name] = inst
        return f
    return deco


def lemma_obligations(name):
    """[(label, hyps, goal)] proving the lemma (a lemma may define its own multi-step proof via LEMMA_PROOFS)."""
    if name in LEMMA_PROOFS:
        return LEMMA_PROOFS[name]()
    prem, concl = lemma_obligation(name)
    return [("", prem, concl)]


LEMMA_PROOFS = {}


def lemma_obligation(name):
    """(hyps, goal) of the lemma itself over fresh constants."""
    f, sorts = LEMMAS[name]
    consts = [z3.Real(f"{name}_a{i}") if srt == "real" else z3.Int(f"{name}_a{i}") for i, srt in enumerate(sorts)]
    prem, concl = f(*consts)
    return prem, concl


@lemma("L_cusum", ["real"] * 6)
def _l_cusum(a, b, x, y, A, B):
    """Squared CUSUM == L2 change score in prefix-sum form (pure real algebra)."""
    n = a + b
    prem = [a > 0, b > 0, x >= 0, y >= 0, x * x == b / (n * a), y * y == a / (n * b)]
    concl = (x * A - y * B) * (x * A - y * B) == A * A / a + B * B / b - (A + B) * (A + B) / n
    return prem, concl
