"""Extra property tags: the per-column value posts of the scorers are the proved part that C12 (symmetries) rests on
(per-column outputs are functions of (column, cut); a change that makes a scorer depend on anything else breaks them)."""
from pyvc.contracts import REGISTRY

for target, lst in REGISTRY.items():
    if target.startswith(("skchange/costs/", "skchange/change_scores/", "skchange/anomaly_scores/", "skchange/base/base_interval_scorer.py",
                          "skchange/utils/numba/stats.py")):
        for c in lst:
            if not c.assumed and "C12" not in c.props:
                c.props = list(c.props) + ["C12"]
