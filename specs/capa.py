"""Contracts of the CAPA kernels (C03, C04): optimise_savings / penalise_savings against the penalised-saving spec PSC,
get_anomalies back-tracking, run_base_capa against the Bellman optimum CG (delayed pruning as in PELT)."""
from pyvc.contracts import contract

MV = "skchange/anomaly_detectors/mvcapa.py"
ROWS = "forall(range(r), range(p), lambda i, j: savings[i, j] == SC2(tok, cs[i], ce[i], j))"

# penalise_savings for a symbolic number of columns: assumed (row-wise function of the saving row = PSC by definition);
# the explicit best-subset form is proved for p = 1, 2 below.
contract(
    target=f"{MV}::penalise_savings", variant="generic", assumed=True, level="A",
    params={"savings": "real[r,p]", "alpha": "real", "betas": "real[q]"},
    ghost_params={"tok": "int", "cs": "int[r]", "ce": "int[r]"},
    requires=[ROWS],
    returns="real[r]",
    ensures={"value": "len(result) == r and forall(range(r), lambda i: result[i] == PSC(tok, cs[i], ce[i], alpha, arrid(betas)))"},
    note="row i of the result is a function of row i of savings, alpha and betas only; PSC(tok,s,e,alpha,betas) is DEFINED as that function of "
         "the saving row SC2(tok,s,e,.), i.e. the statement's best non-empty subset (exchange argument: best subset of size k = k largest; "
         "checked exhaustively against subset enumeration for p<=6 by the bounded tier, proved for p<=2 below)",
)

contract(
    target=f"{MV}::optimise_savings",
    params={"starts": "int[r]", "opt_savings": "real[n1]", "next_savings": "real[r,p]", "alpha": "real", "betas": "real[q]"},
    ghost_params={"tok": "int", "cs": "int[r]", "ce": "int[r]"},
    requires=["r >= 1", "forall(range(r), lambda k: 0 <= starts[k] and starts[k] < n1)",
              "forall(range(r), range(p), lambda i, j: next_savings[i, j] == SC2(tok, cs[i], ce[i], j))"],
    returns="(real,int,real[r])",
    ensures={
        "candidates": "len(result[2]) == r and forall(range(r), lambda k: result[2][k] == opt_savings[starts[k]] + PSC(tok, cs[k], ce[k], alpha, arrid(betas)))",
        "max": "forall(range(r), lambda k: result[2][k] <= result[0])",
        # the returned start is the candidate start that attains the maximum (first such)
        "opt_start": "exists(range(r), lambda a: result[1] == starts[a] and result[2][a] == result[0] and forall(range(0, a), lambda k: result[2][k] < result[0]))",
    },
    call_ghosts={"penalised_saving = penalise_savings(*": {"penalise_savings": {"tok": "tok", "cs": "cs", "ce": "ce"}}},
    props=["C03"],
)

# explicit best-subset value for one and two columns (all betas shapes the callers use: length 1 broadcast, or length p)
_S1 = "savings[i, 0]"
contract(
    target=f"{MV}::penalise_savings", variant="p=1",
    params={"savings": "real[r,1]", "alpha": "real", "betas": "real[1]"},
    requires=["betas[0] >= 0"],
    returns="real[r]",
    ensures={"best_subset": f"len(result) == r and forall(range(r), lambda i: result[i] == max({_S1} - betas[0], 0) - alpha)"},
    props=["C03"],
)
_A, _B = "savings[i, 0]", "savings[i, 1]"
contract(
    target=f"{MV}::penalise_savings", variant="p=2,equal-betas",
    params={"savings": "real[r,2]", "alpha": "real", "betas": "real[1]"},
    requires=["betas[0] >= 0"],
    returns="real[r]",
    # max over non-empty subsets {0},{1},{0,1} with both per-component penalties equal to b, clipped at -alpha
    ensures={"best_subset": f"len(result) == r and forall(range(r), lambda i: result[i] == "
                            f"max(max({_A} - betas[0], {_B} - betas[0], {_A} + {_B} - 2 * betas[0]), 0) - alpha)"},
    props=["C03"],
)
contract(
    target=f"{MV}::penalise_savings", variant="p=2,betas2",
    params={"savings": "real[r,2]", "alpha": "real", "betas": "real[2]"},
    requires=["betas[0] >= 0", "betas[1] >= 0", "betas[0] != betas[1]"],
    returns="real[r]",
    # sorted branch: max over non-empty subsets J of sum_J s_j - sum_{k<|J|} beta_k - alpha
    ensures={"best_subset": f"len(result) == r and forall(range(r), lambda i: result[i] == "
                            f"max({_A} - betas[0], {_B} - betas[0], {_A} + {_B} - betas[0] - betas[1]) - alpha)"},
    invariants={"loop#1": {"done": f"len(penalised_savings) == r and n_savings == r and forall(range(0, i), lambda i: penalised_savings[i] == "
                                   f"max({_A} - betas[0], {_B} - betas[0], {_A} + {_B} - betas[0] - betas[1]) - alpha)"}},
    props=["C03"],
)

# ------------------------------------------------------------------------------------------------ get_anomalies
contract(
    target=f"{MV}::get_anomalies",
    params={"anomaly_starts": "nreal[n]"},
    # V / PP / GC: the caller's value function and gains (run_base_capa: V[T] = CG(T), PP[t] = penalised point saving at t, GC[a, b] = penalised
    # collective saving of [a, b)); the back-pointers are value-carrying: each one explains V[u+1] from an earlier value
    ghost_params={"m": "int", "M": "int", "V": "real[n+1]", "PP": "real[n]", "GC": "real[n+1,n+1]"},
    requires=["n >= 0", "m >= 2", "M >= m",
              "forall(range(n), lambda u: (isnan_(anomaly_starts[u]) and V[u + 1] == V[u]) or (not isnan_(anomaly_starts[u]) and "
              "((optval(anomaly_starts[u]) == u and V[u + 1] == V[u] + PP[u]) or (0 <= optval(anomaly_starts[u]) and m <= u + 1 - optval(anomaly_starts[u]) and "
              "V[u + 1] == V[optval(anomaly_starts[u])] + GC[optval(anomaly_starts[u]), u + 1]))), trig=V[u + 1])",      # used where V[u+1] is mentioned only
              "forall(range(n), lambda u: isnan_(anomaly_starts[u]) or isint_(optval(anomaly_starts[u])))",
              "forall(range(n), lambda u: isnan_(anomaly_starts[u]) or optval(anomaly_starts[u]) == u or "
              "(0 <= optval(anomaly_starts[u]) and m <= u + 1 - optval(anomaly_starts[u]) and u + 1 - optval(anomaly_starts[u]) <= M))"],
    returns="(list[(int,int)],list[(int,int)])",
    ensures={
        "collective": "forall(range(len(result[0])), lambda q: 0 <= result[0][q][0] and result[0][q][1] <= n and m <= result[0][q][1] - result[0][q][0] and "
                      "result[0][q][1] - result[0][q][0] <= M and not isnan_(anomaly_starts[result[0][q][1] - 1]) and optval(anomaly_starts[result[0][q][1] - 1]) == result[0][q][0])",
        "point": "forall(range(len(result[1])), lambda q: 0 <= result[1][q][0] and result[1][q][1] == result[1][q][0] + 1 and result[1][q][1] <= n and "
                 "not isnan_(anomaly_starts[result[1][q][0]]) and optval(anomaly_starts[result[1][q][0]]) == result[1][q][0])",
        # pairwise disjoint: both lists are produced back to front
        "disjoint": "forall(range(len(result[0])), range(len(result[0])), lambda q, r: implies(q < r, result[0][r][1] <= result[0][q][0])) and "
                    "forall(range(len(result[1])), range(len(result[1])), lambda q, r: implies(q < r, result[1][r][1] <= result[1][q][0])) and "
                    "forall(range(len(result[0])), range(len(result[1])), lambda q, r: result[0][q][1] <= result[1][r][0] or result[1][r][1] <= result[0][q][0])",
        # completeness, as a total: the gains of the reported anomalies add up to V[n] - V[0] (every link of the back-pointer chain is reported)
        "total": "V[n] == V[0] + LSUM('coll', result[0], len(result[0]), lambda x: GC[x[0], x[1]]) + LSUM('pt', result[1], len(result[1]), lambda x: PP[x[0]])",
    },
    invariants={"loop#1": {
        "i_range": "-1 <= i and i < n",
        "total": "V[n] == V[i + 1] + LSUM('coll', collective_anomalies, len(collective_anomalies), lambda x: GC[x[0], x[1]]) + LSUM('pt', point_anomalies, len(point_anomalies), lambda x: PP[x[0]])",
        "collective": "forall(range(len(collective_anomalies)), lambda q: i + 1 <= collective_anomalies[q][0] and collective_anomalies[q][1] <= n and "
                      "m <= collective_anomalies[q][1] - collective_anomalies[q][0] and collective_anomalies[q][1] - collective_anomalies[q][0] <= M and "
                      "not isnan_(anomaly_starts[collective_anomalies[q][1] - 1]) and optval(anomaly_starts[collective_anomalies[q][1] - 1]) == collective_anomalies[q][0])",
        "point": "forall(range(len(point_anomalies)), lambda q: i + 1 <= point_anomalies[q][0] and point_anomalies[q][1] == point_anomalies[q][0] + 1 and "
                 "point_anomalies[q][1] <= n and not isnan_(anomaly_starts[point_anomalies[q][0]]) and optval(anomaly_starts[point_anomalies[q][0]]) == point_anomalies[q][0])",
        "disjoint": "forall(range(len(collective_anomalies)), range(len(collective_anomalies)), lambda q, r: implies(q < r, collective_anomalies[r][1] <= collective_anomalies[q][0])) and "
                    "forall(range(len(point_anomalies)), range(len(point_anomalies)), lambda q, r: implies(q < r, point_anomalies[r][1] <= point_anomalies[q][0])) and "
                    "forall(range(len(collective_anomalies)), range(len(point_anomalies)), lambda q, r: collective_anomalies[q][1] <= point_anomalies[r][0] or "
                    "point_anomalies[r][1] <= collective_anomalies[q][0])",
    }},
    loop_vars={"loop#1": {"collective_anomalies": "list[(int,int)]", "point_anomalies": "list[(int,int)]"}},
    decreases={"loop#1": "i + 1"},
    props=["C03", "C04"],
)

# ------------------------------------------------------------------------------------------------ run_base_capa
def _sav(pre):
    return {pre: "obj:~BaseSaving", f"{pre}._is_fitted": "bool=True", f"{pre}.min_size": "int", f"{pre}._X": "real[n,p]",
            f"{pre}.ghost_tok": "int", f"{pre}.ghost_n": "int", f"{pre}.ghost_q": "int"}


TC, TP = "collective_saving.ghost_tok", "point_saving.ghost_tok"
PSc = lambda s, e: f"PSC({TC}, {s}, {e}, collective_alpha, arrid(collective_betas))"
PSp = lambda t: f"PSC({TP}, {t}, {t} + 1, point_alpha, arrid(point_betas))"
MM, MX = "min_segment_length", "max_segment_length"
PEN = "(collective_alpha + vsum(collective_betas))"
def BP(v):
    """back-pointer fact for 0-based position v (prefix length v+1): nan and CG unchanged, or a point anomaly at v, or a collective
    anomaly [start, v+1) of admissible length realising CG({TC}, {TP}, v+1)."""
    a = f"optval(opt_anomaly_starts[{v}])"
    return (f"((isnan_(opt_anomaly_starts[{v}]) and CG({TC}, {TP}, {v} + 1) == CG({TC}, {TP}, {v})) or "
            f"(not isnan_(opt_anomaly_starts[{v}]) and "
            f"(({a} == {v} and CG({TC}, {TP}, {v} + 1) == CG({TC}, {TP}, {v}) + {PSp(v)}) or "
            f"(0 <= {a} and {MM} <= {v} + 1 - {a} and {v} + 1 - {a} <= {MX} and "
            f"CG({TC}, {TP}, {v} + 1) == CG({TC}, {TP}, {a}) + PSC({TC}, {a}, {v} + 1, collective_alpha, arrid(collective_betas))))))")


COMMON = ("len(opt_savings) == n + 1 and len(opt_anomaly_starts) == n and never_pruned == n + min_segment_length + 1 and "
          "collective_saving._is_fitted == True and point_saving._is_fitted == True")
T2 = "(t + 1)"          # prefix length handled in the current iteration of the main loop
TD2 = f"({MM} - 1 + _k)"  # prefixes of length <= TD2 are done at the head of the main loop

contract(
    target=f"{MV}::run_base_capa",
    params={**_sav("collective_saving"), **_sav("point_saving"), "collective_alpha": "real", "collective_betas": "real[qc]",
            "point_alpha": "real", "point_betas": "real[qp]", "min_segment_length": "int", "max_segment_length": "int"},
    requires=[f"{MM} >= 2", f"{MX} >= {MM}", f"n >= {MM}", "collective_saving.ghost_n == n", "point_saving.ghost_n == n",
              "collective_saving.min_size >= 1", f"collective_saving.min_size <= {MM}", "point_saving.min_size == 1",
              "collective_saving.ghost_q >= 1", "point_saving.ghost_q >= 1",
              f"CAPA_THEORY({TC}, collective_alpha, arrid(collective_betas), {TP}, point_alpha, arrid(point_betas), {MM}, {MX}, n)",
              f"CAPA_SUBADD({TC}, collective_alpha, arrid(collective_betas), {PEN}, {MM}, {MX}, n)"],
    returns="(real[n],list[(int,int)],list[(int,int)])",
    ensures={
        # C03: the cumulative score at each time is the optimum for the prefix ending there
        "scores_are_optimal": f"forall(range(1, n + 1), lambda T: result[0][T - 1] == CG({TC}, {TP}, T))",
        # C04: collective anomalies within [m, M], point anomalies of length 1, pairwise disjoint
        "collective_lengths": f"forall(range(len(result[1])), lambda q: 0 <= result[1][q][0] and result[1][q][1] <= n and "
                              f"{MM} <= result[1][q][1] - result[1][q][0] and result[1][q][1] - result[1][q][0] <= {MX})",
        "point_lengths": "forall(range(len(result[2])), lambda q: 0 <= result[2][q][0] and result[2][q][1] == result[2][q][0] + 1 and result[2][q][1] <= n)",
        "disjoint": "forall(range(len(result[1])), range(len(result[2])), lambda q, r: result[1][q][1] <= result[2][r][0] or result[2][r][1] <= result[1][q][0]) and "
                    "forall(range(len(result[1])), range(len(result[1])), lambda q, r: implies(q < r, result[1][r][1] <= result[1][q][0])) and "
                    "forall(range(len(result[2])), range(len(result[2])), lambda q, r: implies(q < r, result[2][r][1] <= result[2][q][0]))",
        # C03: re-evaluating the reported anomalies under the same penalties gives exactly the final score
        "reevaluation": f"CG({TC}, {TP}, n) == LSUM('coll', result[1], len(result[1]), lambda x: {PSc('x[0]', 'x[1]')}) + "
                        f"LSUM('pt', result[2], len(result[2]), lambda x: {PSp('x[0]')})",
    },
    invariants={
        "loop#1": {
            "common": COMMON + " and len(starts) == 0 and len(start_prune_times) == 0",
            "G": f"forall(range(0, t + 1), lambda u: opt_savings[u] == CG({TC}, {TP}, u)) and forall(range(t + 1, n + 1), lambda u: opt_savings[u] == 0)",
            "BP": f"forall(range(0, t), lambda v: {BP('v')}) and forall(range(t, n), lambda v: isnan_(opt_anomaly_starts[v]))",
        },
        "loop#2": {
            "common": COMMON + f" and len(starts) == len(start_prune_times) and len(ts) == n - {MM} + 1",
            "G": f"forall(range(0, {TD2} + 1), lambda u: opt_savings[u] == CG({TC}, {TP}, u)) and forall(range({TD2} + 1, n + 1), lambda u: opt_savings[u] == 0)",
            "BP": f"forall(range(0, {TD2}), lambda v: {BP('v')}) and forall(range({TD2}, n), lambda v: isnan_(opt_anomaly_starts[v]))",
            "J1": f"forall(range(len(starts)), lambda k: 0 <= starts[k] and starts[k] <= {TD2} - {MM} and {TD2} + 1 - starts[k] <= {MX} and "
                  "g_in[starts[k]] and g_pos[starts[k]] == k)",
            "J2": "forall(range(n + 1), lambda s: implies(g_in[s], 0 <= g_pos[s] and g_pos[s] < len(starts) and starts[g_pos[s]] == s))",
            "J3": f"forall(range(len(starts)), lambda k: start_prune_times[k] + {MM} > {TD2} + 1 and (start_prune_times[k] == never_pruned or "
                  f"(starts[k] + {MM} <= start_prune_times[k] and start_prune_times[k] <= {TD2} and "
                  f"CG({TC}, {TP}, starts[k]) + {PSc('starts[k]', 'start_prune_times[k]')} + {PEN} < CG({TC}, {TP}, start_prune_times[k]))))",
            "J4": f"forall(range(n + 1), lambda s: implies(0 <= s and s <= {TD2} - {MM} and not g_in[s], {TD2} + 1 - s > {MX} or "
                  f"(s + {MM} <= g_W[s] and g_W[s] + {MM} <= {TD2} + 1 and CG({TC}, {TP}, s) + {PSc('s', 'g_W[s]')} + {PEN} < CG({TC}, {TP}, g_W[s]))))",
        },
    },
    loop_vars={"loop#2": {"g_in": "bool[n+1]", "g_pos": "int[n+1]", "g_W": "int[n+1]"}},
    ghost=[
        ("after:opt_point_saving, _, _ = optimise_savings(*",
         f"assert CA({TC}, {TP}, t + 1) >= 0 or CA({TC}, {TP}, t + 1) < 0\nassert opt_point_saving == CG({TC}, {TP}, t) + {PSp('t')}"),
        ("after:opt_savings[t + 1] = savings[argmax]", f"assert opt_savings[t + 1] == CG({TC}, {TP}, t + 1)"),
        ("after:opt_anomaly_starts[t] = opt_start", f"assert {BP('t')}"),
        ("after:opt_anomaly_starts[t] = t", f"assert {BP('t')}"),
        ("before:for t in ts:", "g_in = lam('bool', n + 1, lambda s: False)\ng_pos = lam('int', n + 1, lambda s: 0)\ng_W = lam('int', n + 1, lambda s: 0)"),
        ("after:starts = np.concatenate(*",
         "g_in = lam('bool', n + 1, lambda s: s == t - min_segment_length + 1 or g_in[s])\n"
         "g_pos = lam('int', n + 1, lambda s: ite(s == t - min_segment_length + 1, len(starts) - 1, g_pos[s]))"),
        ("after:opt_collective_saving, opt_start, candidate_savings = *",
         f"g_star = CA({TC}, {TP}, {T2})\n"
         f"assert implies(0 <= g_star and {MM} <= {T2} - g_star and {T2} - g_star <= {MX} and not g_in[g_star] and not ({T2} - g_star > {MX}), "
         f"CG({TC}, {TP}, {T2}) >= CG({TC}, {TP}, g_W[g_star]) + {PSc('g_W[g_star]', T2)})\n"
         f"assert implies(0 <= g_star and {MM} <= {T2} - g_star and {T2} - g_star <= {MX} and CG({TC}, {TP}, {T2}) == CG({TC}, {TP}, g_star) + {PSc('g_star', T2)}, g_in[g_star])\n"
         f"assert forall(range(len(starts)), lambda k: candidate_savings[k] <= CG({TC}, {TP}, {T2}))\n"
         f"assert implies(0 <= g_star and {MM} <= {T2} - g_star and {T2} - g_star <= {MX} and CG({TC}, {TP}, {T2}) == CG({TC}, {TP}, g_star) + {PSc('g_star', T2)}, "
         f"candidate_savings[g_pos[g_star]] == CG({TC}, {TP}, {T2}))\n"
         f"assert opt_collective_saving <= CG({TC}, {TP}, {T2}) and 0 <= opt_start and {MM} <= {T2} - opt_start and {T2} - opt_start <= {MX} and "
         f"opt_collective_saving == CG({TC}, {TP}, opt_start) + {PSc('opt_start', T2)}\n"
         f"assert implies(0 <= g_star and {MM} <= {T2} - g_star and {T2} - g_star <= {MX} and CG({TC}, {TP}, {T2}) == CG({TC}, {TP}, g_star) + {PSc('g_star', T2)}, "
         f"opt_collective_saving == CG({TC}, {TP}, {T2}))"),
        ("before:saving_too_low = *", f"assert forall(range(0, t + 1), lambda v: {BP('v')})"),
        ("before:starts = starts[keep]", "g_spt0 = start_prune_times\ng_in0 = g_in\ng_pos0 = g_pos\ng_W0 = g_W"),
        ("after:start_prune_times = start_prune_times[keep]",
         "g_W = lam('int', n + 1, lambda s: ite(g_in0[s] and not keep[g_pos0[s]], g_spt0[g_pos0[s]], g_W0[s]))\n"
         "g_in = lam('bool', n + 1, lambda s: g_in0[s] and keep[g_pos0[s]])\n"
         "g_pos = lam('int', n + 1, lambda s: gather_pos(starts, g_pos0[s]))"),
    ],
    call_ghosts={
        "opt_point_saving, _, _ = optimise_savings(*": {"optimise_savings": {"tok": TP, "cs": "t_array", "ce": "t_array + 1"}},
        "opt_collective_saving, opt_start, candidate_savings = optimise_savings(*": {"optimise_savings": {"tok": TC, "cs": "starts", "ce": "ends"}},
        "collective_anomalies, point_anomalies = get_anomalies(*": {"get_anomalies": {
            "m": MM, "M": MX, "V": f"lam('real', n + 1, lambda T: CG({TC}, {TP}, T))", "PP": f"lam('real', n, lambda v: {PSp('v')})",
            "GC": f"lam('real', n + 1, n + 1, lambda a, b: {PSc('a', 'b')})"}},
    },
    props=["C03", "C04"],
)

# ------------------------------------------------------------------------------------------------ find_affected_components (C16)
_V = lambda c: f"SC2(saving.ghost_tok, start, end, {c})"
contract(
    target=f"{MV}::find_affected_components",
    params={"saving": "obj:~BaseSaving", "saving._is_fitted": "bool=True", "saving.min_size": "int", "saving.ghost_tok": "int", "saving.ghost_n": "int",
            "saving.ghost_q": "int", "anomalies": "list[(int,int)]", "alpha": "real", "betas": "real[q]"},
    requires=["saving.ghost_q == q", "q >= 1", "saving.min_size >= 1",
              "forall(range(len(anomalies)), lambda a: 0 <= anomalies[a][0] and anomalies[a][1] <= saving.ghost_n and "
              "anomalies[a][1] - anomalies[a][0] >= saving.min_size)"],
    returns="list[(int,int,int[])]",
    ensures={
        "same_intervals": "len(result) == len(anomalies) and forall(range(len(anomalies)), lambda a: result[a][0] == anomalies[a][0] and result[a][1] == anomalies[a][1])",
        # non-empty list of distinct valid column positions (C04)
        "columns_valid_distinct": "forall(range(len(result)), lambda a: 1 <= len(result[a][2]) and len(result[a][2]) <= q and "
                                  "forall(range(len(result[a][2])), lambda r: 0 <= result[a][2][r] and result[a][2][r] < q) and "
                                  "forall(range(len(result[a][2])), range(len(result[a][2])), lambda r, r2: implies(r != r2, result[a][2][r] != result[a][2][r2])))",
        # the listed columns are the k largest savings in decreasing order (C16)
        "top_k_in_order": "forall(range(len(result)), lambda a: forall(range(len(result[a][2])), lambda r: "
                          "SC2(saving.ghost_tok, result[a][0], result[a][1], result[a][2][r]) == SORTV(saving.ghost_tok, result[a][0], result[a][1], r)))",
        # ... and k maximises the cumulative saving minus the penalty for k components (first maximiser)
        "argmax_k": "forall(range(len(result)), lambda a: forall(range(q), lambda k: "
                    "CUMPEN(saving.ghost_tok, result[a][0], result[a][1], alpha, arrid(betas), k) <= "
                    "CUMPEN(saving.ghost_tok, result[a][0], result[a][1], alpha, arrid(betas), len(result[a][2]) - 1)) and "
                    "forall(range(len(result[a][2]) - 1), lambda k: "
                    "CUMPEN(saving.ghost_tok, result[a][0], result[a][1], alpha, arrid(betas), k) < "
                    "CUMPEN(saving.ghost_tok, result[a][0], result[a][1], alpha, arrid(betas), len(result[a][2]) - 1)))",
    },
    invariants={"loop#1": {
        "len": "len(new_anomalies) == _k",
        "same": "forall(range(_k), lambda a: new_anomalies[a][0] == anomalies[a][0] and new_anomalies[a][1] == anomalies[a][1])",
        "cols": "forall(range(_k), lambda a: 1 <= len(new_anomalies[a][2]) and len(new_anomalies[a][2]) <= q and "
                "forall(range(len(new_anomalies[a][2])), lambda r: 0 <= new_anomalies[a][2][r] and new_anomalies[a][2][r] < q) and "
                "forall(range(len(new_anomalies[a][2])), range(len(new_anomalies[a][2])), lambda r, r2: implies(r != r2, new_anomalies[a][2][r] != new_anomalies[a][2][r2])))",
        "topk": "forall(range(_k), lambda a: forall(range(len(new_anomalies[a][2])), lambda r: "
                "SC2(saving.ghost_tok, new_anomalies[a][0], new_anomalies[a][1], new_anomalies[a][2][r]) == SORTV(saving.ghost_tok, new_anomalies[a][0], new_anomalies[a][1], r)))",
        "argmax": "forall(range(_k), lambda a: forall(range(q), lambda k: "
                  "CUMPEN(saving.ghost_tok, new_anomalies[a][0], new_anomalies[a][1], alpha, arrid(betas), k) <= "
                  "CUMPEN(saving.ghost_tok, new_anomalies[a][0], new_anomalies[a][1], alpha, arrid(betas), len(new_anomalies[a][2]) - 1)) and "
                  "forall(range(len(new_anomalies[a][2]) - 1), lambda k: "
                  "CUMPEN(saving.ghost_tok, new_anomalies[a][0], new_anomalies[a][1], alpha, arrid(betas), k) < "
                  "CUMPEN(saving.ghost_tok, new_anomalies[a][0], new_anomalies[a][1], alpha, arrid(betas), len(new_anomalies[a][2]) - 1)))",
    }},
    loop_vars={"loop#1": {"new_anomalies": "list[(int,int,int[])]"}},
    ghost=[
        ("after:saving_order = *",
         "assert using(AX_sorted_unique(saving.ghost_tok, start, end, saving_order, q), "
         "forall(range(q), lambda r: SC2(saving.ghost_tok, start, end, saving_order[r]) == SORTV(saving.ghost_tok, start, end, r)))"),
        ("after:penalised_saving = *",
         "assume(CUMPEN_DEF(saving.ghost_tok, start, end, alpha, betas, q))\n"
         "assert forall(range(q), lambda k: using(L_cumsum_tel(lam('real', q, lambda i: penalised_saving[i] + alpha), "
         "lam('real', q, lambda i: saving_values[saving_order[i]] - betas[i]), "
         "lam('real', q + 1, lambda i: ite(i == 0, 0, CUMPEN(saving.ghost_tok, start, end, alpha, arrid(betas), i - 1) + alpha))), "
         "penalised_saving[k] == CUMPEN(saving.ghost_tok, start, end, alpha, arrid(betas), k)))"),
    ],
    props=["C16", "C04", "C12"],
)
