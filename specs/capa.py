"""Contracts of the CAPA kernels (C03, C04): optimise_savings / penalise_savings against the penalised-saving spec PSC,
get_anomalies back-tracking, run_base_capa against the Bellman optimum CG (delayed pruning as in PELT)."""
from pyvc.contracts import contract

MV = "skchange/anomaly_detectors/mvcapa.py"
ROWS = "forall(range(r), range(p), lambda i, j: savings[i, j] == SC2(tok, cs[i], ce[i], j))"

# penalise_savings for a symbolic number of columns: assumed (row-wise function of the saving row = PSC by definition);
# the explicit best-subset form is proved for p = 1, 2 below.
contract(
    target=f"{MV}::penalise_savings", variant="generic", assumed=True, level="A",
    params={"savings": "real[r,p]", "alpha": "real", "betas": "real[q]"},
    ghost_params={"tok": "int", "cs": "int[r]", "ce": "int[r]"},
    requires=[ROWS],
    returns="real[r]",
    ensures={"value": "len(result) == r and forall(range(r), lambda i: result[i] == PSC(tok, cs[i], ce[i], alpha, arrid(betas)))"},
    note="row i of the result is a function of row i of savings, alpha and betas only; PSC(tok,s,e,alpha,betas) is DEFINED as that function of "
         "the saving row SC2(tok,s,e,.), i.e. the statement's best non-empty subset (exchange argument: best subset of size k = k largest; "
         "checked exhaustively against subset enumeration for p<=6 by the bounded tier, proved for p<=2 below)",
)

contract(
    target=f"{MV}::optimise_savings",
    params={"starts": "int[r]", "opt_savings": "real[n1]", "next_savings": "real[r,p]", "alpha": "real", "betas": "real[q]"},
    ghost_params={"tok": "int", "cs": "int[r]", "ce": "int[r]"},
    requires=["r >= 1", "forall(range(r), lambda k: 0 <= starts[k] and starts[k] < n1)",
              "forall(range(r), range(p), lambda i, j: next_savings[i, j] == SC2(tok, cs[i], ce[i], j))"],
    returns="(real,int,real[r])",
    ensures={
        "candidates": "len(result[2]) == r and forall(range(r), lambda k: result[2][k] == opt_savings[starts[k]] + PSC(tok, cs[k], ce[k], alpha, arrid(betas)))",
        "max": "forall(range(r), lambda k: result[2][k] <= result[0])",
        # the returned start is the candidate start that attains the maximum (first such)
        "opt_start": "exists(range(r), lambda a: result[1] == starts[a] and result[2][a] == result[0] and forall(range(0, a), lambda k: result[2][k] < result[0]))",
    },
    call_ghosts={"penalised_saving = penalise_savings(next_savings, alpha, betas)": {"penalise_savings": {"tok": "tok", "cs": "cs", "ce": "ce"}}},
    props=["C03"],
)

# explicit best-subset value for one and two columns (all betas shapes the callers use: length 1 broadcast, or length p)
_S1 = "savings[i, 0]"
contract(
    target=f"{MV}::penalise_savings", variant="p=1",
    params={"savings": "real[r,1]", "alpha": "real", "betas": "real[1]"},
    requires=["betas[0] >= 0"],
    returns="real[r]",
    ensures={"best_subset": f"len(result) == r and forall(range(r), lambda i: result[i] == max({_S1} - betas[0], 0) - alpha)"},
    props=["C03"],
)
_A, _B = "savings[i, 0]", "savings[i, 1]"
contract(
    target=f"{MV}::penalise_savings", variant="p=2,equal-betas",
    params={"savings": "real[r,2]", "alpha": "real", "betas": "real[1]"},
    requires=["betas[0] >= 0"],
    returns="real[r]",
    # max over non-empty subsets {0},{1},{0,1} with both per-component penalties equal to b, clipped at -alpha
    ensures={"best_subset": f"len(result) == r and forall(range(r), lambda i: result[i] == "
                            f"max(max({_A} - betas[0], {_B} - betas[0], {_A} + {_B} - 2 * betas[0]), 0) - alpha)"},
    props=["C03"],
)
contract(
    target=f"{MV}::penalise_savings", variant="p=2,betas2",
    params={"savings": "real[r,2]", "alpha": "real", "betas": "real[2]"},
    requires=["betas[0] >= 0", "betas[1] >= 0", "betas[0] != betas[1]"],
    returns="real[r]",
    # sorted branch: max over non-empty subsets J of sum_J s_j - sum_{k<|J|} beta_k - alpha
    ensures={"best_subset": f"len(result) == r and forall(range(r), lambda i: result[i] == "
                            f"max({_A} - betas[0], {_B} - betas[0], {_A} + {_B} - betas[0] - betas[1]) - alpha)"},
    invariants={"loop#1": {"done": f"len(penalised_savings) == r and n_savings == r and forall(range(0, i), lambda i: penalised_savings[i] == "
                                   f"max({_A} - betas[0], {_B} - betas[0], {_A} + {_B} - betas[0] - betas[1]) - alpha)"}},
    props=["C03"],
)

# ------------------------------------------------------------------------------------------------ get_anomalies
contract(
    target=f"{MV}::get_anomalies",
    params={"anomaly_starts": "nreal[n]"},
    ghost_params={"m": "int", "M": "int"},
    requires=["n >= 0", "m >= 2", "M >= m",
              "forall(range(n), lambda u: isnan_(anomaly_starts[u]) or isint_(optval(anomaly_starts[u])))",
              "forall(range(n), lambda u: isnan_(anomaly_starts[u]) or optval(anomaly_starts[u]) == u or "
              "(0 <= optval(anomaly_starts[u]) and m <= u + 1 - optval(anomaly_starts[u]) and u + 1 - optval(anomaly_starts[u]) <= M))"],
    returns="(list[(int,int)],list[(int,int)])",
    ensures={
        "collective": "forall(range(len(result[0])), lambda q: 0 <= result[0][q][0] and result[0][q][1] <= n and m <= result[0][q][1] - result[0][q][0] and "
                      "result[0][q][1] - result[0][q][0] <= M and not isnan_(anomaly_starts[result[0][q][1] - 1]) and optval(anomaly_starts[result[0][q][1] - 1]) == result[0][q][0])",
        "point": "forall(range(len(result[1])), lambda q: 0 <= result[1][q][0] and result[1][q][1] == result[1][q][0] + 1 and result[1][q][1] <= n and "
                 "not isnan_(anomaly_starts[result[1][q][0]]) and optval(anomaly_starts[result[1][q][0]]) == result[1][q][0])",
        # pairwise disjoint: both lists are produced back to front
        "disjoint": "forall(range(len(result[0])), range(len(result[0])), lambda q, r: implies(q < r, result[0][r][1] <= result[0][q][0])) and "
                    "forall(range(len(result[1])), range(len(result[1])), lambda q, r: implies(q < r, result[1][r][1] <= result[1][q][0])) and "
                    "forall(range(len(result[0])), range(len(result[1])), lambda q, r: result[0][q][1] <= result[1][r][0] or result[1][r][1] <= result[0][q][0])",
    },
    invariants={"loop#1": {
        "i_range": "-1 <= i and i < n",
        "collective": "forall(range(len(collective_anomalies)), lambda q: i + 1 <= collective_anomalies[q][0] and collective_anomalies[q][1] <= n and "
                      "m <= collective_anomalies[q][1] - collective_anomalies[q][0] and collective_anomalies[q][1] - collective_anomalies[q][0] <= M and "
                      "not isnan_(anomaly_starts[collective_anomalies[q][1] - 1]) and optval(anomaly_starts[collective_anomalies[q][1] - 1]) == collective_anomalies[q][0])",
        "point": "forall(range(len(point_anomalies)), lambda q: i + 1 <= point_anomalies[q][0] and point_anomalies[q][1] == point_anomalies[q][0] + 1 and "
                 "point_anomalies[q][1] <= n and not isnan_(anomaly_starts[point_anomalies[q][0]]) and optval(anomaly_starts[point_anomalies[q][0]]) == point_anomalies[q][0])",
        "disjoint": "forall(range(len(collective_anomalies)), range(len(collective_anomalies)), lambda q, r: implies(q < r, collective_anomalies[r][1] <= collective_anomalies[q][0])) and "
                    "forall(range(len(point_anomalies)), range(len(point_anomalies)), lambda q, r: implies(q < r, point_anomalies[r][1] <= point_anomalies[q][0])) and "
                    "forall(range(len(collective_anomalies)), range(len(point_anomalies)), lambda q, r: collective_anomalies[q][1] <= point_anomalies[r][0] or "
                    "point_anomalies[r][1] <= collective_anomalies[q][0])",
    }},
    loop_vars={"loop#1": {"collective_anomalies": "list[(int,int)]", "point_anomalies": "list[(int,int)]"}},
    decreases={"loop#1": "i + 1"},
    props=["C03", "C04"],
)
