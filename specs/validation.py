"""Contracts of the validation helpers (C13, C14)."""
from pyvc.contracts import contract

SPACING = "forall(range(r), range(c - 1), lambda i, q: cuts[i, q + 1] - cuts[i, q] >= min_size)"

contract(
    target="skchange/utils/validation/cuts.py::check_cuts_array", variant="int2d",
    params={"cuts": "int[r,c]", "min_size": "int", "last_dim_size": "int"},
    raises={"ValueError": f"c != last_dim_size or not {SPACING}"},
    returns="int[r,c]",
    ensures={"same": "result.shape == (r, c) and forall(range(r), range(c), lambda i, q: result[i, q] == cuts[i, q])"},
    props=["C13"],
)
for _v, _t in (("int1d", "int[r]"), ("int3d", "int[r,c,d]"), ("real2d", "real[r,c]"), ("real1d", "real[r]")):
    contract(
        target="skchange/utils/validation/cuts.py::check_cuts_array", variant=_v,
        params={"cuts": _t, "min_size": "int", "last_dim_size": "int"},
        raises={"ValueError": "True"},
        props=["C13"],
    )

# as_2d_array: promotion of vectors, rejection of >2-D; np.asarray on ndarray input is the identity (assumed for exotic inputs)
contract(
    target="skchange/utils/validation/data.py::as_2d_array", variant="2d",
    params={"X": "real[n,p]", "vector_as_column": "bool", "dtype": "none"},
    returns="real[n,p]",
    ensures={"same": "result.shape == (n, p) and forall(range(n), range(p), lambda i, j: result[i, j] == X[i, j])"},
    props=["C13", "C01", "C11"],
)
contract(
    target="skchange/utils/validation/data.py::as_2d_array", variant="2d-int",
    params={"X": "int[n,p]", "vector_as_column": "bool", "dtype": "none"},
    returns="int[n,p]",
    ensures={"same": "result.shape == (n, p) and forall(range(n), range(p), lambda i, j: result[i, j] == X[i, j])"},
    props=["C13", "C11"],
)
contract(
    target="skchange/utils/validation/data.py::as_2d_array", variant="1d-row-int",
    params={"X": "int[n]", "vector_as_column": "bool=False", "dtype": "none"},
    returns="int[1,n]",
    ensures={"same": "result.shape == (1, n) and forall(range(n), lambda j: result[0, j] == X[j])"},
    props=["C13"],
)
contract(
    target="skchange/utils/validation/data.py::as_2d_array", variant="1d-col",
    params={"X": "real[n]", "vector_as_column": "bool=True", "dtype": "none"},
    returns="real[n,1]",
    ensures={"same": "result.shape == (n, 1) and forall(range(n), lambda i: result[i, 0] == X[i])"},
    props=["C11", "C01"],
)
contract(
    target="skchange/utils/validation/data.py::as_2d_array", variant="3d-int",
    params={"X": "int[a,b,c]", "vector_as_column": "bool", "dtype": "none"},
    raises={"ValueError": "True"},
    props=["C13"],
)

# parameter checks (C14)
for _fn, _op in (("check_larger_than", "<"), ("check_smaller_than", ">")):
    _b = "min_value" if _fn == "check_larger_than" else "max_value"
    for _kind in ("int", "real"):
        contract(
            target=f"skchange/utils/validation/parameters.py::{_fn}", variant=f"{_kind}",
            params={_b: "real", "value": _kind, "name": "str", "allow_none": "bool"},
            raises={"ValueError": f"value {_op} {_b}"},
            returns=_kind,
            ensures={"same": "result == value"},
            props=["C14"],
        )
    contract(
        target=f"skchange/utils/validation/parameters.py::{_fn}", variant="none",
        params={_b: "real", "value": "none", "name": "str", "allow_none": "bool"},
        raises={"ValueError": "not allow_none"},
        returns="none",
        props=["C14"],
    )
