"""Contracts of the PELT kernels (C02, C04): run_pelt against the Bellman optimum PF, get_changepoints back-tracking."""
from pyvc.contracts import contract

COST_FIELDS = {"cost": "obj:~BaseCost", "cost.min_size": "int"}
COST_FIT_MODS = {"cost._X": "=X", "cost._is_fitted": "=True", "cost.ghost_tok": "int", "cost.ghost_n": "=n", "cost.ghost_p": "=p",
                 "cost.ghost_q": "int"}

contract(
    target="skchange/change_detectors/pelt.py::get_changepoints",
    params={"prev_cpts": "int[n]"},
    requires=["n >= 1", "forall(range(1, n + 1), lambda u: 0 <= prev_cpts[u - 1] and prev_cpts[u - 1] < u)"],
    returns="int[K]",
    ensures={
        "terminal": "implies(len(result) == 0, prev_cpts[n - 1] == 0) and implies(len(result) >= 1, result[len(result) - 1] == prev_cpts[n - 1])",
        "chain": "forall(range(len(result) - 1), lambda q: result[q] == prev_cpts[result[q + 1] - 1])",
        "first": "implies(len(result) >= 1, prev_cpts[result[0] - 1] == 0)",
        "range": "forall(range(len(result)), lambda q: 1 <= result[q] and result[q] <= n - 1)",
        "increasing": "forall(range(len(result) - 1), lambda q: result[q] < result[q + 1])",
    },
    invariants={"loop#1": {
        "i_range": "-1 <= i and i < n",
        "start": "implies(len(changepoints) == 0, i == n - 1)",
        "last": "implies(len(changepoints) >= 1, i == changepoints[len(changepoints) - 1] - 1 and changepoints[0] == prev_cpts[n - 1])",
        "links": "forall(range(len(changepoints) - 1), lambda q: changepoints[q + 1] == prev_cpts[changepoints[q] - 1] and changepoints[q] >= 1"
                 " and changepoints[q + 1] < changepoints[q])",
        "bounded": "forall(range(len(changepoints)), lambda q: 0 <= changepoints[q] and changepoints[q] <= n - 1)",
    }},
    loop_vars={"loop#1": {"changepoints": "list[int]"}},
    decreases={"loop#1": "i + 1"},
    props=["C02", "C04"],
)

T = "(current_obs_ind[0] + 1)"
TOK = "cost.ghost_tok"
F = lambda u: f"PF({TOK}, min_segment_length, penalty, {u})"
C = lambda s, e: f"AGG2({TOK}, {s}, {e})"
M = "min_segment_length"
TD = f"(2 * {M} - 1 + _k)"        # prefixes of length <= TD are done at the loop head
SEGC_LAST = (f"(implies(len(result[1]) >= 1, {F('n')} == {F('result[1][len(result[1]) - 1]')} + {C('result[1][len(result[1]) - 1]', 'n')} + penalty)"
             f" and implies(len(result[1]) == 0, {F('n')} == {C('0', 'n')}))")
SEGC_LINKS = f"forall(range(len(result[1]) - 1), lambda q: {F('result[1][q + 1]')} == {F('result[1][q]')} + {C('result[1][q]', 'result[1][q + 1]')} + penalty)"
SEGC_FIRST = f"implies(len(result[1]) >= 1, {F('result[1][0]')} == {C('0', 'result[1][0]')})"

contract(
    target="skchange/change_detectors/pelt.py::run_pelt",
    params={"X": "real[n,p]", **COST_FIELDS, "penalty": "real", "min_segment_length": "int", "split_cost": "real"},
    requires=[f"{M} >= 1", f"n >= 2 * {M}", "penalty >= 0", "cost.min_size >= 1", f"{M} >= cost.min_size",
              f"PELT_THEORY('all', {M}, penalty, n)", f"SPLIT_INEQ('all', {M}, split_cost, n)"],
    modifies=COST_FIT_MODS,
    returns="(real[n],int[K])",
    ensures={
        "scores": f"forall(range({M}, n + 1), lambda u: result[0][u - 1] == {F('u')})",
        "wellformed": f"forall(range(len(result[1])), lambda q: {M} <= result[1][q] and result[1][q] <= n - {M}) and "
                      f"forall(range(len(result[1]) - 1), lambda q: result[1][q] + {M} <= result[1][q + 1])",
        # the returned chain realises the optimum link by link (telescoped form of 'final score == cost of the returned segmentation')
        "segcost_last": f"implies(len(result[1]) >= 1, {F('n')} == {F('result[1][len(result[1]) - 1]')} + {C('result[1][len(result[1]) - 1]', 'n')} + penalty)"
                        f" and implies(len(result[1]) == 0, {F('n')} == {C('0', 'n')})",
        "segcost_links": f"forall(range(len(result[1]) - 1), lambda q: {F('result[1][q + 1]')} == {F('result[1][q]')} + {C('result[1][q]', 'result[1][q + 1]')} + penalty)",
        "segcost_first": f"implies(len(result[1]) >= 1, {F('result[1][0]')} == {C('0', 'result[1][0]')})",
        # ... telescoped (lemma L_tel, induction): the final score is the total penalised cost of the returned segmentation (one penalty per
        # segment, minus one: PF counts a penalty per changepoint) -- with L_bellman (PF(n) <= cost of EVERY admissible segmentation) the
        # returned changepoints minimise the total penalised cost
        "total_cost": "have(" + SEGC_FIRST + ", " + SEGC_LINKS + ", " + SEGC_LAST + ", "
                      f"using(L_tel(lam('real', len(result[1]) + 2, lambda q: ite(q == 0, -penalty, {F('ite(q == 0, 0, ite(q <= len(result[1]), result[1][q - 1], n))')})), "
                      f"lam('real', len(result[1]) + 2, lambda q: SEGTOT({TOK}, result[1], n, penalty, q)), -penalty), "
                      f"{F('n')} == SEGTOT({TOK}, result[1], n, penalty, len(result[1]) + 1) - penalty))",
    },
    post_uses=[f"SEGTOT_DEF({TOK}, result[1], n, penalty)"],
    invariants={"loop#1": {
        "shapes": "len(opt_cost) == n + 1 and len(prev_cpts) == n and len(cost_eval_starts) == len(start_prune_times)"
                  " and never_pruned == n + min_segment_length + 1 and num_obs == n and min_segment_shift == min_segment_length - 1"
                  " and len(observation_indices) == n - 2 * min_segment_length + 1 and cost._is_fitted == True and cost.ghost_n == n",
        "I1_opt_cost_is_F": f"opt_cost[0] == -penalty and forall(range({M}, {TD} + 1), lambda u: opt_cost[u] == {F('u')})",
        "I2_backpointers": f"forall(range(1, 2 * {M}), lambda u: prev_cpts[u - 1] == 0) and forall(range(2 * {M}, {TD} + 1), lambda u: "
                           f"Adm(prev_cpts[u - 1], u, {M}) and {F('u')} == {F('prev_cpts[u - 1]')} + {C('prev_cpts[u - 1]', 'u')} + penalty)"
                           f" and forall(range({TD} + 1, n + 1), lambda u: prev_cpts[u - 1] == 0)",
        "J1_starts_admissible": f"forall(range(len(cost_eval_starts)), lambda k: (cost_eval_starts[k] == 0 or ({M} <= cost_eval_starts[k] and "
                                f"cost_eval_starts[k] <= {TD} - {M})) and g_in[cost_eval_starts[k]] and g_pos[cost_eval_starts[k]] == k)",
        "J2_presence": "forall(range(n + 1), lambda s: implies(g_in[s], 0 <= g_pos[s] and g_pos[s] < len(cost_eval_starts) and cost_eval_starts[g_pos[s]] == s))",
        "J3_prune_times": f"forall(range(len(cost_eval_starts)), lambda k: start_prune_times[k] + {M} > {TD} + 1 and (start_prune_times[k] == never_pruned or "
                          f"(cost_eval_starts[k] + {M} <= start_prune_times[k] and start_prune_times[k] <= {TD} and "
                          f"{F('cost_eval_starts[k]')} + {C('cost_eval_starts[k]', 'start_prune_times[k]')} + split_cost > {F('start_prune_times[k]')})))",
        "J4_absent_have_witness": f"forall(range(n + 1), lambda s: implies((s == 0 or ({M} <= s and s <= {TD} - {M})) and not g_in[s], "
                                  f"s + {M} <= g_W[s] and g_W[s] + {M} <= {TD} + 1 and {F('s')} + {C('s', 'g_W[s]')} + split_cost > {F('g_W[s]')}))",
    }},
    loop_vars={"loop#1": {"g_in": "bool[n+1]", "g_pos": "int[n+1]", "g_W": "int[n+1]"}},
    ghost=[
        ("before:for current_obs_ind in *",
         "g_in = lam('bool', n + 1, lambda s: s == 0)\n"
         "g_pos = lam('int', n + 1, lambda s: 0)\n"
         "g_W = lam('int', n + 1, lambda s: 0)"),
        ("after:cost_eval_starts = np.concatenate(*",
         "g_in = lam('bool', n + 1, lambda s: s == latest_start[0] or g_in[s])\n"
         "g_pos = lam('int', n + 1, lambda s: ite(s == latest_start[0], len(cost_eval_starts) - 1, g_pos[s]))"),
        ("after:candidate_opt_costs = *",
         # the optimal last start of the current prefix is still a candidate (the pruning argument), hence the minimum is PF(T)
         f"g_star = PA({TOK}, {M}, penalty, {T})\n"
         f"assert Adm(g_star, {T}, {M}) and {F(T)} == {F('g_star')} + {C('g_star', T)} + penalty\n"
         f"assert implies(not g_in[g_star], {F(T)} <= {F('g_W[g_star]')} + {C('g_W[g_star]', T)} + penalty)\n"
         f"assert g_in[g_star]\n"
         f"assert candidate_opt_costs[g_pos[g_star]] == {F(T)}\n"
         f"assert forall(range(len(cost_eval_starts)), lambda k: candidate_opt_costs[k] >= {F(T)})"),
        ("before:cost_eval_starts = cost_eval_starts[*",
         "g_spt0 = start_prune_times\ng_in0 = g_in\ng_pos0 = g_pos\ng_W0 = g_W"),
        ("after:start_prune_times = start_prune_times[*",
         "g_W = lam('int', n + 1, lambda s: ite(g_in0[s] and not keep[g_pos0[s]], g_spt0[g_pos0[s]], g_W0[s]))\n"
         "g_in = lam('bool', n + 1, lambda s: g_in0[s] and keep[g_pos0[s]])\n"
         "g_pos = lam('int', n + 1, lambda s: gather_pos(cost_eval_starts, g_pos0[s]))"),
    ],
    props=["C02", "C04", "C10"],
)
