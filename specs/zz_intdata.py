"""Integer-typed data variants of the detector kernels (C11: the dtype of X must not influence what is computed).
The same contracts are re-verified with X declared as an int64 array; numeric buffers allocated 'like X' then show up as
integer arrays and a real stored into them is a failed obligation (silent truncation)."""
import dataclasses

from pyvc.contracts import REGISTRY

TARGETS = [
    "skchange/change_detectors/seeded_binseg.py::run_seeded_binseg",
    "skchange/anomaly_detectors/circular_binseg.py::run_circular_binseg",
    "skchange/change_detectors/moving_window.py::moving_window_transform",
    "skchange/change_detectors/pelt.py::run_pelt",
]
for t in TARGETS:
    for c in list(REGISTRY.get(t, [])):
        if c.variant.endswith("int-data") or c.params.get("X") != "real[n,p]":
            continue
        params = dict(c.params)
        params["X"] = "int[n,p]"
        REGISTRY[t].append(dataclasses.replace(c, params=params, variant=(c.variant + "," if c.variant else "") + "int-data",
                                               props=list(dict.fromkeys(list(c.props) + ["C11"]))))
