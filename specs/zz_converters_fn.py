"""The scorer conversion functions (C06): a cost handed to to_saving / to_change_score / to_local_anomaly_score is wrapped, as the same object,
in the adapter whose evaluate is under contract -- never replaced by another scorer; scores of the right kind pass through unchanged.
The cost is interface-typed (any BaseCost subclass, built-in or user-defined): the dispatch may depend on nothing but its being a BaseCost."""
from pyvc.contracts import contract

AS = "skchange/anomaly_scores/from_cost.py"
CS = "skchange/change_scores/from_cost.py"
contract(
    target=f"{AS}::to_saving", variant="cost",
    params={"scorer": "obj:~BaseCost", "scorer.param": "real", "scorer.evaluation_type": "str"},
    ensures={"wraps_this_cost": "typeis(result, 'Saving') and result.baseline_cost is scorer"},
    props=["C06"],
)
contract(
    target=f"{AS}::to_saving", variant="cost/no-fixed-param",
    params={"scorer": "obj:~BaseCost", "scorer.param": "none", "scorer.evaluation_type": "str"},
    raises={"ValueError": "True"},
    props=["C06", "C14"],
)
contract(
    target=f"{AS}::to_saving", variant="saving",
    params={"scorer": "obj:~BaseSaving"},
    ensures={"passes_through": "result is scorer"},
    props=["C06"],
)
contract(
    target=f"{CS}::to_change_score", variant="cost",
    params={"scorer": "obj:~BaseCost", "scorer.param": "any", "scorer.evaluation_type": "str"},
    ensures={"wraps_this_cost": "typeis(result, 'ChangeScore') and result.cost is scorer"},
    props=["C06"],
)
contract(
    target=f"{CS}::to_change_score", variant="change_score",
    params={"scorer": "obj:~BaseChangeScore"},
    ensures={"passes_through": "result is scorer"},
    props=["C06"],
)
contract(
    target=f"{AS}::to_local_anomaly_score", variant="cost",
    params={"scorer": "obj:~BaseCost", "scorer.param": "any", "scorer.evaluation_type": "str"},
    ensures={"wraps_this_cost": "typeis(result, 'LocalAnomalyScore') and result.cost is scorer"},
    props=["C06"],
)
contract(
    target=f"{AS}::to_local_anomaly_score", variant="local_score",
    params={"scorer": "obj:~BaseLocalAnomalyScore"},
    ensures={"passes_through": "result is scorer"},
    props=["C06"],
)
