"""Contracts of the penalty / threshold functions (C15); LOG and SQRT uninterpreted, axioms by explicit instances."""
from pyvc.contracts import contract

MV = "skchange/anomaly_detectors/mvcapa.py"
CAPA_PEN = lambda n, k: f"({k} + 2 * SQRT({k} * LOG({n})) + 2 * LOG({n}))"

contract(
    target=f"{MV}::capa_penalty",
    params={"n": "int", "n_params": "int", "scale": "real"},
    requires=["n >= 1", "n_params >= 0", "scale >= 0"],
    uses=["AX_LOG_ge0(n)"],
    returns="real",
    ensures={
        "formula": f"result == scale * {CAPA_PEN('n', 'n_params')}",
        "nonneg": "result >= 0",
    },
    props=["C15"],
)
contract(
    target=f"{MV}::dense_mvcapa_penalty",
    params={"n": "int", "p": "int", "n_params_per_variable": "int", "scale": "real"},
    requires=["n >= 1", "p >= 1", "n_params_per_variable >= 1", "scale >= 0"],
    returns="(real,real[p])",
    ensures={
        "alpha": f"result[0] == scale * {CAPA_PEN('n', '(p * n_params_per_variable)')}",
        "betas": "len(result[1]) == p and forall(range(p), lambda j: result[1][j] == 0)",
        "nonneg": "result[0] >= 0",
    },
    props=["C15"],
)
contract(
    target=f"{MV}::sparse_mvcapa_penalty",
    params={"n": "int", "p": "int", "n_params_per_variable": "int", "scale": "real"},
    requires=["n >= 1", "p >= 1", "n_params_per_variable >= 1", "scale >= 0"],
    uses=["AX_LOG_ge0(n)", "AX_LOG_ge0(n_params_per_variable * p)"],
    returns="(real,real[p])",
    ensures={
        "alpha": "result[0] == 2 * scale * LOG(n)",
        "betas": "len(result[1]) == p and forall(range(p), lambda j: result[1][j] == 2 * scale * LOG(n_params_per_variable * p))",
        "nonneg": "result[0] >= 0 and forall(range(p), lambda j: result[1][j] >= 0)",
    },
    props=["C15"],
)
# intermediate penalty: chi2.ppf / chi2.pdf are outside the verifier's reach -> assumed shape contract with an uninterpreted cumulative penalty
contract(
    target=f"{MV}::intermediate_mvcapa_penalty", assumed=True, level="A",
    params={"n": "int", "p": "int", "n_params_per_variable": "int", "scale": "real"},
    raises={"ValueError": "p < 2"},
    returns="(real,real[p])",
    ensures={
        "alpha": "result[0] == 0",
        "betas": "len(result[1]) == p and forall(range(p), lambda j: result[1][j] == ICUM(n, p, n_params_per_variable, scale, j + 1)"
                 " - ICUM(n, p, n_params_per_variable, scale, j))",
        "cum0": "ICUM(n, p, n_params_per_variable, scale, 0) == 0",
    },
    note="scipy chi2.ppf/pdf and np.vectorize are opaque: betas are the increments of an uninterpreted cumulative penalty ICUM(n,p,k,scale,q); "
         "non-negativity / monotonicity of ICUM is checked numerically by the bounded tier only",
)
for _fn in ("dense", "sparse", "intermediate", "combined"):
    contract(
        target=f"{MV}::capa_penalty_factory", variant=_fn,
        params={"penalty": f"str={_fn}"},
        returns=f"=funcref('{MV}::{_fn}_mvcapa_penalty')",
        ensures={"dispatch": f"typeis(result, '{_fn}_mvcapa_penalty')"},
        props=["C15"],
    )

_PD = f"scale * {CAPA_PEN('n', '(p * n_params_per_variable)')}"
_PS = lambda q: f"(2 * scale * LOG(n) + {q} * (2 * scale * LOG(n_params_per_variable * p)))"
_PI = lambda q: f"ICUM(n, p, n_params_per_variable, scale, {q})"
_MIN3 = lambda q: f"ite({q} == 0, 0, min({_PD}, {_PS(q)}, {_PI(q)}))"
contract(
    target=f"{MV}::combined_mvcapa_penalty", variant="p>=2",
    params={"n": "int", "p": "int", "n_params_per_variable": "int", "scale": "real"},
    requires=["n >= 1", "p >= 2", "n_params_per_variable >= 1", "scale >= 0"],
    returns="(real,real[p])",
    ensures={
        "alpha": "result[0] == 0",
        # cumulative penalty for q components == pointwise minimum of the individually computed dense / sparse / intermediate ones
        "is_pointwise_min": f"len(result[1]) == p and forall(range(p), lambda j: result[1][j] == {_MIN3('(j + 1)')} - {_MIN3('j')})",
    },
    ghost=[
        ("after:dense_penalties = *",
         "assert forall(range(p), lambda q: using(L_cumsum_tel(lam('real', p, lambda i: dense_penalties[i] - dense_alpha), dense_betas, lam('real', p + 1, lambda i: 0 * i)), dense_penalties[q] == dense_alpha))"),
        ("after:sparse_penalties = *",
         f"assert forall(range(p), lambda q: using(L_cumsum_tel(lam('real', p, lambda i: sparse_penalties[i] - sparse_alpha), sparse_betas, lam('real', p + 1, lambda i: i * (2 * scale * LOG(n_params_per_variable * p)))), sparse_penalties[q] == {_PS('(q + 1)')}))"),
        ("after:intermediate_penalties = *",
         f"assert forall(range(p), lambda q: using(L_cumsum_tel(lam('real', p, lambda i: intermediate_penalties[i] - intermediate_alpha), intermediate_betas, lam('real', p + 1, lambda i: {_PI('i')})), intermediate_penalties[q] == {_PI('(q + 1)')}))"),
    ],
    props=["C15"],
)
contract(
    target=f"{MV}::combined_mvcapa_penalty", variant="p=1",
    params={"n": "int", "p": "int=1", "n_params_per_variable": "int", "scale": "real"},
    requires=["n >= 1", "n_params_per_variable >= 1", "scale >= 0"],
    returns="(real,real[1])",
    ensures={"dense": f"result[0] == scale * {CAPA_PEN('n', '(1 * n_params_per_variable)')} and len(result[1]) == 1 and result[1][0] == 0"},
    props=["C15"],
)

# default penalties / thresholds (static methods)
contract(
    target="skchange/change_detectors/pelt.py::PELT.get_default_penalty",
    params={"n": "int", "p": "int"}, requires=["n >= 1", "p >= 1"], returns="real",
    ensures={"formula": "result == 2 * p * LOG(n)"}, props=["C15"],
)
contract(
    target="skchange/change_detectors/seeded_binseg.py::SeededBinarySegmentation.get_default_threshold",
    params={"n": "int", "p": "int"}, requires=["n >= 1", "p >= 1"], uses=["AX_LOG_ge0(n)"], returns="real",
    ensures={"formula": "result == 2 * p * SQRT(LOG(n))"}, props=["C15"],
)
contract(
    target="skchange/anomaly_detectors/circular_binseg.py::CircularBinarySegmentation.get_default_threshold",
    params={"n": "int", "p": "int", "max_interval_length": "int"}, requires=["n >= 1", "p >= 1", "max_interval_length >= 1"], returns="real",
    ensures={"formula": "result == 2 * p * LOG(n * max_interval_length)"}, props=["C15"],
)
