"""Assumed contracts on external code (sktime, pandas): DESIGN Appendix C. Everything here is an assumption (level A)."""
from __future__ import annotations

import z3

from pyvc.symex import Raise
from pyvc.values import NONE, Arr, FuncRef, Lst, ObjRef, Opaque, Unsupported, is_concrete, mk_not

from .theory import EXTERNALS, external, extmethod


@external("sktime.utils.validation.series.check_series")
def _check_series(eng, st, args, kw, node):
    eng.note_assumption("sktime: check_series(X, allow_index_names=True) returns X itself for ndarray / Series / DataFrame input")
    return [(st, args[0])]


@extmethod("check_is_fitted")
def _check_is_fitted(eng, st, o, args, kw, node):
    eng.note_assumption("sktime: check_is_fitted() raises NotFittedError iff self._is_fitted is false")
    f = st.heap[o.oid].get("_is_fitted")
    if f is None:
        raise Unsupported("check_is_fitted on an object without a declared _is_fitted")
    if f is True:
        return [(st, NONE)]
    if f is False:
        return [(st, Raise("NotFittedError", node))]
    s2 = st.fork()
    s2.assume(mk_not(f))
    st.assume(f)
    return [(st, NONE), (s2, Raise("NotFittedError", node))]


def _is_fitted_attr(eng, st, o, node):
    eng.note_assumption("sktime: the is_fitted property returns self._is_fitted")
    return st.heap[o.oid]["_is_fitted"]


EXTERNALS[("attr", "is_fitted")] = _is_fitted_attr


def init_param_names(eng, ci):
    init = eng.repo.find_method(ci, "__init__")
    return [p for p, _ in init.params[1:]] if init else []


def reinit(eng, st, o: ObjRef, overrides, node):
    """Re-run the class __init__ on object o with its current hyper-parameters (sktime reset / clone)."""
    ci = o.cls
    names = init_param_names(eng, ci)
    cur = st.heap[o.oid]
    vals = {}
    for n in names:
        if n in overrides:
            vals[n] = overrides[n]
        elif n in cur:
            vals[n] = cur[n]
        else:
            raise Unsupported(f"clone/reset: hyper-parameter {n} of {ci.name} not set")
    st.heap[o.oid] = {}
    init = eng.repo.find_method(ci, "__init__")
    fr = FuncRef("method", init, self_obj=o, name=f"{ci.name}.__init__")
    outs = eng.heavy_call(st, fr, [], vals, node)
    return [(s2, out if isinstance(out, Raise) else o) for s2, out in outs]


@extmethod("clone")
def _clone(eng, st, o, args, kw, node):
    eng.note_assumption("sktime: clone() builds a new object of the same class from get_params() (nested estimators cloned) "
                        "without touching the original")
    new = eng.alloc(st, o.cls, abstract=getattr(o, "abstract", False))
    names = init_param_names(eng, o.cls)
    cur = st.heap[o.oid]
    if getattr(o, "abstract", False):
        # interface-typed object: the clone carries the same declared hyper-parameter fields, unfitted
        # fitted state is dropped; ghost *traits* (immutable facts about the configuration: parameter count, per-variable output, kind) are kept
        fitted_state = ("ghost_tok", "ghost_n", "ghost_p", "ghost_q", "ghost_clone_of", "_is_fitted", "_X")
        st.heap[new.oid] = {k: v for k, v in cur.items() if k not in fitted_state}
        st.heap[new.oid]["_is_fitted"] = False
        st.heap[new.oid]["ghost_clone_of"] = o
        return [(st, new)]
    vals = {}
    for n in names:
        v = cur[n]
        if isinstance(v, ObjRef):
            sub = _clone(eng, st, v, [], {}, node)
            v = sub[0][1]
        vals[n] = v
    st.heap[new.oid] = dict(vals)
    return reinit(eng, st, new, {}, node)


@extmethod("set_params")
def _set_params(eng, st, o, args, kw, node):
    eng.note_assumption("sktime: set_params(**kw) assigns the hyper-parameters and calls reset(), which re-runs __init__")
    if getattr(o, "abstract", False):
        for k, v in kw.items():
            st.heap[o.oid][k] = v
        return [(st, o)]
    return reinit(eng, st, o, kw, node)


@external("sktime_base.__init__")
def _base_init(eng, st, args, kw, node):
    eng.note_assumption("sktime: BaseEstimator/BaseObject.__init__ only initialises tag/config bookkeeping (no fitted state)")
    return [(st, NONE)]


@extmethod("get_class_tag")
def _get_class_tag(eng, st, o, args, kw, node):
    return [(st, Opaque("tag", args[0] if args else None))]


@external("pandas.Interval")
def _pd_interval(eng, st, args, kw, node):
    closed = kw.get("closed", args[2] if len(args) > 2 else "right")
    return [(st, Opaque("interval", (args[0], args[1], closed)))]


# ----------------------------------------------------------------------------- pandas glue (assumed): frames are modelled by their 2-D values
@external("pandas.Series")
def _pd_series(eng, st, args, kw, node):
    eng.note_assumption("pandas: pd.Series(values, index=..., name=...) holds exactly `values` (positionally)")
    return [(st, Opaque("series", args[0]))]


@external("pandas.DataFrame")
def _pd_dataframe(eng, st, args, kw, node):
    eng.note_assumption("pandas: pd.DataFrame(values, columns=[..], dtype=..) holds exactly `values` (positionally)")
    return [(st, Opaque("frame", args[0] if args else kw))]
