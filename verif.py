#!/usr/bin/env python3
"""CLI of the skchange verification machinery.

  verif.py prove <substring> [--repo R] [--no-cache] [-v]   debug: verify the contracts whose ident/target contains substring
  verif.py check <Cxx> [--tier quick|thorough] [--repo R]   per-property check (registered in MANIFEST.json)
  verif.py replay <file>                                   re-run a stored violation against the current tree
  verif.py selftest                                        engine self tests (numpy axioms, vacuity, mutants)
"""
import argparse
import os
import sys

HERE = os.path.dirname(os.path.abspath(__file__))
sys.path.insert(0, HERE)
os.environ.setdefault("PYTHONDONTWRITEBYTECODE", "1")
sys.dont_write_bytecode = True


def cmd_prove(a):
    from vlib import prove
    reg = prove.load_specs()
    sel = []
    for t, lst in reg.items():
        for i, c in enumerate(lst):
            if (c.ident == a.pattern) if getattr(a, "exact", False) else (a.pattern in c.ident or a.pattern in t):
                if not c.assumed:
                    sel.append((t, i))
    res = prove.run(a.repo, sel, jobs=a.jobs, use_cache=not a.no_cache)
    bad = 0
    for r in res:
        obs = r["obligations"]
        n_ok = sum(1 for o in obs if o["status"] == "proved")
        print(f"== {r.get('ident', r['target'])}: {n_ok}/{len(obs)} proved, paths={r.get('n_paths')} wall={r.get('wall_s', 0):.2f}s vac={r.get('vacuity_requires')} paths-vac={r.get('vacuity_paths')} ({r.get('vacuity_wall_s')}s)")
        if r.get("unsupported"):
            print("   UNSUPPORTED:", r["unsupported"]); bad += 1
        if r.get("error"):
            print("   ERROR:", r["error"]); bad += 1
        for o in obs:
            if o["status"] != "proved" or a.verbose:
                print(f"   {o['status']:8s} {o['backend']:10s} {o['time_s']:7.2f}s {o['id']} {o.get('reason','')}")
                if o["status"] == "refuted" and a.verbose > 1:
                    print("      model:", o.get("model", "")[:1500])
            if o["status"] != "proved":
                bad += 1
        if a.verbose:
            for x in r.get("assumptions", []):
                print("   assumes:", x)
            print("   inlined:", r.get("inlined"), "uses:", r.get("used_contracts"))
    return 1 if bad else 0


def main():
    ap = argparse.ArgumentParser()
    sub = ap.add_subparsers(dest="cmd", required=True)
    p = sub.add_parser("prove")
    p.add_argument("pattern")
    p.add_argument("--repo", default="/repo")
    p.add_argument("--no-cache", action="store_true")
    p.add_argument("--jobs", type=int, default=16)
    p.add_argument("-v", "--verbose", action="count", default=0)
    p.add_argument("--exact", action="store_true", help="pattern is the exact contract ident")
    p = sub.add_parser("check")
    p.add_argument("prop")
    p.add_argument("--tier", default=os.environ.get("VERIF_TIER", "quick"))
    p.add_argument("--repo", default="/repo")
    p.add_argument("--jobs", type=int, default=16)
    p.add_argument("--no-cache", action="store_true")
    p = sub.add_parser("replay")
    p.add_argument("file")
    p.add_argument("--repo", default="/repo")
    p = sub.add_parser("selftest")
    p.add_argument("--repo", default="/repo")
    a = ap.parse_args()
    if a.cmd == "prove":
        sys.exit(cmd_prove(a))
    if a.cmd == "check":
        from vlib import check
        sys.exit(check.main(a))
    if a.cmd == "replay":
        from vlib import replay
        sys.exit(replay.main(a))
    if a.cmd == "selftest":
        from vlib import selftest
        sys.exit(selftest.main(a))


if __name__ == "__main__":
    main()
