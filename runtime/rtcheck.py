"""Native cross-check of the sidecar contracts (bounded, run-time; never counted as proved).

For every non-assumed contract whose parameters are plain values (numbers, arrays, lists, strings) the REAL function of /repo is called
on random small inputs that satisfy `requires`, and `ensures` / `raises` are evaluated natively by CPython on the real result. The contract
language is Python syntax, so the clauses are compiled after an AST rewrite (lazy implies/ite, old(), using/have dropped to their
conclusion) in an environment that implements forall/exists and the data spec functions (SUM, SSQ, SQDEV, RSS, PrefixSum, LOG, ...) directly.

Purpose (guidance: "CPython cross-check once one function verifies"): a clause that the deductive engine discharged but that fails natively
exposes an unsound encoding (or a contract that the engine proved vacuously); a clause that never gets a sample is reported as not covered.
Floats: data are small dyadic rationals, `==`/`<=` on reals are compared with a 1e-9 relative tolerance.
"""
from __future__ import annotations

import ast
import copy
import importlib
import importlib.util
import math
import os
import pkgutil
import random
import sys
import time

import numpy as np

TOL = 1e-9
ATOL = 1e-22     # absolute slack only far below the smallest constant compared against (the 1e-16 variance floor)


class R(float):
    """float with tolerant ==, <=, >= (strict comparisons stay exact unless the operands are equal up to the tolerance)."""

    def _close(self, o):
        try:
            o = float(o)
        except Exception:
            return False
        if math.isnan(self) or math.isnan(o):
            return False
        return abs(float(self) - o) <= TOL * max(abs(float(self)), abs(o)) + ATOL

    def __eq__(self, o): return self._close(o)
    def __ne__(self, o): return not self._close(o)
    def __le__(self, o): return float(self) <= float(o) or self._close(o)
    def __ge__(self, o): return float(self) >= float(o) or self._close(o)
    def __lt__(self, o): return float(self) < float(o) and not self._close(o)
    def __gt__(self, o): return float(self) > float(o) and not self._close(o)
    __hash__ = float.__hash__


def _wrapnum(f):
    def g(self, o):
        r = f(float(self), float(o))
        return R(r)
    return g


for _op in ("add", "sub", "mul", "truediv", "pow"):
    setattr(R, f"__{_op}__", _wrapnum(getattr(float, f"__{_op}__")))
    setattr(R, f"__r{_op}__", _wrapnum(getattr(float, f"__r{_op}__")))
R.__neg__ = lambda self: R(-float(self))
R.__abs__ = lambda self: R(abs(float(self)))


def wrap(v):
    """wrap a native value for clause evaluation"""
    if isinstance(v, A):
        return v
    if isinstance(v, np.ndarray):
        return A(v)
    if isinstance(v, (bool, np.bool_)):
        return bool(v)
    if isinstance(v, (int, np.integer)):
        return int(v)
    if isinstance(v, (float, np.floating)):
        return R(float(v))
    if isinstance(v, tuple):
        return tuple(wrap(x) for x in v)
    if isinstance(v, list):
        return [wrap(x) for x in v]
    return v


class A:
    """read-only view of an ndarray returning wrapped scalars"""

    def __init__(self, a):
        self.a = np.asarray(a)

    @property
    def shape(self):
        return tuple(int(d) for d in self.a.shape)

    @property
    def dtype(self):
        return self.a.dtype

    def __len__(self):
        return len(self.a)

    def __getitem__(self, idx):
        if isinstance(idx, tuple):
            idx = tuple(int(i) if isinstance(i, (int, np.integer)) and not isinstance(i, bool) else i for i in idx)
            for i, d in zip(idx, self.a.shape):
                if isinstance(i, int) and not (0 <= i < d):
                    raise IndexError(f"spec index {idx} outside shape {self.a.shape}")
        elif isinstance(idx, (int, np.integer)):
            if not (0 <= idx < self.a.shape[0]):
                raise IndexError(f"spec index {idx} outside shape {self.a.shape}")
        return wrap(self.a[idx])

    def __iter__(self):
        return (wrap(x) for x in self.a)

    def __eq__(self, o):
        raise TypeError("array == in a clause")


class O:
    """read-only view of a real object: attribute values are wrapped for clause evaluation"""

    def __init__(self, obj):
        object.__setattr__(self, "_obj", obj)

    def __getattr__(self, name):
        return wrap(getattr(object.__getattribute__(self, "_obj"), name))

    def __eq__(self, o):
        return isinstance(o, O) and object.__getattribute__(o, "_obj") is object.__getattribute__(self, "_obj")

    __hash__ = object.__hash__


CONCRETE = {"L2Cost": "skchange.costs.l2_cost", "GaussianVarCost": "skchange.costs.gaussian_var_cost", "CUSUM": "skchange.change_scores.cusum",
            "L2Saving": "skchange.anomaly_scores.l2_saving", "GaussianCovCost": "skchange.costs.gaussian_cov_cost"}
CUT_ENTRIES = {"L2Cost": 2, "GaussianVarCost": 2, "CUSUM": 3, "L2Saving": 2, "GaussianCovCost": 2}


# ----------------------------------------------------------------------------- clause compilation
class _Rewrite(ast.NodeTransformer):
    def visit_Call(self, node):
        self.generic_visit(node)
        f = node.func.id if isinstance(node.func, ast.Name) else None
        if f == "forall" and node.keywords:
            node.keywords = [k for k in node.keywords if k.arg != "trig"]
        if f == "implies":
            return ast.BoolOp(ast.Or(), [ast.UnaryOp(ast.Not(), node.args[0]), node.args[1]])
        if f == "ite":
            return ast.IfExp(node.args[0], node.args[1], node.args[2])
        if f == "using":
            return node.args[-1]
        if f == "have":
            return ast.BoolOp(ast.And(), list(node.args))
        if f == "old":
            class Ren(ast.NodeTransformer):
                def visit_Name(self, n):
                    return ast.copy_location(ast.Name("__old_" + n.id, n.ctx), n) if n.id in _Rewrite.params else n
            return Ren().visit(node.args[0])
        return node

    params: set = set()


def compile_clause(src, params):
    tree = ast.parse(src.strip(), mode="eval")
    _Rewrite.params = set(params)
    tree = _Rewrite().visit(tree)
    ast.fix_missing_locations(tree)
    return compile(tree, "<clause>", "eval")


def _ranges(args):
    *rs, f = args
    return rs, f


def _forall(*args, trig=None):
    rs, f = _ranges(args)
    if len(rs) == 1:
        return all(f(i) for i in rs[0])
    if len(rs) == 2:
        return all(f(i, j) for i in rs[0] for j in rs[1])
    return all(f(i, j, k) for i in rs[0] for j in rs[1] for k in rs[2])


def _exists(*args):
    rs, f = _ranges(args)
    if len(rs) == 1:
        return any(f(i) for i in rs[0])
    if len(rs) == 2:
        return any(f(i, j) for i in rs[0] for j in rs[1])
    return any(f(i, j, k) for i in rs[0] for j in rs[1] for k in rs[2])


def _col(X, j, s, e):
    return [float(X.a[i, j]) for i in range(int(s), int(e))]


def _prefix(square):
    def f(S, X):
        n, p = X.shape
        if S.shape != (n + 1, p):
            return False
        for j in range(p):
            if not R(S.a[0, j]) == 0:
                return False
            for i in range(n):
                inc = X.a[i, j] ** 2 if square else X.a[i, j]
                if not R(S.a[i + 1, j]) == S.a[i, j] + inc:
                    return False
        return True
    return f


def _sqdev(X, j, s, e, mu):
    return R(sum((x - float(mu)) ** 2 for x in _col(X, j, s, e)))


def _rss(X, j, s, e):
    c = _col(X, j, s, e)
    mu = sum(c) / len(c)
    return R(sum((x - mu) ** 2 for x in c))


def base_env(repo):
    def icum(n, p, k, scale, q):
        mv = importlib.import_module("skchange.anomaly_detectors.mvcapa")
        _, betas = mv.intermediate_mvcapa_penalty(int(n), int(p), int(k), float(scale))
        return R(float(np.sum(betas[: int(q)])))

    def _cov(X, *se):
        a = X.a if not se else X.a[int(se[0]):int(se[1])]
        pp = a.shape[1]
        cov = np.cov(a, rowvar=False, ddof=0).reshape(pp, pp)
        return np.linalg.slogdet(cov)

    env = {
        "LOGDETCOV": lambda X, *se: R(float(_cov(X, *se)[1])), "COVPD": lambda X, *se: bool(_cov(X, *se)[0] > 0),
        "forall": _forall, "exists": _exists, "iff": lambda a, b: bool(a) == bool(b), "len": len, "range": range, "min": min, "max": max, "abs": abs,
        "shape": lambda a: a.shape, "SUM": lambda X, j, s, e: R(sum(_col(X, j, s, e))), "SSQ": lambda X, j, s, e: R(sum(x * x for x in _col(X, j, s, e))),
        "SQDEV": _sqdev, "RSS": _rss, "PrefixSum": _prefix(False), "PrefixSumSq": _prefix(True),
        "LOG": lambda x: R(math.log(float(x))), "SQRT": lambda x: R(math.sqrt(float(x))), "PI": R(math.pi),
        "isnan_": lambda x: isinstance(x, float) and math.isnan(x), "optval": lambda x: x, "isint_": lambda x: float(x).is_integer(), "to_int": lambda x: int(x),
        "kindis": lambda a, k: (a.dtype.kind == {"real": "f", "int": "i", "bool": "b"}[k]), "typeis": lambda f, name: getattr(f, "__name__", None) == name,
        "vsum": lambda a: R(float(np.sum(a.a))), "rowsum": lambda a, i: R(float(np.sum(a.a[int(i)]))), "is_none": lambda v: v is None,
        "LSUM": lambda name, lst, k, g: R(sum(float(g(lst[q])) for q in range(int(k)))),
        "ICUM": icum, "True": True, "False": False, "int": int, "float": float, "all": all, "any": any, "sum": sum,
    }
    return env


# ----------------------------------------------------------------------------- input generation
def gen_scalar(kind, rng, name=""):
    if kind == "int":
        return rng.choice([-1, 0, 1, 1, 2, 2, 3, 3, 4, 5, 6, 8])
    if kind == "real":
        return rng.choice([-1.0, 0.0, 0.5, 1.0, 1.5, 2.0, 2.0, 3.0, 0.25, 1.25, 4.0])
    if kind == "bool":
        return rng.random() < 0.5
    raise ValueError(kind)


def gen_value(tstr, dims, rng, name):
    from pyvc.types import parse_type
    return gen_value_ts(parse_type(tstr), dims, rng, name)


def gen_value_ts(ts, dims, rng, name):
    tstr = str(ts)
    b = ts.base
    if b in ("int", "real", "bool"):
        if ts.const is not None:
            return ts.const if b != "real" else float(ts.const)
        return gen_scalar(b, rng, name)
    if b == "none":
        return None
    if b == "str":
        return ts.const if ts.const is not None else "name"
    if b == "arr":
        shape = []
        for d in ts.dims:
            d = d.strip()
            if d.isdigit():
                shape.append(int(d))
            else:
                if d not in dims:
                    try:
                        dims[d] = int(eval(d, {}, dict(dims)))
                    except Exception:
                        dims[d] = rng.choice([0, 1, 1, 2, 2, 3, 4, 5])
                shape.append(dims[d])
        if any(s < 0 for s in shape):
            raise _Reject()
        if ts.elem == "int":
            return np.array([rng.randint(-1, 7) for _ in range(int(np.prod(shape)))], dtype=np.int64).reshape(shape)
        if ts.elem == "bool":
            return np.array([rng.random() < 0.5 for _ in range(int(np.prod(shape)))], dtype=bool).reshape(shape)
        if ts.elem == "real":
            return np.array([rng.randint(-6, 6) / 2.0 for _ in range(int(np.prod(shape)))], dtype=float).reshape(shape)
        if ts.elem == "nreal":     # float array holding nan or integers (back-pointer arrays)
            return np.array([float("nan") if rng.random() < 0.4 else float(rng.randint(-1, 6)) for _ in range(int(np.prod(shape)))], dtype=float).reshape(shape)
        raise _Skip(f"array elem {ts.elem}")
    if b == "tuple":
        return tuple(gen_value_ts(t, dims, rng, name) for t in ts.elem)
    if b == "list":
        k = rng.choice([0, 1, 2, 3])
        if isinstance(ts.elem, tuple):
            return [tuple(gen_scalar(kd, rng) for kd in ts.elem[1]) for _ in range(k)]
        return [gen_scalar(ts.elem, rng) for _ in range(k)]
    raise _Skip(f"type {tstr}")


def make_object(c, dims, rng):
    """real instance of the concrete scorer class named by the contract, hyper-parameters per the declared type of self.param,
    fitted on random data when the contract declares self._is_fitted == True"""
    from pyvc.types import parse_type
    cls_name = c.params["self"].split(":", 1)[1]
    cls = getattr(importlib.import_module(CONCRETE[cls_name]), cls_name)
    xt = c.params.get("self._X", "any")
    fitted = c.params.get("self._is_fitted") == "bool=True"
    X0 = None
    if fitted or rng.random() < 0.5:
        X0 = gen_value(xt if xt.startswith("real[") else c.params.get("X", "real[n,p]"), dims if fitted else {}, rng, "X0")
    if not fitted and "X" in c.params:
        gen_value(c.params["X"], dims, rng, "X")        # fix n, p before the hyper-parameters that depend on p
    kw = {}
    if "self.param" in c.params:
        ts = parse_type(c.params["self.param"])
        v = gen_value_ts(ts, dims, rng, "param")
        if ts.base == "tuple":        # (mean, var): var must be positive
            v = (v[0], np.abs(v[1]) + 0.5 if isinstance(v[1], np.ndarray) else abs(v[1]) + 0.5)
        kw["param"] = v
    obj = cls(**kw)
    if X0 is not None:
        try:
            obj.fit(X0)
        except Exception:
            if fitted:
                raise _Reject()
            obj = cls(**kw)
    return obj


def valid_cuts(c, obj, dims, rng):
    """rows of increasing cut points inside [0, n] (mostly valid for the scorer), so that the value clauses are exercised"""
    cls_name = c.params["self"].split(":", 1)[1]
    k = CUT_ENTRIES[cls_name]
    n = dims.get("n", 0)
    rows = rng.choice([0, 1, 2, 3])
    if n < k:
        raise _Reject()
    out = np.array([sorted(rng.sample(range(n + 1), k)) for _ in range(rows)], dtype=np.int64).reshape(rows, k)
    dims["r"], dims["c"] = rows, k
    return out


class _Skip(Exception):
    pass


class _Reject(Exception):
    pass


# constructive generators for requires that rejection sampling cannot hit
def smart(c, vals, dims, rng, ghosts=None):
    """Adjust generated inputs so that common structured preconditions hold (prefix-sum arrays, ordered cut arrays, back-pointer arrays)."""
    names = set(c.params)
    req = " ".join(c.requires)
    if {"starts", "ends"} <= names and "sums" in names and isinstance(vals.get("sums"), np.ndarray):
        m = vals["sums"].shape[0]
        k = len(vals["starts"])
        if m < (3 if "splits" in names else 2):
            raise _Reject()
        for i in range(k):
            pts = sorted(rng.sample(range(m), 3 if "splits" in names else 2))
            vals["starts"][i], vals["ends"][i] = pts[0], pts[-1]
            if "splits" in names:
                vals["splits"][i] = pts[1]
    if {"starts", "ends", "X"} <= names and "sums" not in names and isinstance(vals.get("X"), np.ndarray):
        n = vals["X"].shape[0]
        if n < 1:
            raise _Reject()
        for i in range(len(vals["starts"])):
            a_ = rng.randint(0, n - 1)
            vals["starts"][i], vals["ends"][i] = a_, rng.randint(a_ + 1, n)
    if "prev_cpts" in names:
        a = vals["prev_cpts"]
        for u in range(1, len(a) + 1):
            a[u - 1] = rng.randint(0, u - 1)
    if c.ident == "check_cuts_array<int2d>" and rng.random() < 0.6:
        r_, c_ = vals["cuts"].shape
        vals["last_dim_size"] = c_
        vals["min_size"] = rng.choice([0, 1, 1, 2])
        for i in range(r_):
            row = [rng.randint(0, 3)]
            for _ in range(c_ - 1):
                row.append(row[-1] + vals["min_size"] + rng.choice([0, 0, 1, 2]))
            vals["cuts"][i, :] = row[:c_]
    if c.ident == "get_anomalies" and ghosts is not None:
        n = len(vals["anomaly_starts"])
        ghosts["m"] = rng.choice([2, 2, 3])
        ghosts["M"] = ghosts["m"] + rng.choice([0, 1, 3])
        a = vals["anomaly_starts"]
        for u in range(n):
            r = rng.random()
            lo, hi = u + 1 - ghosts["M"], u + 1 - ghosts["m"]
            if r < 0.45 or (r >= 0.7 and hi < 0):
                a[u] = float("nan")
            elif r < 0.7:
                a[u] = float(u)
            else:
                a[u] = float(rng.randint(max(lo, 0), hi))
        # value-carrying ghosts: random gains, V by the recurrence the back-pointers describe
        PP = np.array([rng.randint(-4, 8) / 2.0 for _ in range(n)], dtype=float)
        GC = np.array([[rng.randint(-4, 8) / 2.0 for _ in range(n + 1)] for _ in range(n + 1)], dtype=float).reshape(n + 1, n + 1)
        V = np.zeros(n + 1)
        for u in range(n):
            if np.isnan(a[u]):
                V[u + 1] = V[u]
            elif int(a[u]) == u:
                V[u + 1] = V[u] + PP[u]
            else:
                V[u + 1] = V[int(a[u])] + GC[int(a[u]), u + 1]
        ghosts["V"], ghosts["PP"], ghosts["GC"] = V, PP, GC
    if c.ident.startswith(("greedy_changepoint_selection", "greedy_anomaly_selection")) and ghosts is not None:
        K = len(vals["starts"])
        ghosts["m"] = rng.choice([1, 1, 2])
        ghosts["n"] = rng.choice([4, 6, 8, 10])
        for i in range(K):
            m, n = ghosts["m"], ghosts["n"]
            if n < 2 * m:
                raise _Reject()
            s_ = rng.randint(0, n - 2 * m)
            e_ = rng.randint(s_ + 2 * m, n)
            vals["starts"][i], vals["ends"][i] = s_, e_
            if "maximizers" in vals:
                vals["maximizers"][i] = rng.randint(s_ + m, e_ - m)
            else:
                a_ = rng.randint(s_, e_ - m)
                vals["anomaly_starts"][i], vals["anomaly_ends"][i] = a_, rng.randint(a_ + m, e_)
    if c.ident.startswith("gaussian_var_cost_fixed") or c.ident.startswith("var_from_sums") or c.ident.startswith("gaussian_var_cost_optim"):
        # sums / sums2 must be genuine prefix sums for the variance to be non-negative
        m, p = vals["sums"].shape
        if m < 2:
            raise _Reject()
        X = np.array([[rng.randint(-6, 6) / 2.0 for _ in range(p)] for _ in range(m - 1)], dtype=float).reshape(m - 1, p)
        vals["sums"][:] = np.concatenate([np.zeros((1, p)), np.cumsum(X, axis=0)])
        vals["sums2"][:] = np.concatenate([np.zeros((1, p)), np.cumsum(X ** 2, axis=0)])
        if "var" in vals:
            vals["var"][:] = np.abs(vals["var"]) + 0.5
    return vals


def load_repo(repo):
    for m in [k for k in sys.modules if k == "skchange" or k.startswith("skchange.")]:
        del sys.modules[m]
    if repo not in sys.path:
        sys.path.insert(0, repo)


def resolve(repo, target):
    path, qual = target.split("::")
    mod = importlib.import_module(path[:-3].replace("/", "."))
    obj = mod
    for part in qual.split("."):
        obj = getattr(obj, part)
    return obj


_ABSTRACT = ("SC2(", "SC3(", "SC4(", "AGG", "PF(", "PA(", "CG(", "CA(", "PSC(", "SORTV(", "CUMPEN(", "MWTHR(", "HASNAN(")


def amenable(c):
    if c.assumed or c.inline:
        return False
    text = " ".join(list(c.requires) + list(c.ensures.values()) + list(c.raises.values()))
    if any(t in text for t in _ABSTRACT):
        return False        # clauses over uninterpreted scorer / optimum functions: covered by the bounded drivers' oracles instead
    tys = [v for k, v in c.params.items() if "." not in k and k != "self"] + list(c.ghost_params.values())
    if any(v.startswith(("obj", "fn", "any", "opt", "series", "frame")) for v in tys):
        return False
    if "self" in c.params:
        cls = c.params["self"].split(":", 1)[1]
        return cls in CONCRETE and not any(v.startswith("obj") for k, v in c.params.items() if k != "self")
    return True


def check_contract(c, repo, rng, samples, budget_s=6.0):
    """returns dict(ident, accepted, tried, failures=[...], skipped=reason|None)"""
    out = {"contract": c.ident, "accepted": 0, "tried": 0, "failures": [], "skipped": None, "returned": 0, "raised": 0}
    try:
        fn = resolve(repo, c.target)
    except Exception as e:
        out["skipped"] = f"cannot resolve: {e}"
        return out
    pnames = [k for k in c.params if "." not in k]
    gnames = list(c.ghost_params)
    env0 = base_env(repo)
    try:
        req = [compile_clause(r, pnames) for r in c.requires]
        # clauses over skolem witnesses / the sort permutation of the returned list have no native counterpart (the drivers simulate the greedy order)
        ens = {k: compile_clause(v, pnames) for k, v in c.ensures.items() if not any(t in v for t in ("WIT(", "sort_perm(", "sort_inv("))}
        rai = {k: compile_clause(v, pnames) for k, v in c.raises.items()}
        lets = {k: compile_clause(v, pnames) for k, v in c.lets.items()}
    except SyntaxError as e:
        out["skipped"] = f"clause syntax: {e}"
        return out
    t0 = time.time()
    while out["accepted"] < samples and time.time() - t0 < budget_s and out["tried"] < samples * 400:
        out["tried"] += 1
        dims, vals = {}, {}
        obj = None
        try:
            if "self" in c.params:
                obj = make_object(c, dims, rng)
            for k in pnames:
                if k == "self":
                    continue
                vals[k] = gen_value(c.params[k], dims, rng, k)
            if obj is not None and "cuts" in vals and rng.random() < 0.7:
                vals["cuts"] = valid_cuts(c, obj, dims, rng)
            ghosts = {g: gen_value(c.ghost_params[g], dims, rng, g) for g in gnames}
            vals = smart(c, vals, dims, rng, ghosts)
        except _Skip as e:
            out["skipped"] = str(e)
            return out
        except _Reject:
            continue
        env = dict(env0)
        env.update({d: v for d, v in dims.items() if d.isidentifier()})
        env.update({k: wrap(v) for k, v in vals.items()})
        env.update({k: wrap(v) for k, v in ghosts.items()})
        if obj is not None:
            env["self"] = O(obj)
        try:
            for k, code in lets.items():
                env[k] = eval(code, env)
            if not all(bool(eval(r, env)) for r in req):
                continue
        except (IndexError, ZeroDivisionError, ValueError, TypeError, KeyError, OverflowError):
            continue
        out["accepted"] += 1
        args = copy.deepcopy(vals)
        for k, v in vals.items():
            env["__old_" + k] = wrap(copy.deepcopy(v))
        exc = None
        if obj is not None:
            env["__old_self"] = O(copy.deepcopy(obj))
        try:
            res = fn(obj, **args) if obj is not None else fn(**args)
        except Exception as e:        # noqa: BLE001 - the contract decides which exceptions are expected
            exc, res = e, None
        env.update({k: wrap(v) for k, v in args.items()})     # post-state of (possibly mutated) arguments
        expected = None
        try:
            for name, code in rai.items():
                if bool(eval(code, env)):
                    expected = name
                    break
        except Exception as e:      # noqa: BLE001
            out["failures"].append({"clause": "raises", "input": _show(vals), "what": f"raises clause not evaluable: {type(e).__name__}: {e}"})
            continue
        out["raised" if exc is not None else "returned"] += 1
        if exc is not None or expected is not None:
            got = type(exc).__name__ if exc is not None else None
            if got != expected:
                out["failures"].append({"clause": "raises", "input": _show(vals), "what": f"contract expects {expected}, real code raised {got}: {exc}"})
            continue
        env["result"] = O(res) if (obj is not None and res is obj) else wrap(res)
        for name, code in ens.items():
            try:
                ok = bool(eval(code, env))
                why = "evaluates to False"
            except Exception as e:      # noqa: BLE001
                ok, why = False, f"not evaluable: {type(e).__name__}: {e}"
            if not ok:
                out["failures"].append({"clause": f"post[{name}]", "input": _show(vals), "what": f"{why}; result={_show(res)}"})
    return out


def build_args(c, shown):
    """rebuild native arguments from their JSON form (lists -> arrays of the declared element type)"""
    from pyvc.types import parse_type
    out = {}
    for k, v in shown.items():
        ts = parse_type(c.params[k])
        if ts.base == "arr":
            out[k] = np.array(v, dtype={"int": np.int64, "real": float, "bool": bool}[ts.elem])
        else:
            out[k] = v
    return out


def replay_input(repo, ident, shown):
    """Re-run one stored input of contract `ident` on the real function of `repo`; returns {'violated': bool, 'detail': str}."""
    here = os.path.dirname(os.path.dirname(os.path.abspath(__file__)))
    if here not in sys.path:
        sys.path.insert(0, here)
    import specs
    from pyvc.contracts import all_contracts
    for m in pkgutil.iter_modules(specs.__path__):
        importlib.import_module("specs." + m.name)
    load_repo(repo)
    c = next((x for x in all_contracts() if x.ident == ident), None)
    if c is None:
        return {"violated": False, "detail": f"no contract {ident}"}
    vals = build_args(c, shown)
    fn = resolve(repo, c.target)
    pnames = [k for k in c.params if "." not in k]
    env = base_env(repo)
    from pyvc.types import parse_type
    for k in pnames:
        ts = parse_type(c.params[k])
        if ts.base == "arr":
            for d, sz in zip(ts.dims, np.shape(vals[k])):
                if d.strip().isidentifier():
                    env[d.strip()] = int(sz)
    env.update({k: wrap(v) for k, v in vals.items()})
    for k, v in vals.items():
        env["__old_" + k] = wrap(copy.deepcopy(v))
    args = copy.deepcopy(vals)
    exc = None
    with np.errstate(all="ignore"):
        try:
            res = fn(**args)
        except Exception as e:      # noqa: BLE001
            exc, res = e, None
    env.update({k: wrap(v) for k, v in args.items()})
    expected = next((name for name, src in c.raises.items() if bool(eval(compile_clause(src, pnames), env))), None)
    got = type(exc).__name__ if exc is not None else None
    if got != expected:
        return {"violated": True, "detail": f"contract {ident} expects exception {expected}, real code raised {got}: {exc}"}
    if exc is not None:
        return {"violated": False, "detail": f"raises {got} as the contract says"}
    env["result"] = wrap(res)
    for name, src in c.ensures.items():
        if any(t in src for t in ("WIT(", "sort_perm(", "sort_inv(")):
            continue
        try:
            ok = bool(eval(compile_clause(src, pnames), env))
        except Exception as e:      # noqa: BLE001
            return {"violated": True, "detail": f"post[{name}] of {ident} not evaluable on the real result: {type(e).__name__}: {e}"}
        if not ok:
            return {"violated": True, "detail": f"post[{name}] of {ident} is False on the real result {_show(res)}"}
    return {"violated": False, "detail": "all clauses hold on this input"}


def _show(v):
    if isinstance(v, dict):
        return {k: _show(x) for k, x in v.items()}
    if isinstance(v, np.ndarray):
        return v.tolist()
    if isinstance(v, tuple):
        return [_show(x) for x in v]
    if callable(v):
        return getattr(v, "__name__", "fn")
    return v


def run(repo="/repo", samples=40, seed=0, pattern=""):
    here = os.path.dirname(os.path.dirname(os.path.abspath(__file__)))
    if here not in sys.path:
        sys.path.insert(0, here)
    import specs
    from pyvc.contracts import all_contracts
    for m in pkgutil.iter_modules(specs.__path__):
        importlib.import_module("specs." + m.name)
    load_repo(repo)
    rng = random.Random(seed)
    res = []
    for c in all_contracts():
        if pattern and pattern not in c.ident:
            continue
        if not amenable(c):
            continue
        with np.errstate(all="ignore"):
            res.append(check_contract(c, repo, rng, samples))
    return res


def main(argv):
    repo = "/repo"
    samples, seed, pattern = 40, int(os.environ.get("VERIF_SEED", "0")), ""
    for a in argv:
        if a.startswith("--repo="):
            repo = a.split("=", 1)[1]
        elif a.startswith("--samples="):
            samples = int(a.split("=")[1])
        elif not a.startswith("--"):
            pattern = a
    res = run(repo, samples, seed, pattern)
    bad = 0
    for r in res:
        st = "SKIP " + r["skipped"] if r["skipped"] else ("FAIL" if r["failures"] else ("ok" if r["accepted"] else "NO-SAMPLE"))
        print(f"{r['contract']:62} accepted={r['accepted']:3}/{r['tried']:5} returned={r['returned']:3} raised={r['raised']:3} {st}")
        for f in r["failures"][:2]:
            print("     ", f["clause"], f["what"][:300], "\n      input:", str(f["input"])[:300])
        bad += bool(r["failures"])
    print(f"rtcheck: {len(res)} contracts, {sum(r['accepted'] for r in res)} accepted samples, {bad} contracts with native failures, "
          f"{sum(1 for r in res if not r['accepted'] and not r['skipped'])} without sample")
    return 1 if bad else 0


if __name__ == "__main__":
    sys.exit(main(sys.argv[1:]))
