"""C01 bounded stand-in: cost values equal their definition on every admissible interval.

Scope: every (n, p) with 1 <= n <= 7 (thorough: 8), 1 <= p <= 3; per (n, p) a few seeded data matrices of two families
("grid": multiples of 1/4 with repeated values and constant runs, so that prefix sums are exact and the floored-variance
and the not-positive-definite corner cases are hit exactly; "normal": continuous floats with a per-column offset);
the three built-in costs in optimal-parameter mode and with scalar / length-1 / per-column / list / matrix fixed
parameters; EVERY interval 0 <= s < e <= n with e - s >= min_size, evaluated one at a time (compared with the direct
row-by-row oracle of runtime/oracles.py), then in one batch in lexicographic order, reversed, shuffled with duplicates,
and once more after other evaluations (batch / history independence), plus the output shape.

Oracle conventions: Gaussian cost at the MLE floors the variance at 1e-16 (a constant slice costs n*log(2 pi 1e-16)+n);
the multivariate cost must raise RuntimeError when the slice's sample covariance is not positive definite.
"Up to prefix-sum rounding" is implemented as: values are compared with common.close (1e-8 relative); column-slices whose
exact variance is positive but below 1e-6*(1+mean^2) are skipped (ill-conditioned), and for a covariance that is exactly
singular without an exactly-constant column, or whose determinant is below 1e-9 * prod(diag), both outcomes are accepted.
"""
from __future__ import annotations

import itertools
from fractions import Fraction

import numpy as np

from runtime import oracles
from runtime.common import TOL, Recorder, close, jsonable, use_repo

RULE = ("all intervals [s,e) with e-s>=min_size of each data matrix, per cost x parameter kind, single + batched; a case is "
        "non-trivial when the expected value is not identically 0 (a one-row optimal L2 cost is trivially 0) or the "
        "documented RuntimeError is expected, or it is a batch/history comparison of >=2 rows; "
        "distinct = (cost, parameter kind, data label, s, e | batch kind)")

OBS = {}
MIN_SIZE = {"L2Cost": lambda p: 1, "GaussianVarCost": lambda p: 2, "GaussianCovCost": lambda p: p + 1}
UNIVARIATE = {"L2Cost": True, "GaussianVarCost": True, "GaussianCovCost": False}


# ----------------------------------------------------------------------------------------------------------------- data
def datasets(tier, seed):
    """Yield (label, X, family)."""
    rng = np.random.default_rng(seed)
    nmax = 7 if tier == "quick" else 8
    reps = 2 if tier == "quick" else 6
    for n in range(1, nmax + 1):
        for p in (1, 2, 3):
            for r in range(reps):
                # grid: multiples of 1/4 in [-4, 4]; a constant run in every column, one duplicated column when p>1
                g = rng.integers(-16, 17, size=(n, p)) / 4.0
                if n >= 3:
                    a = int(rng.integers(0, n - 1))
                    b = int(rng.integers(a + 2, n + 1))
                    g[a:b, int(rng.integers(0, p))] = float(rng.integers(-8, 9)) / 4.0
                if p > 1 and r % 2 == 1:
                    g[:, 1] = g[:, 0]
                yield f"grid{r}-n{n}p{p}", g, "grid"
                x = rng.normal(size=(n, p)) * rng.uniform(0.5, 3.0, size=p) + rng.uniform(-10, 10, size=p)
                yield f"normal{r}-n{n}p{p}", x, "normal"
                if n >= 4 and r == 0:            # two-decimal data with a repeated value: exercises the skip rule (observation only)
                    d = np.round(x, 2)
                    d[n - 2, 0] = d[n - 3, 0]
                    yield f"decimal{r}-n{n}p{p}", d, "normal"
    if tier != "quick":
        for n, p in ((12, 2), (20, 3)):                       # a larger matrix (prefix sums accumulate more rounding)
            yield f"normal-n{n}p{p}", rng.normal(size=(n, p)) * 2 + rng.uniform(-20, 20, size=p), "normal"


def param_specs(cost, p, rng):
    """List of (kind, json_param, container) - json_param is a number / list structure, container 'array'|'list'."""
    m = [round(float(v), 2) for v in rng.uniform(-2, 2, size=p)]
    v = [round(float(x), 2) for x in rng.uniform(0.3, 3.0, size=p)]
    if cost == "L2Cost":
        return [("optim", None, "array"), ("scalar", 1.5, "array"), ("intscalar", 2, "array"), ("len1", [0.5], "array"),
                ("percol", m, "array"), ("percol-list", m, "list")]
    if cost == "GaussianVarCost":
        return [("optim", None, "array"), ("scalar", [0.5, 2.0], "array"), ("len1", [[-0.5], [0.7]], "array"),
                ("percol", [m, v], "array"), ("percol-list", [m, v], "list"),
                ("scalarmean-percolvar", [0.25, v], "array"), ("percolmean-scalarvar", [m, 1.3], "array"),
                # valid fixed variances far from 1 (data recorded in small / large units): no floor applies to a parameter the user gives
                ("scalar-tinyvar", [0.5, 1e-10], "array"), ("scalar-hugevar", [0.5, 1e8], "array")]
    a = rng.normal(size=(p, p))
    cov = np.round(a @ a.T + np.eye(p), 2)
    cov = ((cov + cov.T) / 2).tolist()
    return [("optim", None, "array"), ("scalar", [0.5, 1.5], "array"), ("percol-matrix", [m, cov], "array"),
            ("scalarmean-matrix", [-0.3, cov], "array"), ("len1mean-matrix", [[0.2], cov], "array"),
            ("percol-scalarcov", [m, 0.8], "array"), ("percol-matrix-list", [m, cov], "list"),
            # valid positive-definite covariances with tiny / huge eigenvalues (small / large units)
            ("percol-tinyscalarcov", [m, 1e-10], "array"), ("percol-tinymatrix", [m, (np.array(cov) * 1e-10).tolist()], "array"),
            ("percol-hugematrix", [m, (np.array(cov) * 1e8).tolist()], "array")]


def make_param(cost, jparam, container):
    """JSON parameter (numbers / lists) -> what is passed to the cost: lists become arrays unless container == 'list'."""
    def conv(x):
        if isinstance(x, list):
            return np.array(x, dtype=float) if container == "array" else x
        return x
    if jparam is None:
        return None
    if cost == "L2Cost":
        return conv(jparam)
    return (conv(jparam[0]), conv(jparam[1]))


def make_cost(cost, param):
    from skchange.costs import GaussianCovCost, GaussianVarCost, L2Cost
    return {"L2Cost": L2Cost, "GaussianVarCost": GaussianVarCost, "GaussianCovCost": GaussianCovCost}[cost](param=param)


# --------------------------------------------------------------------------------------------------------------- oracle
def oracle_param(cost, jparam):
    if jparam is None:
        return None
    if cost == "L2Cost":
        return np.asarray(jparam, dtype=float)
    return (np.asarray(jparam[0], dtype=float), np.asarray(jparam[1], dtype=float))


def exact_cov_det(x):
    """Exact determinant of the (ddof=0) sample covariance of the rows x and the list of exactly-constant columns
    (rational arithmetic; x must be exactly representable, which holds for the grid family)."""
    n, p = x.shape
    F = [[Fraction(float(v)) for v in row] for row in x]
    mean = [sum(F[i][j] for i in range(n)) / n for j in range(p)]
    c = [[sum((F[i][a] - mean[a]) * (F[i][b] - mean[b]) for i in range(n)) / n for b in range(p)] for a in range(p)]
    if p == 1:
        det = c[0][0]
    elif p == 2:
        det = c[0][0] * c[1][1] - c[0][1] * c[1][0]
    else:
        det = (c[0][0] * (c[1][1] * c[2][2] - c[1][2] * c[2][1]) - c[0][1] * (c[1][0] * c[2][2] - c[1][2] * c[2][0])
               + c[0][2] * (c[1][0] * c[2][1] - c[1][1] * c[2][0]))
    const = [j for j in range(p) if c[j][j] == 0]
    return det, const, [float(c[j][j]) for j in range(p)]


def expectation(cost, jparam, X, s, e, family):
    """-> (kind, value, mask): kind in 'value' | 'error' (RuntimeError demanded) | 'either' (rounding decides);
    mask marks the columns to compare (False = ill-conditioned, skipped)."""
    x = X[s:e]
    n, p = x.shape
    par = oracle_param(cost, jparam)
    if cost == "L2Cost":
        return "value", oracles.l2_cost(x, par), np.ones(p, bool)
    if cost == "GaussianVarCost":
        val = oracles.gaussian_var_cost(x, par)
        mask = np.ones(p, bool)
        if par is None:
            var = oracles.rss(x) / n
            msq = (x.mean(axis=0)) ** 2
            exact_const = np.all(x == x[0], axis=0)
            ill = (~exact_const) & (var < 1e-6 * (1 + msq))      # log(var) loses about eps * mean^2 / var: 1e-6 keeps that below TOL (seed 3 hit 2.6e-9)
            if family != "grid":                       # a constant slice of inexact data: the prefix sums need not cancel
                ill |= exact_const
            mask = ~ill
        return "value", val, mask
    # multivariate
    if par is not None:
        return "value", oracles.gaussian_cov_cost(x, par), np.ones(1, bool)
    if family == "grid":
        det, const, diag = exact_cov_det(x)
        if det <= 0:
            return ("error" if const else "either"), None, np.ones(1, bool)
        if float(det) < 1e-9 * float(np.prod(diag)):
            return "either", None, np.ones(1, bool)
    else:
        xc = x - x.mean(axis=0)
        cov = xc.T @ xc / n
        if np.linalg.det(cov) < 1e-9 * np.prod(np.diag(cov)):
            return "either", None, np.ones(1, bool)
    val = oracles.gaussian_cov_cost(x, None)
    if val is None:
        return "either", None, np.ones(1, bool)
    return "value", val, np.ones(1, bool)


# ---------------------------------------------------------------------------------------------------------------- check
def call(sc, cuts, dtype=np.int64):
    try:
        return sc.evaluate(np.array(cuts, dtype=dtype)), None
    except RuntimeError as e:
        return None, "RuntimeError"
    except Exception as e:          # anything else is never a permitted outcome for an admissible interval
        return None, f"{type(e).__name__}: {e}"[:160]


def check_single(rec, cost, kind, jparam, container, X, family, s, e, sc=None, data_dtype=None):
    """Evaluate the one interval [s,e) and compare with the definition.  Returns (nontrivial, row or None).
    data_dtype: the (integral) values of X are handed to fit in this integer dtype; the definition is computed from the float64 copy."""
    n, p = X.shape
    mode = "optim" if jparam is None else "fixed"
    inp = {"check": "single", "cost": cost, "kind": kind, "param": jparam, "container": container, "X": X, "family": family,
           "cuts": [[s, e]]}
    if data_dtype is not None:
        inp["data_dtype"] = np.dtype(data_dtype).name
        mode += f":data-{np.dtype(data_dtype).name}"
    if sc is None:
        sc = make_cost(cost, make_param(cost, jparam, container)).fit(X if data_dtype is None else X.astype(data_dtype))
    want, val, mask = expectation(cost, jparam, X, s, e, family)
    got, err = call(sc, [[s, e]])
    q = p if UNIVARIATE[cost] else 1
    if err is not None and err != "RuntimeError":
        rec.violation(f"{cost}:{mode}:raises", f"{cost}({kind}).evaluate([[{s},{e}]]) on n={n},p={p} raised {err}", "C01.value", inp)
        return True, None
    if want == "either":
        return False, (got[0] if got is not None else None)
    if want == "error":
        if err != "RuntimeError":
            rec.violation(f"{cost}:{mode}:notpd-no-error",
                          f"{cost}.evaluate([[{s},{e}]]): the slice has an exactly constant column (covariance not positive "
                          f"definite) but a value {got.tolist()} was returned instead of RuntimeError", "C01.error", inp)
        return True, None
    if err == "RuntimeError":
        rec.violation(f"{cost}:{mode}:spurious-error", f"{cost}({kind}).evaluate([[{s},{e}]]) raised RuntimeError although the "
                      f"slice's covariance is positive definite / the cost documents no error", "C01.error", inp)
        return True, None
    if got.shape != (1, q):
        rec.violation(f"{cost}:{mode}:shape", f"{cost}({kind}).evaluate of 1 interval on p={p} has shape {got.shape}, expected {(1, q)}",
                      "C01.shape", inp)
        return True, None
    if not mask.all():            # skipped (ill-conditioned) column-slices: keep the largest deviation as an observation only
        dev = float(np.max(np.abs(got[0][~mask] - np.asarray(val)[~mask])))
        o = OBS.setdefault("GaussianVarCost optimal: column-slices skipped as ill-conditioned (constant slice of inexact data, or "
                           "variance < 1e-6*(1+mean^2)); the floored value there depends on prefix-sum rounding",
                           {"skipped": 0, "max_abs_deviation": 0.0, "example": None})
        o["skipped"] += 1
        if dev > o["max_abs_deviation"]:
            o["max_abs_deviation"] = dev
            o["example"] = jsonable({"X": X, "interval": [s, e], "evaluate": got[0], "floored_definition": val})
    ok = close(got[0][mask], np.asarray(val)[mask])
    if not ok and data_dtype is not None and cost == "L2Cost":
        # large integral values: the prefix-sum form cancels numbers of the size of the slice's sum of squares (rounding ~1e-16 of it, whereas an
        # integer wrap-around is off by multiples of 2^16 / 2^32 / 2^64)
        slack = 1e-12 * (np.sum(X[s:e] ** 2, axis=0) + (e - s) * np.max(np.abs(np.asarray(oracle_param(cost, jparam) if jparam is not None else 0.0))) ** 2)
        ok = bool(np.all(np.abs(got[0] - np.asarray(val)) <= slack + TOL))
    if not ok:
        rec.violation(f"{cost}:{mode}:value", f"{cost}({kind}, param={jparam}).evaluate([[{s},{e}]]) = {got[0].tolist()} but the direct "
                      f"computation from X[{s}:{e}] gives {np.asarray(val).tolist()}", "C01.value", inp)
    return bool(np.any(np.abs(np.asarray(val)) > 0)), got[0]


def check_batch(rec, cost, kind, jparam, container, X, family, cuts, singles, label, sc=None, dtype=np.int64):
    """One call with all `cuts`; every row must equal the single-interval row (singles: dict (s,e)->row)."""
    n, p = X.shape
    mode = "optim" if jparam is None else "fixed"
    inp = {"check": "batch", "cost": cost, "kind": kind, "param": jparam, "container": container, "X": X, "family": family,
           "cuts": cuts}
    if sc is None:
        sc = make_cost(cost, make_param(cost, jparam, container)).fit(X)
    got, err = call(sc, cuts, dtype)
    if np.dtype(dtype) != np.dtype(np.int64):
        inp["cuts_dtype"] = np.dtype(dtype).name
    q = p if UNIVARIATE[cost] else 1
    if err is not None:
        rec.violation(f"{cost}:{mode}:batch-raises", f"{cost}({kind}).evaluate of a batch ({label}) of {len(cuts)} intervals that are "
                      f"each scored alone raised {err}", "C01.batch", inp)
        return
    if got.shape != (len(cuts), q):
        rec.violation(f"{cost}:{mode}:shape", f"{cost}({kind}).evaluate of {len(cuts)} intervals on p={p} has shape {got.shape}, "
                      f"expected {(len(cuts), q)}", "C01.shape", inp)
        return
    for i, (s, e) in enumerate(cuts):
        if not (close(got[i], singles[(s, e)]) or np.array_equal(got[i], singles[(s, e)])):
            rec.violation(f"{cost}:{mode}:batch-dependence",
                          f"{cost}({kind}): row of [{s},{e}) in a batch ({label}) = {got[i].tolist()} differs from the value "
                          f"{singles[(s, e)].tolist()} obtained when evaluated alone", "C01.batch", inp)
            return


def run_matrix(rec, rng, label, X, family, costs=("L2Cost", "GaussianVarCost", "GaussianCovCost")):
    n, p = X.shape
    for cost in costs:
        m = MIN_SIZE[cost](p)
        ivs = [(s, e) for s in range(n) for e in range(s + m, n + 1)]
        if not ivs:
            continue
        for kind, jparam, container in param_specs(cost, p, rng):
            sc = make_cost(cost, make_param(cost, jparam, container)).fit(X)
            if sc.min_size != m:
                rec.violation(f"{cost}:min_size", f"{cost}.min_size = {sc.min_size} on p={p}, expected {m}", "C01.value",
                              {"check": "single", "cost": cost, "kind": kind, "param": jparam, "container": container, "X": X,
                               "family": family, "cuts": [list(ivs[0])]})
                continue
            singles = {}
            for s, e in ivs:
                nt, row = check_single(rec, cost, kind, jparam, container, X, family, s, e, sc=sc)
                rec.case((cost, kind, label, s, e), nt,
                         {"cost": cost, "param": jparam, "data": label, "interval": [s, e]} if (s + e) % 5 == 0 else None)
                if row is not None:
                    singles[(s, e)] = row
            good = [iv for iv in ivs if iv in singles]
            if len(good) >= 2:
                perm = [good[i] for i in rng.permutation(len(good))]
                dup = perm + [perm[0], perm[-1], perm[0]]
                for blabel, cuts in (("lexicographic", good), ("reversed", good[::-1]), ("shuffled+duplicates", dup)):
                    check_batch(rec, cost, kind, jparam, container, X, family, [list(c) for c in cuts], singles, blabel, sc=sc)
                    rec.case((cost, kind, label, blabel), True)
                # the same admissible intervals held in other INTEGER dtypes (the value of an interval does not depend on how its two
                # integers are stored: narrow and unsigned types must not wrap around inside the kernels)
                for dt in (np.uint64, np.uint8, np.int8, np.int32):
                    check_batch(rec, cost, kind, jparam, container, X, family, [list(c) for c in good], singles, f"cuts as {np.dtype(dt).name}", sc=sc, dtype=dt)
                    rec.case((cost, kind, label, np.dtype(dt).name), True)
                # history: a fresh object evaluated in another order / after other calls gives the same rows
                sc2 = make_cost(cost, make_param(cost, jparam, container)).fit(X)
                call(sc2, [list(c) for c in good[::-1]])
                check_batch(rec, cost, kind, jparam, container, X, family, [list(good[0])], singles, "after-other-calls", sc=sc2)
                check_batch(rec, cost, kind, jparam, container, X, family, [list(good[-1])], singles, "after-other-calls", sc=sc2)
                rec.case((cost, kind, label, "history"), True)
            # a batch that contains a slice whose covariance is certainly not PD must raise the documented error as a whole
            if cost == "GaussianCovCost" and jparam is None and family == "grid":
                bad = [iv for iv in ivs if expectation(cost, None, X, iv[0], iv[1], family)[0] == "error"]
                if bad and good:
                    cuts = [list(good[0]), list(bad[0])]
                    got, err = call(sc, cuts)
                    if err != "RuntimeError":
                        rec.violation(f"{cost}:optim:notpd-no-error", f"{cost}.evaluate({cuts}): the second slice has a constant column "
                                      f"but {'a value' if err is None else err} was produced instead of RuntimeError", "C01.error",
                                      {"check": "badbatch", "cost": cost, "kind": kind, "param": None, "container": container, "X": X,
                                       "family": family, "cuts": cuts})
                    rec.case((cost, kind, label, "batch-notpd"), True)


def run(tier="quick", seed=0, repo="/repo"):
    use_repo(repo)
    rec = Recorder(target="skchange/costs/base.py::BaseCost._evaluate")
    OBS.clear()
    rng = np.random.default_rng(seed + 1)
    shapes = set()
    for label, X, family in datasets(tier, seed):
        run_matrix(rec, rng, label, X, family)
        shapes.add(X.shape)
    # integral data held in INTEGER dtypes (counts, sensor ticks): the cost of an interval is that of the same numbers as float64 -- squares
    # and sums of the data must not wrap around in the narrow type (int16 beyond 181, int32 beyond 46340, int64 beyond about 3.04e9)
    for dt, scale, loc in ((np.int16, 20, 200), (np.int32, 1000, 60000), (np.int64, 1e8, 4e9), (np.int64, 3, 10)):
        for n, p in ((6, 1), (7, 2)):
            X = np.round(rng.normal(size=(n, p)) * scale + loc)
            for cost in ("L2Cost", "GaussianVarCost", "GaussianCovCost"):
                m = MIN_SIZE[cost](p)
                for kind, jparam, container in param_specs(cost, p, rng):
                    try:
                        sc = make_cost(cost, make_param(cost, jparam, container)).fit(X.astype(dt))
                    except Exception as e:                                      # noqa: BLE001
                        rec.violation(f"{cost}:fit-raises:data-{np.dtype(dt).name}", f"{cost}({kind}).fit raised {type(e).__name__} on "
                                      f"{np.dtype(dt).name} data", "C01.value", {"check": "single", "cost": cost, "kind": kind, "param": jparam,
                                                                                 "container": container, "X": X, "family": "normal", "cuts": [[0, n]],
                                                                                 "data_dtype": np.dtype(dt).name})
                        continue
                    for s_ in range(n):
                        for e_ in range(s_ + m, n + 1):
                            nt, _ = check_single(rec, cost, kind, jparam, container, X, "normal", s_, e_, sc=sc, data_dtype=dt)
                            rec.case((cost, kind, f"int-data-{np.dtype(dt).name}-{loc}-n{n}p{p}", s_, e_), nt, None)
    nmax = max(s[0] for s in shapes)
    return rec.result(RULE, f"n in 1..{7 if tier == 'quick' else 8} (thorough also one 12x2 and one 20x3 matrix), p in 1..3, "
                            f"{len(shapes)} shapes, every admissible (s,e); 3 costs x 6-7 parameter kinds; "
                            f"intervals exhaustive, data matrices seeded (max n={nmax})", exhaustive=False, observations=dict(OBS))


def replay(inp, repo="/repo"):
    use_repo(repo)
    X = np.array(inp["X"], dtype=float)
    rec = Recorder()
    cost, kind, jparam, container, family = inp["cost"], inp["kind"], inp["param"], inp.get("container", "array"), inp.get("family", "normal")
    cuts = [list(map(int, c)) for c in inp["cuts"]]
    if inp.get("check") == "badbatch":
        sc = make_cost(cost, None).fit(X)
        got, err = call(sc, cuts)
        return {"violated": err != "RuntimeError", "detail": err or "a value was returned"}
    if inp.get("check") == "batch":
        singles = {}
        for s, e in cuts:
            _, row = check_single(rec, cost, kind, jparam, container, X, family, s, e)
            if row is not None:
                singles[(s, e)] = row
        if all(tuple(c) in singles for c in cuts):
            check_batch(rec, cost, kind, jparam, container, X, family, cuts, singles, "replay", dtype=np.dtype(inp.get("cuts_dtype", "int64")).type)
    else:
        for s, e in cuts:
            check_single(rec, cost, kind, jparam, container, X, family, s, e, data_dtype=np.dtype(inp["data_dtype"]).type if inp.get("data_dtype") else None)
    return {"violated": bool(rec.violations), "detail": rec.violations[0]["what"] if rec.violations else "holds"}
