"""C14 bounded stand-in: documented-valid configurations always run; invalid ones (and NaN / too short data) raise ValueError.

Domains: exactly the table of DESIGN.md Appendix B.
  part A  every listed class of INVALID configuration, several values each, on valid data (p = 1 and 2): ValueError must be
          raised while constructing or fitting (for the three entries that the documentation places later - unknown MVCAPA
          penalty name, "intermediate" penalty with p = 1 - any stage up to predict is accepted).
  part B  every listed boundary value and interior values of the VALID domain, crossed with the data grid of the quantifier:
          n in {min-2 .. min+2} around the detector's documented minimum length, p in 1..3, without NaN (constant / Gaussian /
          step data) and with one NaN.  NaN or n < minimum => ValueError by fit; otherwise the run must complete and the frame
          must be well-formed (the C04 oracle).  Permitted besides: RuntimeError when the scorer is the multivariate Gaussian
          cost (sample covariance not positive definite) and ValueError when the scorer's min_size exceeds the requested
          segment length (e.g. GaussianVarCost with min_segment_length = 1).
  part C  fit on valid data, then predict on data with NaN / fewer rows than the minimum: ValueError.
  part D  the same valid configurations on the other documented containers (ndarray, Series for p = 1), n = min+1.
"""
from __future__ import annotations

import json

import numpy as np

from runtime import oracles_C04 as oc
from runtime.common import use_repo

RULE = ("Appendix-B grid; a case is non-trivial when it exercises a validation branch (invalid configuration, NaN, fewer rows "
        "than the minimum) or a valid configuration that sits on a documented boundary (n = minimum length, min_segment_length "
        "= 1 resp. 2, bandwidth = 1, max_interval_length = 2*min_segment_length, max_segment_length = min_segment_length, "
        "growth_factor = 2, a scale equal to 0, stat_lower = stat_upper, threshold_scale None); interior valid runs count as "
        "trivial; distinct = (part, configuration, n, p, data kind)")

INNER = [{"det": "PELT", "params": {"min_segment_length": 2, "penalty_scale": 0.5}, "scorer": None},
         {"det": "MovingWindow", "params": {"bandwidth": 3, "threshold_scale": 1.0}, "scorer": None},
         {"det": "SeededBinarySegmentation", "params": {"min_segment_length": 2, "max_interval_length": 200, "threshold_scale": 1.0}, "scorer": None}]


# ------------------------------------------------------------------------------------------------ part A: invalid

def invalid_configs(det):
    """(class of invalidity, spec, latest stage at which ValueError must have been raised)."""
    out = []

    def add(which, params, by="fit", **extra):
        out.append((which, dict({"det": det, "params": params, "scorer": None}, **extra), by))

    neg = (-1.0, -1e-9)
    if det == "PELT":
        for v in neg:
            add("penalty_scale<0", {"penalty_scale": v})
        for v in (0, -1):
            add("min_segment_length<1", {"min_segment_length": v})
        add("penalty_scale=None", {"penalty_scale": None})
    elif det == "MovingWindow":
        for v in (0, -1):
            add("bandwidth<1", {"bandwidth": v})
        for v in neg:
            add("threshold_scale<0", {"bandwidth": 2, "threshold_scale": v})
    elif det in ("SeededBinarySegmentation", "CircularBinarySegmentation"):
        for v in neg:
            add("threshold_scale<0", {"min_segment_length": 2, "threshold_scale": v})
        for v in (0, -2):
            add("min_segment_length<1", {"min_segment_length": v, "max_interval_length": 200})
        for m, M in ((1, 1), (2, 3), (3, 5), (5, 9)):
            add("max_interval_length<2*min_segment_length", {"min_segment_length": m, "max_interval_length": M})
        for v in (1.0, 0.5, 0.0, -1.5, 2.0001, 3.0):
            add("growth_factor-outside-(1,2]", {"min_segment_length": 2, "growth_factor": v})
        for v in (0.0, 1.0, -0.1, 1.5):
            add("level-outside-(0,1)", {"min_segment_length": 2, "level": v})
    elif det in ("CAPA", "MVCAPA"):
        for v in neg:
            add("collective_penalty_scale<0", {"collective_penalty_scale": v})
            add("point_penalty_scale<0", {"point_penalty_scale": v})
        for v in (1, 0, -1):
            add("min_segment_length<2", {"min_segment_length": v})
        for m, M in ((3, 2), (2, 1), (5, 4)):
            add("max_segment_length<min_segment_length", {"min_segment_length": m, "max_segment_length": M})
        add("point-saving-min_size>1", {}, point="GVar")
        out.append(("cost-without-fixed-parameter", {"det": det, "params": {}, "scorer": "L2-noparam"}, "fit"))
        add("cost-without-fixed-parameter", {}, point="L2-noparam")
        if det == "MVCAPA":
            out.append(("multivariate-collective-saving", {"det": det, "params": {}, "scorer": "GCov"}, "fit"))
            add("unknown-penalty-name", {"collective_penalty": "no-such-penalty"}, by="predict")
            add("unknown-penalty-name", {"point_penalty": "no-such-penalty"}, by="predict")
            add("intermediate-penalty-with-p=1", {"collective_penalty": "intermediate"}, by="predict")
            add("intermediate-penalty-with-p=1", {"point_penalty": "intermediate"}, by="predict")
    elif det == "StatThresholdAnomaliser":
        for lo, up in ((1.0, -1.0), (0.0, -1e-9), (5.0, 4.0)):
            out.append(("stat_lower>stat_upper", {"det": det, "params": {"stat_lower": lo, "stat_upper": up}, "inner": INNER[0]}, "fit"))
    return out


# ------------------------------------------------------------------------------------------------ part B: valid

def valid_configs(det, tier):
    th = tier != "quick"
    out = []
    if det == "PELT":
        for m in (1, 2, 3) + ((5,) if th else ()):
            for ps in (0.0, 0.5, 2.0):
                for sc in (None, "GVar") + (("GCov",) if (th or ps == 0.5) else ()):
                    out.append({"det": det, "params": {"min_segment_length": m, "penalty_scale": ps}, "scorer": sc})
    elif det == "MovingWindow":
        for b in (1, 2, 3) + ((5,) if th else ()):
            for ts in (0.0, 1.0, None):
                for lv in (0.01, 0.5, 0.999) + ((0.9,) if th else ()):          # Appendix B: level in (0, 1)
                    for sc in (None, "GVar") + (("L2", "GCov") if th else ()):
                        out.append({"det": det, "params": {"bandwidth": b, "threshold_scale": ts, "level": lv}, "scorer": sc})
        for b, mdi in ((4, 1), (6, 1), (6, 2), (8, 3)):      # every min_detection_interval the constructor accepts
            out.append({"det": det, "params": {"bandwidth": b, "threshold_scale": 1.0, "min_detection_interval": mdi}, "scorer": None})
    elif det in ("SeededBinarySegmentation", "CircularBinarySegmentation"):
        for m in (1, 2, 3) + ((5,) if th else ()):
            for M in (2 * m, 2 * m + 1, 200):
                for g in (1.5, 2.0) + ((1.01,) if th else ()):
                    for ts in (0.0, 2.0, None):
                        scs = [None] + (["GVar"] if (th or (g == 1.5 and ts != 0.0)) else []) + (["GCov"] if th and g == 2.0 else [])
                        for sc in scs:
                            out.append({"det": det, "params": {"min_segment_length": m, "max_interval_length": M, "growth_factor": g,
                                                               "threshold_scale": ts, "level": 0.5 if ts is None else 1e-8}, "scorer": sc})
    elif det in ("CAPA", "MVCAPA"):
        pens = [(None, None)] if det == "CAPA" else [("combined", "sparse"), ("dense", "dense"), ("sparse", "combined"),
                                                     ("intermediate", "intermediate")]
        for m in (2, 3) + ((5,) if th else ()):
            for M in (m, m + 1, 1000):
                for cs, pts in ((0.0, 0.0), (0.5, 0.5), (2.0, 2.0)) + (((0.0, 2.0), (2.0, 0.0)) if th else ()):
                    for cp, pp in pens:
                        for sc in (None,) + (("GVar",) if (th or cs == 0.5) else ()) + (("GCov",) if th and det == "CAPA" and cs == 0.5 else ()):
                            prm = {"min_segment_length": m, "max_segment_length": M, "collective_penalty_scale": cs, "point_penalty_scale": pts}
                            if cp is not None:
                                prm["collective_penalty"], prm["point_penalty"] = cp, pp
                            out.append({"det": det, "params": prm, "scorer": sc})
    elif det == "StatThresholdAnomaliser":
        for inner in INNER:
            for lo, up in ((-1.0, 1.0), (0.0, 0.0), (2.0, 2.0), (-1e-9, 0.0)):
                out.append({"det": det, "params": {"stat_lower": lo, "stat_upper": up}, "inner": inner, "stat": "mean"})
    return out


def on_boundary(spec, n):
    det, prm = spec["det"], spec.get("params", {})
    if n == oc.min_length(spec):
        return True
    if det == "StatThresholdAnomaliser":
        return prm["stat_lower"] == prm["stat_upper"]
    if any(prm.get(k) == 0.0 for k in ("penalty_scale", "threshold_scale", "collective_penalty_scale", "point_penalty_scale")):
        return True
    if "threshold_scale" in prm and prm["threshold_scale"] is None:
        return True
    if det == "MovingWindow":
        return prm["bandwidth"] == 1
    m = prm.get("min_segment_length")
    if det in ("CAPA", "MVCAPA"):
        return m == 2 or prm.get("max_segment_length") == m
    if det == "PELT":
        return m == 1
    return m == 1 or prm.get("max_interval_length") == 2 * m or prm.get("growth_factor") == 2.0


# ------------------------------------------------------------------------------------------------ data

def make_data(kind, n, p, seed):
    rng = np.random.default_rng([seed, n, p, sum(map(ord, kind))])
    if kind == "const":
        return np.full((n, p), 1.5)
    X = rng.normal(size=(n, p))
    if kind == "step":
        X = 0.01 * X
        X[n // 2:, 0] += 10.0
    X = np.round(X, 2)
    if kind == "nan":
        X[(n * 2) // 3 % max(n, 1), (n + p) % p] = np.nan
    return X


# ------------------------------------------------------------------------------------------------ checks

def describe(spec):
    s = f"{spec['det']}({json.dumps(spec.get('params'))}"
    for k in ("scorer", "point"):
        if spec.get(k):
            s += f", {k}={spec[k]}"
    if spec.get("inner"):
        s += f", inner={spec['inner']['det']}"
    return s + ")"


def expect_value_error(rec, spec, Xfit, Xpred, repo, which, by, part, container="frame"):
    """The case must raise ValueError no later than stage `by` ('fit' or 'predict').  Records violations."""
    det = spec["det"]
    stage, y, exc, site = oc.attempt(spec, Xfit, Xpred, repo, container)
    inp = {"part": part, "spec": spec, "Xfit": Xfit, "Xpred": Xpred, "which": which, "by": by, "container": container}
    n, p = np.asarray(Xpred).shape
    if exc is None:
        rec.violation(f"{det}:accepts:{which}", f"{describe(spec)} with [{which}] on n={n} p={p}: must raise ValueError but ran to completion "
                      f"({oc.n_detections(y)} detections)", "C14.raises", inp)
    elif type(exc).__name__ != "ValueError":
        rec.violation(f"{det}:{type(exc).__name__}@{site}", f"{describe(spec)} with [{which}] on n={n} p={p}: must raise ValueError but {stage} raised "
                      f"{type(exc).__name__}: {str(exc)[:120]}", "C14.raises", inp)
    elif by == "fit" and stage == "predict":
        rec.violation(f"{det}:late-ValueError:{which}", f"{describe(spec)} with [{which}]: constructing and fitting succeed, ValueError is raised "
                      f"only by predict: {str(exc)[:100]}", "C14.raises", inp)


def expect_runs(rec, spec, X, repo, part, container="frame"):
    """A documented-valid configuration on finite data of admissible length: must complete with well-formed output,
    up to the two permitted outcomes.  Returns True when it completed."""
    det = spec["det"]
    n, p = X.shape
    stage, y, exc, site = oc.attempt(spec, X, X, repo, container)
    inp = {"part": part, "spec": spec, "Xfit": X, "Xpred": X, "container": container}
    if exc is not None:
        name = type(exc).__name__
        if name == "RuntimeError" and oc.may_be_not_pd(spec):
            return False
        if name == "ValueError" and not oc.compatible(spec, p):
            return False
        rec.violation(f"{det}:{name}@{site}", f"{describe(spec)} is in the documented domain, data finite with n={n} (minimum {oc.min_length(spec)}) "
                      f"p={p} ({container}): {stage} raised {name}: {str(exc)[:120]}", "C14.runs", inp)
        return False
    for s, msg in oc.wellformed(spec, y, n, p):
        rec.violation(oc.qualify(det, s), f"{describe(spec)} n={n} p={p}: output not well-formed: {msg}", "C14.wellformed", inp)
    return True


# ------------------------------------------------------------------------------------------------ driver interface

def run(tier="quick", seed=0, repo="/repo"):
    use_repo(repo)
    rec = oc.MinRecorder(target="skchange/*_detectors/*.py::<Detector>(**params).fit(X).predict(X)")
    quick = tier == "quick"
    kinds = ("const", "normal", "step", "nan")
    for det in oc.DETECTORS:
        # ---- part A
        for which, spec, by in invalid_configs(det):
            for p in (1, 2):
                if det == "StatThresholdAnomaliser" and p > 1:
                    continue
                if which == "intermediate-penalty-with-p=1" and p > 1:
                    continue
                X = make_data("normal", 10, p, seed)
                expect_value_error(rec, spec, X, X, repo, which, by, "A")
                rec.case(("A", json.dumps(spec, sort_keys=True), p), True, {"part": "A", "invalid": which, "spec": spec, "p": p})
                rec.group(det + "/invalid-config", True)
        # ---- parts B, C, D
        cfgs = valid_configs(det, tier)
        for ci, spec in enumerate(cfgs):
            sj = json.dumps(spec, sort_keys=True)
            lo = oc.min_length(spec)
            for p in (1, 2, 3):
                if det == "StatThresholdAnomaliser" and p > 1:
                    continue                                # documented as univariate only
                if det == "MVCAPA" and p == 1 and "intermediate" in (spec["params"].get("collective_penalty"), spec["params"].get("point_penalty")):
                    continue                                # documented ValueError, asserted in part A
                if quick and p == 3 and ci % 2:
                    continue                                # quick: p = 3 on every second configuration
                for n in range(max(1, lo - 2), lo + 3):
                    for kind in kinds:
                        X = make_data(kind, n, p, seed)
                        if kind == "nan" or n < lo:
                            which = "nan" if kind == "nan" else "short-data"
                            expect_value_error(rec, spec, X, X, repo, which, "fit", "B")
                            nt = True
                        else:
                            expect_runs(rec, spec, X, repo, "B")
                            nt = on_boundary(spec, n)
                        rec.case(("B", sj, n, p, kind), nt,
                                 {"part": "B", "spec": spec, "n": n, "p": p, "data": kind} if (ci + n) % 53 == 0 else None)
                        rec.group(det + ("/invalid-data" if (kind == "nan" or n < lo) else "/valid"), nt)
                # ---- part C: fitted on good data, predict on bad data
                Xfit = make_data("normal", lo + 2, p, seed)
                stage, _, exc, _ = oc.attempt(spec, Xfit, Xfit, repo)
                if exc is None:                             # otherwise already reported by part B
                    bads = [("nan", make_data("nan", lo + 2, p, seed))]
                    if lo - 1 >= 1:
                        bads.append(("short-data", make_data("normal", lo - 1, p, seed)))
                    for which, Xbad in bads:
                        expect_value_error(rec, spec, Xfit, Xbad, repo, which + "-at-predict", "predict", "C")
                        rec.case(("C", sj, p, which), True)
                        rec.group(det + "/invalid-data", True)
                # ---- part D: other containers
                if ci % (4 if quick else 1) == 0:
                    for container in ("ndarray",) + (("series",) if p == 1 else ()):
                        X = make_data("step", lo + 1, p, seed)
                        expect_runs(rec, spec, X, repo, "D", container)
                        rec.case(("D", sj, p, container), on_boundary(spec, lo + 1))
                        rec.group(det + "/valid", on_boundary(spec, lo + 1))
    return rec.result(RULE, "DESIGN Appendix B: all listed invalid classes (2-6 values each); valid grid incl. every listed boundary; "
                            "n in [min-2, min+2]; p in 1..3; const / Gaussian / step / one-NaN data; containers frame (all), ndarray and Series (part D)",
                      exhaustive=not quick)


def replay(inp, repo="/repo"):
    use_repo(repo)
    rec = oc.MinRecorder()
    Xfit = np.array([[np.nan if v is None or v == "nan" else v for v in row] for row in inp["Xfit"]], dtype=float)
    Xpred = np.array([[np.nan if v is None or v == "nan" else v for v in row] for row in inp["Xpred"]], dtype=float)
    if inp.get("which"):
        expect_value_error(rec, inp["spec"], Xfit, Xpred, repo, inp["which"], inp["by"], inp["part"], inp.get("container", "frame"))
    else:
        expect_runs(rec, inp["spec"], Xpred, repo, inp["part"], inp.get("container", "frame"))
    vs = rec.result("", "")["violations"]
    return {"violated": bool(vs), "detail": " | ".join(v["what"] for v in vs) or "holds"}
