"""C11 bounded stand-in: outputs do not depend on how the same numbers are passed in.

Grid (complete product, every cell run): for each detector configuration and data set (integer-valued, n in {12, 20},
p = 1 and p = 3 where the detector is multivariate)
    container  DataFrame | Series (p=1) | 2-D ndarray | 1-D ndarray (p=1)
  x dtype      float64 | int64 (the same values)
  x index      RangeIndex(0,n) | RangeIndex(5,5+n) | RangeIndex(0,2n,2) | DatetimeIndex | PeriodIndex   (pandas containers)
  x columns    default | strings | colliding: the (first) column / the Series is called "labels"       (pandas containers)
and every entry point that accepts data:
    fit               public fitted attributes (names ending in "_", recursively into a fitted inner detector)
    predict           integer locations / intervals / labels / affected columns
    scores            the `scores` attribute left behind by predict (how binary segmentation exposes its scores)
    transform         label values, and the output carries the input's own index (RangeIndex(0,n) for an ndarray)
    transform_scores  score values (1e-8), index as for transform when the output has one row per sample
    update            fit on the first n-4 rows, update with the last 4 (indexed as the continuation of the same index;
                      for ndarrays, which cannot say so, as rows 0..3), then fitted attributes and predict on all rows
Each cell is compared with the reference cell DataFrame / float64 / RangeIndex(0,n) / default columns (for update with
ndarrays: the DataFrame reference in which the new rows are also indexed 0..3).  An exception counts as agreement
only if the reference raises the same exception type (e.g. NotImplementedError of transform_scores).
Scorers (8 classes, 10 configurations): fit(X).evaluate(cuts) on the same grid.

Attribution.  A failing (cell, entry point, symptom) is reduced over the grid to the axes that are needed for it to
persist (all single-axis resets are cells of the grid, so this is a lookup, not a re-run); the key is
<class that owns the entry point>.<entry point>:<needed axes>:<symptom>, with transform failures whose predict agrees
attributed to the class defining sparse_to_dense.  One key per defect and failure mode; `failing_cells` in the result
lists the distinct reduced cells per key (at most 12).  transform is not compared when predict already disagrees (it is a function of it), and
an exception identical to the one predict raised is not reported again for transform_scores / scores.
"""
from __future__ import annotations

import numpy as np

from runtime.common import Recorder, close, use_repo

RULE = ("complete grid container x dtype x index x column names per detector configuration, data set and entry point, compared "
        "with the DataFrame/float64/RangeIndex(0,n)/default reference cell; a case (one cell x one entry point) is non-trivial "
        "when the reference produced a detection / a fitted value / a score array (not an exception, not an empty detection set); "
        "distinct = (configuration, data id, cell, entry point)")

INDEX_KINDS = ("range0", "range5", "range-step2", "datetime", "period", "datetime-tz")
COLUMN_KINDS = ("default", "strings", "labels", "rotated-after-fit")
DTYPES = ("float64", "int64")
REF = ("df", "float64", "range0", "default")
ENTRIES = ("fit", "predict", "scores", "transform", "transform_scores", "update")


# ----------------------------------------------------------------------------------------------- representations
def make_index(kind, n):
    import pandas as pd
    if kind == "range0":
        return pd.RangeIndex(0, n)
    if kind == "range5":
        return pd.RangeIndex(5, 5 + n)
    if kind == "range-step2":
        return pd.RangeIndex(0, 2 * n, 2)
    if kind == "datetime":
        return pd.date_range("2021-03-01", periods=n, freq="D")
    if kind == "period":
        return pd.period_range("2021-03", periods=n, freq="M")
    if kind == "datetime-tz":       # a time-zone-aware, named datetime index (still a DatetimeIndex: "X's own index" includes zone and name)
        return pd.date_range("2021-03-01", periods=n, freq="h", tz="Europe/Oslo", name="when")
    raise ValueError(kind)


def column_names(kind, p):
    if kind == "default":
        return list(range(p))
    if kind in ("strings", "rotated-after-fit"):
        return ["abc"[j] for j in range(p)]
    return ["labels"] + ["bc"[j] for j in range(p - 1)]


def cells(p):
    out = []
    for d in DTYPES:
        for i in INDEX_KINDS:
            for c in COLUMN_KINDS:
                out.append(("df", d, i, c))
                if p == 1:
                    out.append(("series", d, i, c))
        out.append(("ndarray2d", d, "range0", "default"))
        out.append(("ndarray2d-fortran", d, "range0", "default"))       # same values, other memory layouts
        out.append(("ndarray2d-view", d, "range0", "default"))
        out.append(("df-blocks", d, "range5", "strings"))                # one block per column (frame assembled column by column)
        if p == 1:
            out.append(("ndarray1d", d, "range0", "default"))
    return out


def represent(X, cell, rows=None, total=None, restart=False):
    """X (n,p) float array with integer values -> the container of `cell`.  `rows`: slice of a longer series of `total`
    rows whose index the container carries (update); restart: index the slice from the start of the index instead."""
    import pandas as pd
    container, dtype, ik, ck = cell
    X = np.asarray(X, dtype=float)
    vals = X.astype(np.int64) if dtype == "int64" else X.copy()
    n, p = vals.shape
    if container == "ndarray2d":
        return vals
    if container == "ndarray2d-fortran":
        return np.asfortranarray(vals)
    if container == "ndarray2d-view":                       # every second row / all but the first column of a larger array
        big = np.full((2 * n + 1, p + 1), 7, dtype=vals.dtype)
        big[1::2, 1:] = vals
        return big[1::2, 1:]
    if container == "ndarray1d":
        return vals[:, 0].copy()
    if rows is None:
        index = make_index(ik, n)
    else:
        index = make_index(ik, total)[slice(0, n) if restart else rows]
    names = column_names(ck, p)
    if container == "df-blocks":
        df = pd.concat([pd.DataFrame({names[j]: vals[:, j]}, index=index) for j in range(p)], axis=1)
        if dtype == "int64" and p >= 2:                     # integer and float columns side by side
            df[names[p - 1]] = df[names[p - 1]].astype(float)
        return df
    if container == "df":
        return pd.DataFrame(vals, index=index, columns=names)
    name = None if ck == "default" else ("x" if ck == "strings" else "labels")
    return pd.Series(vals[:, 0], index=index, name=name)


def cell_index(cell, n):
    return make_index(cell[2] if cell[0] in ("df", "df-blocks", "series") else "range0", n)


def cell_text(cell):
    return "/".join(cell)


# ----------------------------------------------------------------------------------------------- configurations
def detector_table(tier):
    from skchange.anomaly_detectors import CAPA, MVCAPA, CircularBinarySegmentation, StatThresholdAnomaliser
    from skchange.change_detectors import PELT, MovingWindow, SeededBinarySegmentation
    t = {
        "PELT": (lambda: PELT(), True),
        "MovingWindow": (lambda: MovingWindow(bandwidth=3, threshold_scale=1.0), True),
        "SeededBinarySegmentation": (lambda: SeededBinarySegmentation(min_segment_length=2, max_interval_length=12), True),
        "CAPA": (lambda: CAPA(min_segment_length=2), True),
        "MVCAPA": (lambda: MVCAPA(min_segment_length=2), True),
        "CAPA(L2Cost(param=0.5))": (lambda: CAPA(collective_saving=__import__("skchange.costs", fromlist=["L2Cost"]).L2Cost(param=0.5),
                                                  point_saving=__import__("skchange.costs", fromlist=["L2Cost"]).L2Cost(param=0.5),
                                                  min_segment_length=2), True),
        "CircularBinarySegmentation": (lambda: CircularBinarySegmentation(min_segment_length=2, max_interval_length=8), True),
        "StatThresholdAnomaliser(PELT)": (lambda: StatThresholdAnomaliser(PELT(), stat_lower=-2.0, stat_upper=2.0), False),
    }
    if tier != "quick":
        from skchange.costs import GaussianVarCost
        t.update({
            "PELT(min_segment_length=1)": (lambda: PELT(penalty_scale=1.0, min_segment_length=1), True),
            "MovingWindow(tuned)": (lambda: MovingWindow(bandwidth=3, threshold_scale=None, level=0.2), True),
            "SeededBinarySegmentation(tuned)": (lambda: SeededBinarySegmentation(threshold_scale=None, level=0.3, min_segment_length=2,
                                                                               max_interval_length=12), True),
            "CircularBinarySegmentation(tuned)": (lambda: CircularBinarySegmentation(threshold_scale=None, level=0.3, min_segment_length=2,
                                                                                   max_interval_length=8), True),
            "PELT(GaussianVarCost)": (lambda: PELT(cost=GaussianVarCost(), min_segment_length=3), True),
            "CAPA(ignore_point_anomalies)": (lambda: CAPA(min_segment_length=3, ignore_point_anomalies=True), True),
            "StatThresholdAnomaliser(MovingWindow)": (lambda: StatThresholdAnomaliser(MovingWindow(bandwidth=3), stat=np.median,
                                                                                    stat_lower=-2.0, stat_upper=2.0), False),
        })
    return t


def scorer_table():
    from skchange.anomaly_scores import L2Saving, LocalAnomalyScore, Saving
    from skchange.change_scores import CUSUM, ChangeScore
    from skchange.costs import GaussianCovCost, GaussianVarCost, L2Cost
    return {
        "L2Cost": (lambda: L2Cost(), 2),
        "L2Cost(param=1.0)": (lambda: L2Cost(param=1.0), 2),
        # non-integer fixed parameters: integer-dtype data must not change how the parameter is interpreted
        "L2Cost(param=2.5)": (lambda: L2Cost(param=2.5), 2),
        "GaussianVarCost(param=(0.5,2.5))": (lambda: GaussianVarCost(param=(0.5, 2.5)), 2),
        "GaussianCovCost(param=(0.5,1.5))": (lambda: GaussianCovCost(param=(0.5, 1.5)), 2),
        "Saving(L2Cost(param=-0.5))": (lambda: Saving(L2Cost(param=-0.5)), 2),
        "GaussianVarCost": (lambda: GaussianVarCost(), 2),
        "GaussianCovCost": (lambda: GaussianCovCost(), 2),
        "CUSUM": (lambda: CUSUM(), 3),
        "ChangeScore(L2Cost)": (lambda: ChangeScore(L2Cost()), 3),
        "ChangeScore(GaussianVarCost)": (lambda: ChangeScore(GaussianVarCost()), 3),
        "L2Saving": (lambda: L2Saving(), 2),
        "Saving(L2Cost(param=0.0))": (lambda: Saving(L2Cost(param=0.0)), 2),
        "LocalAnomalyScore(L2Cost)": (lambda: LocalAnomalyScore(L2Cost()), 4),
    }


def scorer_cuts(n, k):
    if k == 2:
        return np.array([[0, n], [0, 5], [3, 9], [n - 6, n], [2, n - 1]])
    if k == 3:
        return np.array([[0, 5, n], [2, 6, 10], [0, 4, 8], [n - 9, n - 4, n]])
    return np.array([[0, 4, 8, n], [1, 5, 9, n - 1], [0, 3, 7, 11]])


def dataset(rng, n, p):
    """Integer-valued data with planted shifts (so that int64 and float64 hold the same numbers)."""
    X = rng.integers(-1, 2, size=(n, p)).astype(float)
    if n < 16:
        X[4:8, : max(1, p - 1)] += 8
    else:
        X[5:10, :] += 8
        X[13:17, : max(1, p - 1)] -= 9
    return X


# ----------------------------------------------------------------------------------------------- observing one cell
def sparse_value(y):
    cols = list(y.columns)
    if "ilocs" not in cols:
        return ("unreadable", cols)
    arr = y["ilocs"].array
    if hasattr(arr, "left"):
        out = [(int(a), int(b)) for a, b in zip(arr.left, arr.right)]
        extra = []
        if "labels" in cols:
            extra.append([int(v) for v in y["labels"].tolist()])
        if "icolumns" in cols:
            extra.append([sorted(int(c) for c in np.asarray(cs).reshape(-1)) for cs in y["icolumns"]])
        return ("intervals", str(arr.closed), out, extra)
    return ("changepoints", [int(v) for v in y["ilocs"].tolist()])


def fitted_value(obj, depth=0):
    out = {}
    for k, v in sorted(vars(obj).items()):
        if not k.endswith("_") or k.startswith("_"):
            continue
        if hasattr(v, "get_params") and depth < 2:
            for kk, vv in fitted_value(v, depth + 1).items():
                out[f"{k}.{kk}"] = vv
        elif isinstance(v, (int, float, np.integer, np.floating, np.ndarray, list, tuple)):
            try:
                out[k] = np.asarray(v, dtype=float)
            except Exception:                                                   # noqa: BLE001
                pass
    return out


def numeric(obj):
    import pandas as pd
    if isinstance(obj, (pd.DataFrame, pd.Series)):
        return np.asarray(obj.values, dtype=float)
    return np.asarray(obj, dtype=float)


def attempt(f):
    try:
        return ("ok", f())
    except Exception as e:                                                      # noqa: BLE001
        return ("err", type(e).__name__, str(e)[:140])


def observe(make, X, cell, restart_update=False):
    """Runs every entry point on one representation.  entry -> ("ok", value) | ("err", type, message) | ("skip",)."""
    import pandas as pd
    n = X.shape[0]
    R = represent(X, cell)
    own_index = cell_index(cell, n)
    obs = {}
    det = make()
    Rfit = R
    if cell[3] == "rotated-after-fit" and isinstance(R, pd.DataFrame) and R.shape[1] >= 2:
        # same numbers in the same positions, but the frame given to the calls after fit carries the column labels in another order
        # (names are labels of the caller's frame, not part of the data: nothing may be matched by them)
        R = R.copy()
        R.columns = list(Rfit.columns[1:]) + [Rfit.columns[0]]
    r = attempt(lambda: det.fit(Rfit))
    obs["fit"] = ("ok", fitted_value(det)) if r[0] == "ok" else r
    if r[0] != "ok":
        for e in ENTRIES[1:]:
            obs[e] = ("skip",)
        return obs
    r = attempt(lambda: det.predict(R))
    obs["predict"] = ("ok", sparse_value(r[1])) if r[0] == "ok" else r
    if r[0] == "ok" and isinstance(getattr(det, "scores", None), (pd.DataFrame, pd.Series)):
        obs["scores"] = attempt(lambda: numeric(det.scores))
    else:
        obs["scores"] = ("skip",)

    def dense(out):
        # the labels and, for datetimes, the time zone they are expressed in (the index NAME is not demanded: Index.equals ignores it as well)
        same = bool(out.index.equals(own_index)) and str(getattr(out.index, "tz", None)) == str(getattr(own_index, "tz", None))
        return (numeric(out), same if len(out) == n else None)
    r = attempt(lambda: det.transform(R))
    obs["transform"] = ("ok", dense(r[1])) if r[0] == "ok" else r
    r = attempt(lambda: det.transform_scores(R))
    obs["transform_scores"] = ("ok", dense(r[1])) if r[0] == "ok" else r
    # update: fit on the head, update with the tail, observe the refitted attributes and predict on everything
    n1 = n - 4
    det2 = make()
    head = represent(X[:n1], cell, rows=slice(0, n1), total=n)
    tail = represent(X[n1:], cell, rows=slice(n1, n), total=n, restart=restart_update)
    r = attempt(lambda: det2.fit(head))
    if r[0] != "ok":
        obs["update"] = ("skip",)
        return obs
    r = attempt(lambda: det2.update(tail))
    if r[0] != "ok":
        obs["update"] = r
        return obs
    r2 = attempt(lambda: sparse_value(det2.predict(R)))
    # ... and an update whose chunk OVERLAPS the stored rows (the last two rows are sent again): labels decide, whatever the index start
    over = None
    if cell[0] in ("df", "df-blocks", "series") and n1 >= 3:
        det3 = make()
        tail3 = represent(X[n1 - 2:], cell, rows=slice(n1 - 2, n), total=n)
        r3 = attempt(lambda: det3.fit(head).update(tail3))
        over = (fitted_value(det3), int(len(det3._X)), attempt(lambda: sparse_value(det3.predict(R)))) if r3[0] == "ok" else ("err",) + tuple(r3[1:2])
    obs["update"] = ("ok", (fitted_value(det2), int(len(det2._X)), r2, over))
    return obs


def same_numbers(a, b):
    a, b = np.asarray(a, dtype=float), np.asarray(b, dtype=float)
    if a.shape != b.shape:
        return False
    fin = np.isfinite(a) & np.isfinite(b)
    if not np.array_equal(np.isfinite(a), np.isfinite(b)):
        return False
    if not np.array_equal(np.isnan(a), np.isnan(b)) or not np.array_equal(a[~fin & ~np.isnan(a)], b[~fin & ~np.isnan(b)]):
        return False
    return close(a[fin], b[fin])


def same_fitted(a, b):
    return set(a) == set(b) and all(same_numbers(a[k], b[k]) for k in a)


def compare(entry, ref, got):
    """None when the cell agrees with the reference, else a symptom string."""
    if got[0] == "skip" or ref[0] == "skip":
        return None
    if ref[0] == "err":
        if got[0] == "err":
            return None if got[1] == ref[1] else f"raises-{got[1]}-instead-of-{ref[1]}"
        return f"no-{ref[1]}"
    if got[0] == "err":
        return f"raises-{got[1]}"
    r, g = ref[1], got[1]
    if entry == "fit":
        return None if same_fitted(r, g) else "fitted-values-differ"
    if entry == "predict":
        return None if r == g else "detections-differ"
    if entry == "scores":
        return None if same_numbers(r, g) else "scores-differ"
    if entry in ("transform", "transform_scores"):
        if not same_numbers(r[0], g[0]):
            return "values-differ"
        return "index-not-carried" if g[1] is False else None
    if entry == "update":
        if not same_fitted(r[0], g[0]) or r[1] != g[1]:
            return "refit-differs"
        s = compare("predict", r[2], g[2])
        if s is not None:
            return "predict-after-update:" + s
        ro, go = (r[3] if len(r) > 3 else None), (g[3] if len(g) > 3 else None)
        if ro is not None and go is not None and ro[0] != "err":
            if go[0] == "err":
                return f"overlapping-update-raises-{go[1] if len(go) > 1 else ''}"
            if not same_fitted(ro[0], go[0]) or ro[1] != go[1]:
                return "refit-after-overlapping-update-differs"
            s = compare("predict", ro[2], go[2])
            return None if s is None else "predict-after-overlapping-update:" + s
        return None
    return None


def nontrivial(entry, ref):
    if ref[0] != "ok":
        return False
    v = ref[1]
    if entry == "predict":
        return bool(v[-2] if v[0] == "intervals" else v[1])
    if entry == "fit":
        return bool(v)
    if entry == "update":
        return bool(v[0])
    return np.size(v[0] if isinstance(v, tuple) else v) > 0


# ----------------------------------------------------------------------------------------------- attribution
def reduce_cause(cell, fails, entry, symptom):
    """Greedy reset of each axis to the reference value while the same (entry, symptom) persists; `fails` maps cell ->
    set of (entry, symptom) over the whole grid."""
    cur = list(cell)
    for ax in (3, 2, 1, 0):
        if cur[ax] == REF[ax]:
            continue
        trial = list(cur)
        trial[ax] = REF[ax]
        if ax == 0 and cur[0].startswith("ndarray"):
            trial = ["df", cur[1], "range0", "default"]
        if (entry, symptom) in fails.get(tuple(trial), ()):
            cur = trial
    axes = []
    if cur[0] != REF[0]:
        axes.append("ndarray" if cur[0].startswith("ndarray") else cur[0])
    if cur[1] != REF[1]:
        axes.append(cur[1])
    if cur[2] != REF[2]:
        axes.append("index")
    if cur[3] != REF[3]:
        axes.append("columns=" + cur[3])
    return tuple(cur), "+".join(axes) or "reference"


def owner_of(det, entry, predict_agrees):
    cls = type(det)
    if entry == "transform" and predict_agrees:
        for c in cls.__mro__:
            if "sparse_to_dense" in c.__dict__:
                return f"{c.__name__}.sparse_to_dense"
    meth = {"fit": "_fit", "predict": "_predict", "scores": "_predict", "transform": "_predict",
            "transform_scores": "_transform_scores", "update": "_update"}[entry]
    for c in cls.__mro__:
        if meth in c.__dict__:
            return f"{c.__name__}.{entry}"
    return f"{cls.__name__}.{entry}"


def grid_for(rec, failing_cells, name, make, X, data_id, what_kind="detector"):
    n, p = X.shape
    grid = cells(p)
    ref = observe(make, X, REF)
    ref_restart = observe(make, X, REF, restart_update=True)
    obs, fails = {}, {}
    for cell in grid:
        o = observe(make, X, cell)
        obs[cell] = o
        f = set()
        for entry in ENTRIES:
            r = ref_restart[entry] if (entry == "update" and cell[0].startswith("ndarray")) else ref[entry]
            s = compare(entry, r, o[entry])
            if s:
                f.add((entry, s))
            if o[entry][0] != "skip" and cell != REF:
                rec.case((name, data_id, cell, entry), nontrivial(entry, r),
                         {"detector": name, "n": n, "p": p, "cell": cell_text(cell), "entry": entry, "reference": _brief(r)}
                         if entry == "predict" and cell[2] == "datetime" and cell[3] == "strings" else None)
        # cascades: transform is a function of predict; an identical exception is one event
        pred = [s for e, s in f if e == "predict"]
        if pred:
            f = {(e, s) for e, s in f if e != "transform"}
            f = {(e, s) for e, s in f if e in ("predict", "fit") or s.replace("predict-after-update:", "") not in pred}
        if any(e == "transform_scores" for e, _ in f):          # the scores attribute is what transform_scores returned
            f = {(e, s) for e, s in f if e != "scores"}
        fails[cell] = f
    det = make()
    for cell in grid:
        for entry, symptom in sorted(fails[cell]):
            minimal, axes = reduce_cause(cell, fails, entry, symptom)
            predict_agrees = not any(e == "predict" for e, _ in fails[cell])
            key = f"{owner_of(det, entry, predict_agrees)}:{axes}:{symptom}"
            got = obs[minimal][entry]
            r = ref_restart[entry] if (entry == "update" and minimal[0].startswith("ndarray")) else ref[entry]
            what = (f"{name} on n={n}, p={p}: {entry} with X passed as {cell_text(minimal)} "
                    f"{'raised ' + got[1] + ': ' + got[2] if got[0] == 'err' else 'gives ' + _brief(got)}; the reference "
                    f"{cell_text(REF)} {'raised ' + r[1] if r[0] == 'err' else 'gives ' + _brief(r)} "
                    f"(axes needed for the difference: {axes})")
            inp = {"kind": what_kind, "name": name, "X": X, "cell": list(minimal), "entry": entry, "symptom": symptom}
            rec.violation(key, what, f"C11.{entry}", inp)
            failing_cells.setdefault(key, [])
            if cell_text(minimal) not in failing_cells[key] and len(failing_cells[key]) < 12:
                failing_cells[key].append(cell_text(minimal))


def _brief(o):
    if o[0] != "ok":
        return str(o)
    v = o[1]
    if isinstance(v, dict):
        return "{" + ", ".join(f"{k}={np.round(x, 6).tolist()}" for k, x in v.items()) + "}"
    if isinstance(v, tuple) and len(v) == 2 and isinstance(v[0], np.ndarray):
        return f"values {np.round(v[0], 4).T.tolist()}".replace(" ", "")[:260] + f" own-index={v[1]}"
    if isinstance(v, tuple) and len(v) == 3 and isinstance(v[0], dict):
        return f"refit {_brief(('ok', v[0]))} on {v[1]} rows, then {v[2][1] if v[2][0] == 'ok' else v[2]}"
    if isinstance(v, np.ndarray):
        return str(np.round(v, 4).tolist())[:200]
    return str(v)[:260]


# ----------------------------------------------------------------------------------------------- scorers
def observe_scorer(make, k, X, cell):
    R = represent(X, cell)
    sc = make()
    r = attempt(lambda: sc.fit(R))
    if r[0] != "ok":
        return {"evaluate": ("err", "fit:" + r[1], r[2])}
    return {"evaluate": attempt(lambda: np.asarray(sc.evaluate(scorer_cuts(X.shape[0], k)), dtype=float))}


def scorer_grid(rec, failing_cells, name, make, k, X, data_id):
    n, p = X.shape
    ref = observe_scorer(make, k, X, REF)["evaluate"]
    fails, obs = {}, {}
    for cell in cells(p):
        o = observe_scorer(make, k, X, cell)["evaluate"]
        obs[cell] = o
        s = None
        if ref[0] == "err":
            s = None if o[0] == "err" and o[1] == ref[1] else (f"raises-{o[1]}-instead-of-{ref[1]}" if o[0] == "err" else f"no-{ref[1]}")
        elif o[0] == "err":
            s = f"raises-{o[1]}"
        elif not same_numbers(ref[1], o[1]):
            s = "values-differ"
        fails[cell] = {("evaluate", s)} if s else set()
        if cell != REF:
            rec.case((name, data_id, cell, "evaluate"), ref[0] == "ok",
                     {"scorer": name, "n": n, "p": p, "cell": cell_text(cell), "reference": _brief(ref)} if cell[0] == "ndarray1d" else None)
    for cell in cells(p):
        for entry, symptom in fails[cell]:
            minimal, axes = reduce_cause(cell, fails, entry, symptom)
            key = f"{name.split('(')[0]}.evaluate:{axes}:{symptom}"
            o = obs[minimal]
            what = (f"{name} on n={n}, p={p}: fit(X).evaluate(cuts) with X passed as {cell_text(minimal)} "
                    f"{'raised ' + o[1] + ': ' + o[2] if o[0] == 'err' else 'gives ' + _brief(o)}; the reference gives {_brief(ref)}")
            rec.violation(key, what, "C11.evaluate", {"kind": "scorer", "name": name, "X": X, "cell": list(minimal), "entry": "evaluate",
                                                     "symptom": symptom})
            failing_cells.setdefault(key, [])
            if cell_text(minimal) not in failing_cells[key] and len(failing_cells[key]) < 12:
                failing_cells[key].append(cell_text(minimal))


# ----------------------------------------------------------------------------------------------- entry points
def run(tier="quick", seed=0, repo="/repo"):
    use_repo(repo)
    rec = Recorder(target="skchange/base/base_detector.py::BaseDetector.fit/update/predict/transform/transform_scores; "
                          "skchange/base/base_interval_scorer.py::BaseIntervalScorer.fit/evaluate")
    rng = np.random.default_rng(seed)
    failing_cells = {}
    ns = (12, 20)
    reps = 1 if tier == "quick" else 2
    for n in ns:
        for rep in range(reps):
            data = {1: dataset(rng, n, 1), 3: dataset(rng, n, 3)}
            for name, (make, multivariate) in detector_table(tier).items():
                for p in ((1, 3) if multivariate else (1,)):
                    if tier == "quick" and p == 3 and n == 20 and name.startswith("CircularBinarySegmentation"):
                        continue
                    grid_for(rec, failing_cells, name, make, data[p], (n, p, rep))
            for name, (make, k) in scorer_table().items():
                for p in (1, 3):
                    scorer_grid(rec, failing_cells, name, make, k, data[p], (n, p, rep))
            # large-magnitude integer data (multiples of 2**25: every sum and square is exact in float64 and within int64, but squares of partial sums
            # exceed the int64 range): integer arithmetic on the data must not leak into the scores
            if n == 20 and rep == 0:
                big = {p_: (dataset(rng, n, p_) + 2.0) * float(2 ** 25) for p_ in (1, 3)}
                for name in ("L2Cost", "L2Saving", "CUSUM", "ChangeScore(L2Cost)", "Saving(L2Cost(param=0.0))"):
                    make, k = scorer_table()[name]
                    for p_ in (1, 3):
                        scorer_grid(rec, failing_cells, name, make, k, big[p_], (n, p_, "big"))
                for name in ("PELT", "CAPA"):
                    make, multivariate = detector_table(tier)[name]
                    grid_for(rec, failing_cells, name, make, big[1], (n, 1, "big"))
    bound = (f"{len(detector_table(tier))} detector configurations (7 classes) and 10 scorer configurations (8 classes) x n in {list(ns)} x "
             f"p in (1,3) x {reps} integer-valued data set(s) x {len(cells(1))} cells (p=1) / {len(cells(3))} cells (p=3; containers df / series / ndarray incl. Fortran-ordered, strided view, one block per column; column labels incl. rotated after fit) x 6 entry points (detectors) / evaluate (scorers)")
    return rec.result(RULE, bound, exhaustive=True, failing_cells=failing_cells)


def replay(inp, repo="/repo"):
    use_repo(repo)
    X = np.array(inp["X"], dtype=float)
    if X.ndim == 1:
        X = X.reshape(-1, 1)
    cell, entry = tuple(inp["cell"]), inp["entry"]
    if inp.get("kind") == "scorer":
        make, k = scorer_table()[inp["name"]]
        ref = observe_scorer(make, k, X, REF)["evaluate"]
        got = observe_scorer(make, k, X, cell)["evaluate"]
        if ref[0] == "err":
            bad = not (got[0] == "err" and got[1] == ref[1])
        else:
            bad = got[0] == "err" or not same_numbers(ref[1], got[1])
        return {"violated": bool(bad), "detail": f"{cell_text(cell)}: {_brief(got)} vs reference {_brief(ref)}"[:1200]}
    table = detector_table("thorough")
    make = table[inp["name"]][0]
    restart = entry == "update" and cell[0].startswith("ndarray")
    ref = observe(make, X, REF, restart_update=restart)[entry]
    got = observe(make, X, cell)[entry]
    s = compare(entry, ref, got)
    return {"violated": s is not None, "detail": (f"{entry} with {cell_text(cell)}: {s}: {_brief(got)} vs reference {_brief(ref)}" if s
                                                  else "agrees with the reference")[:1200]}
