"""C02 bounded stand-in: PELT returns an exact minimiser of the penalised segmentation cost.

What is executed: the real `run_pelt` (directly, with and without a split cost) and the real `PELT` class through
fit / predict / transform_scores / .scores, with

  * user-defined costs: a `BaseCost` subclass whose `_evaluate_optim_param` reads an integer TABLE C[s][e]
    (min_size = 1 or = min_segment_length) that satisfies the split inequality C(a,b)+C(b,c)+kappa <= C(a,c) by
    construction (each splittable cell = max over its splits + kappa + a non-negative integer slack, slack 0 = a tie).
    Small (n, m) are enumerated completely over small value sets, larger ones (n <= 9, m <= 3) are seeded-random;
  * the built-in costs L2Cost / GaussianVarCost (optimised and fixed parameter; GaussianCovCost in the thorough tier)
    on small integer data (exhaustive over {0,1,2}^n for short series, seeded-random integers otherwise, p in {1,2}).

Oracle (from the statement, no dynamic programme): for every prefix length t >= m the minimum of
sum-of-segment-costs + penalty * #changepoints over ALL changepoint tuples of `oracles.segmentations(t, m)`; the cost
cells come from the table itself resp. from the row-by-row definitions in runtime/oracles.py.  `oracles.pelt_optimum`
(unpruned recursion) is used as a cross-check of the oracle on a sample and in replay().

Checked per case (clauses of the statement):
  minimiser      the returned changepoints form an admissible segmentation whose penalised cost equals the minimum
  prefix-scores  scores[t-1] equals the optimal penalised cost of the prefix of length t, for every m <= t <= n
  final-score    scores[n-1] equals the penalised cost of exactly the returned segmentation
All comparisons are on cost VALUES with common.close, never on changepoint identity, so ties cannot raise an alarm.
"""
from __future__ import annotations

import functools
import itertools
import math

import numpy as np

from runtime import oracles
from runtime.common import Recorder, close, use_repo, rot_frame

PENALTIES = [0.0, 0.5, 1.0, 2.0, 4.0]
TARGET = "skchange/change_detectors/pelt.py::run_pelt"

RULE = ("cases = (cost, data or table, min_segment_length m, penalty in {0,.5,1,2,4}, split cost, call path run_pelt|PELT class); "
        "table costs: complete enumeration over small value/slack sets for the smallest (n,m), seeded-random for n<=9, m<=3; "
        "built-in costs: all of {0,1,2}^n for short n, seeded-random integer data otherwise. A case is non-trivial when the "
        "brute-force optimum has at least one changepoint or the PELT pruning inequality F(s)+C(s,T)+kappa > F(T) holds for "
        "some admissible start s < T (a pruning happens); distinct = (path, cost, cells/data, m, penalty, kappa)")


# ----------------------------------------------------------------------------------------------------------------------
# user-defined table cost (created against whichever skchange copy is currently imported)
# ----------------------------------------------------------------------------------------------------------------------
_CLS = {}


def table_cost_class():
    from skchange.costs import BaseCost
    key = id(BaseCost)
    if key not in _CLS:
        class TableCost(BaseCost):
            """cost(X[s:e]) = table[s][e] (one column): a legitimate user-defined cost; the data are ignored."""

            def __init__(self, table=None, cost_min_size=1, param=None):
                self.table = table
                self.cost_min_size = cost_min_size
                self.rows_evaluated = 0
                super().__init__(param)

            @property
            def min_size(self):
                return self.cost_min_size

            def _fit(self, X, y=None):
                self._table = np.asarray(self.table, dtype=float)
                return self

            def _evaluate_optim_param(self, starts, ends):
                self.rows_evaluated += len(starts)
                return self._table[starts, ends].reshape(-1, 1)

        _CLS[key] = TableCost
    return _CLS[key]


# ----------------------------------------------------------------------------------------------------------------------
# tables satisfying the split inequality
# ----------------------------------------------------------------------------------------------------------------------
@functools.lru_cache(maxsize=None)
def table_cells(n, ms):
    """All cells (s,e) the cost can score, shortest first."""
    return tuple(sorted(((s, e) for s in range(n) for e in range(s + ms, n + 1)), key=lambda c: (c[1] - c[0], c[0])))


@functools.lru_cache(maxsize=None)
def reachable_cells(n, m, ms):
    """Cells PELT / the statement can look at: start 0 or an admissible changepoint, length >= m; (free, splittable)."""
    starts = [0] + list(range(m, n - m + 1))
    cells = [(s, e) for s in starts for e in range(s + m, n + 1)]
    cells.sort(key=lambda c: (c[1] - c[0], c[0]))
    free = tuple(c for c in cells if c[1] - c[0] < 2 * ms)
    comp = tuple(c for c in cells if c[1] - c[0] >= 2 * ms)
    return free, comp


def build_table(n, ms, kappa, choice):
    """choice: cell -> integer (value of an unsplittable cell, slack of a splittable one; default 0)."""
    T = np.full((n + 1, n + 1), np.nan)
    for (s, e) in table_cells(n, ms):
        base = None
        for b in range(s + ms, e - ms + 1):
            v = T[s, b] + T[b, e] + kappa
            if base is None or v > base:
                base = v
        T[s, e] = choice.get((s, e), 0) + (0.0 if base is None else base)
    return T


def split_inequality_holds(C, n, ms, kappa, tol=1e-9):
    for a in range(n):
        for c in range(a + 2 * ms, n + 1):
            for b in range(a + ms, c - ms + 1):
                if C[a, b] + C[b, c] + kappa > C[a, c] + tol * (1 + abs(C[a, c])):
                    return False
    return True


def table_to_json(T):
    return [[None if math.isnan(v) else float(v) for v in row] for row in np.asarray(T, dtype=float)]


def table_from_json(t):
    return np.array([[np.nan if v is None else float(v) for v in row] for row in t], dtype=float)


# ----------------------------------------------------------------------------------------------------------------------
# built-in costs: factory, min_size(p), row-by-row definition
# ----------------------------------------------------------------------------------------------------------------------
def gaussian_cov_definition(x):
    """Row-by-row multivariate Gaussian cost; None when the sample covariance is singular.  On integer data a non-zero
    determinant is far above 1e-9, so the threshold separates 'singular' from 'positive definite' exactly; rank-deficient
    segments (where rounding noise decides between the documented RuntimeError and a meaningless value) are C01's business."""
    x = np.asarray(x, dtype=float)
    xc = x - x.mean(axis=0)
    if np.linalg.det(xc.T @ xc / len(x)) <= 1e-9:
        return None
    return oracles.gaussian_cov_cost(x)


def builtin(kind):
    from skchange.costs import GaussianCovCost, GaussianVarCost, L2Cost
    return {
        "default(L2Cost)": (lambda: None, lambda p: 1, lambda x: oracles.l2_cost(x)),
        "L2Cost": (lambda: L2Cost(), lambda p: 1, lambda x: oracles.l2_cost(x)),
        "L2Cost(1.0)": (lambda: L2Cost(param=1.0), lambda p: 1, lambda x: oracles.l2_cost(x, 1.0)),
        "GaussianVarCost": (lambda: GaussianVarCost(), lambda p: 2, lambda x: oracles.gaussian_var_cost(x)),
        "GaussianVarCost(0,2)": (lambda: GaussianVarCost(param=(0.0, 2.0)), lambda p: 2,
                                 lambda x: oracles.gaussian_var_cost(x, (0.0, 2.0))),
        "GaussianCovCost": (lambda: GaussianCovCost(), lambda p: p + 1, gaussian_cov_definition),
    }[kind]


def cost_matrix(X, ms, definition):
    """C[s,e] = aggregated (summed over columns) cost of X[s:e] by the row-by-row definition; None if undefined (not PD)."""
    n = len(X)
    C = np.full((n + 1, n + 1), np.nan)
    for s in range(n):
        for e in range(s + ms, n + 1):
            v = definition(X[s:e])
            if v is None:
                return None
            C[s, e] = float(np.sum(v))
    return C


# ----------------------------------------------------------------------------------------------------------------------
# the oracle: enumeration of all segmentations of every prefix
# ----------------------------------------------------------------------------------------------------------------------
@functools.lru_cache(maxsize=None)
def _seg_index(t, m, width):
    segs = oracles.segmentations(t, m)
    idx = np.zeros((len(segs), max(len(c) for c in segs) + 1), dtype=np.int64)      # flat index 0 = cell (0,0) = 0.0
    for i, c in enumerate(segs):
        b = (0,) + tuple(c) + (t,)
        for j in range(len(b) - 1):
            idx[i, j] = b[j] * width + b[j + 1]
    return segs, idx, np.array([len(c) for c in segs], dtype=float)


def brute_force(C, n, m, beta):
    """F[t] = min over all segmentations of [0,t) (segments >= m) of sum of cells + beta * #changepoints, m <= t <= n,
    and the list of all (near-)optimal changepoint tuples of the full series."""
    C0 = np.array(C, dtype=float)
    C0[0, 0] = 0.0
    flat = C0.reshape(-1)
    F = [None] * (n + 1)
    best = []
    for t in range(m, n + 1):
        segs, idx, K = _seg_index(t, m, n + 1)
        vals = flat[idx].sum(axis=1) + beta * K
        F[t] = float(vals.min())
        if t == n:
            best = [segs[i] for i in np.flatnonzero(vals <= F[t] + 1e-9 * (1 + abs(F[t])))]
    return F, best


def case_flags(C, n, m, beta, kappa, F, best):
    """(has_changepoint, pruning_happens, tie_at_pruning_boundary) from the oracle values."""
    has_cp = any(len(c) > 0 for c in best)
    prunes = tie = False
    for T in range(2 * m, n + 1):
        for s in [0] + list(range(m, T - m + 1)):
            Fs = -beta if s == 0 else F[s]
            d = Fs + C[s, T] + kappa - F[T]
            if d > 1e-9 * (1 + abs(F[T])):
                prunes = True
            elif abs(d) <= 1e-9 * (1 + abs(F[T])):      # kept only because the pruning inequality is non-strict
                tie = True
    return has_cp, prunes, tie


def admissible(cps, n, m):
    b = [0] + [int(c) for c in cps] + [n]
    return all(b[i + 1] - b[i] >= m for i in range(len(b) - 1))


def judge(C, n, m, beta, F, scores, cps, close=close):
    """Compare the outputs with the statement; returns a list of (aspect, clause, message)."""
    out = []
    scores = np.asarray(scores, dtype=float).reshape(-1)
    cps = [int(c) for c in np.asarray(cps).reshape(-1)]
    if len(scores) != n:
        return [("shape", "C02.prefix-scores", f"{len(scores)} scores for n={n}")]
    if not admissible(cps, n, m):
        return [("inadmissible", "C02.minimiser", f"returned changepoints {cps} are not a segmentation of [0,{n}) with segments >= {m}")]
    got = float(oracles.segmentation_cost(lambda s, e: C[s, e], n, cps, beta))
    if not close(got, F[n]):
        out.append(("not-optimal", "C02.minimiser",
                    f"returned changepoints {cps} cost {got:.10g} (penalised) but the minimum over all segmentations is {F[n]:.10g}"))
    bad = [t for t in range(m, n + 1) if not close(scores[t - 1], F[t])]
    if bad:
        t = bad[0]
        out.append(("not-optimal", "C02.prefix-scores",
                    f"score of the prefix of length {t} is {scores[t - 1]:.10g} but its optimal penalised cost is {F[t]:.10g}"))
    if not close(scores[n - 1], got):
        out.append(("final-score", "C02.final-score",
                    f"final score {scores[n - 1]:.10g} differs from the penalised cost {got:.10g} of the returned segmentation {cps}"))
    return out


# ----------------------------------------------------------------------------------------------------------------------
# running the real code
# ----------------------------------------------------------------------------------------------------------------------
def make_cost(spec, X):
    """spec: {"kind": "table", "table": ndarray, "min_size": int} or {"kind": <builtin name>}; returns (cost obj or None, ms, C)."""
    if spec["kind"] == "table":
        T = np.asarray(spec["table"], dtype=float)
        return table_cost_class()(table=T, cost_min_size=int(spec["min_size"])), int(spec["min_size"]), T
    make, msf, definition = builtin(spec["kind"])
    ms = msf(X.shape[1])
    return make(), ms, None


def call_direct(cost_obj, X, beta, m, kappa):
    from skchange.change_detectors.pelt import run_pelt
    from skchange.costs import L2Cost
    scores, cps = run_pelt(X, L2Cost() if cost_obj is None else cost_obj, beta, m, kappa)
    return np.asarray(scores, dtype=float), np.asarray(cps).reshape(-1)


def call_class(cost_obj, X, beta, m, n_train=None):
    """PELT(cost, penalty_scale, m).fit(train).predict(X) / transform_scores(X) / .scores; the penalty is read back from
    the fitted detector (its formula is C15's business)."""
    import pandas as pd
    from skchange.change_detectors import PELT
    n, p = X.shape
    n_train = n if n_train is None else n_train
    scale = beta / (2 * p * math.log(n_train))
    if cost_obj is not None:
        # the cost object has a past: it was fitted to wider data and is shared with another detector (nothing of that may matter)
        try:
            wide = np.hstack([X, 0.5 * X[:, :1] + 1.0, X[:, :1] ** 2 - 2.0])
            cost_obj.fit(wide)
            PELT(cost=cost_obj, penalty_scale=scale + 1.0, min_segment_length=m + 1)
        except Exception:
            pass
    det = PELT(cost=cost_obj, penalty_scale=scale, min_segment_length=m)
    train = X if n_train == n else np.vstack([X, X, X])[:n_train]
    df = rot_frame(X, 7)
    if p == 1 and n % 2 == 0:
        df = df.iloc[:, 0]                     # a univariate series handed over as a pd.Series (with the rotating row labels)
    # history: an earlier fit on data of another length (other penalty) followed by scoring the same frame must leave no trace
    det.fit(pd.DataFrame(np.vstack([X, X])[: n + 3]))
    det.transform_scores(df)
    det.predict(df)
    det.fit(rot_frame(train, 8))
    ts0 = np.asarray(det.transform_scores(df), dtype=float).reshape(-1)       # first call after the refit: nothing of the earlier fit may be reused
    # ... and on the SAME fit: calls on another series with an equal index (same length, default RangeIndex) in between; what they computed
    # describes that series, not df
    other = pd.DataFrame(np.ascontiguousarray(X[::-1]) * 1.5 + 0.25, index=df.index)
    if isinstance(df, pd.Series):
        other = other.iloc[:, 0]
    det.predict(other)
    det.transform_scores(other)
    ts = np.asarray(det.transform_scores(df), dtype=float).reshape(-1)        # nothing of the earlier calls may be reused
    y = det.predict(df)
    cps = np.asarray(y).reshape(-1)
    attr = np.asarray(det.scores, dtype=float).reshape(-1)
    return float(det.penalty_), [ts0, ts], attr, cps


def mclass(m):
    return "m=1" if m == 1 else "m>=2"


class Ctx:
    def __init__(self, rec):
        self.rec = rec
        self.family = {}          # family -> {"cases":, "violating":, "smallest": {...}}
        self.ties = 0
        self.pruned_measured = 0
        self.oracle_checks = 0
        self.skipped = 0

    def fam(self, family, n, m, violating, summary):
        f = self.family.setdefault(family, {"cases": 0, "violating": 0, "smallest": None, "_rank": None})
        f["cases"] += 1
        if violating:
            f["violating"] += 1
            rank = (n, m)
            if f["_rank"] is None or rank < f["_rank"]:
                f["_rank"], f["smallest"] = rank, summary


def check_case(ctx, family, spec, X, m, beta, kappa, C, via, n_train=None, fp=None, unit=None):
    """One execution of the real code + comparison.  `C` is the oracle cost matrix.  Returns the list of findings.
    `unit`: every cost, penalty and score of the case is an (almost) exact multiple of this unit; comparisons are then made
    to a thousandth of the unit instead of the default relative-plus-absolute 1e-9 (which is blind below 1e-9 and above 1e9)."""
    rec = ctx.rec
    n = len(X)
    F, best = brute_force(C, n, m, beta)
    eq = close if unit is None else (lambda a, b: bool(abs(float(a) - float(b)) <= 1e-3 * unit))
    inp = {"via": via, "cost": {"kind": spec["kind"]}, "X": X, "m": m, "penalty": beta, "split_cost": kappa}
    if unit is not None:
        inp["unit"] = unit
    if spec["kind"] == "table":
        inp["cost"].update(table=table_to_json(spec["table"]), min_size=spec["min_size"])
    if n_train is not None:
        inp["n_train"] = n_train
    cost_obj, ms, _ = make_cost(spec, X)
    findings, beta_used = [], beta
    try:
        if via == "run_pelt":
            scores, cps = call_direct(cost_obj, X, beta, m, kappa)
            findings = judge(C, n, m, beta, F, scores, cps, eq)
        else:
            beta_used, ts, attr, cps = call_class(cost_obj, X, beta, m, n_train)
            if not eq(beta_used, beta):          # the fitted penalty is what the detector minimises with
                F, best = brute_force(C, n, m, beta_used)
            findings = []
            for which, one in zip(("first transform_scores after the refit: ", "transform_scores after calls on another series: "), ts):
                findings = findings or [(a, c, which + msg) for a, c, msg in judge(C, n, m, beta_used, F, one, cps, eq)]
            if not findings:
                findings = [(a, c, ".scores attribute: " + msg) for a, c, msg in judge(C, n, m, beta_used, F, attr, cps, eq)]
    except Exception as e:      # every case is a valid configuration (n >= 2m, m >= cost.min_size, penalty >= 0)
        findings = [("raises:" + type(e).__name__, "C02.minimiser", f"{type(e).__name__}: {str(e)[:120]}")]
    has_cp, prunes, tie = case_flags(C, n, m, beta_used, kappa, F, best)
    ctx.ties += tie
    if spec["kind"] == "table" and via == "run_pelt" and cost_obj is not None:
        full = m + sum(T - 2 * m + 2 for T in range(2 * m, n + 1))
        ctx.pruned_measured += cost_obj.rows_evaluated < full
    cells = tuple(np.nan_to_num(np.asarray(spec["table"]), nan=-999).reshape(-1).tolist()) if spec["kind"] == "table" \
        else tuple(np.asarray(X).reshape(-1).tolist())
    rec.case((via, spec["kind"], spec.get("min_size"), cells, X.shape[1], m, beta, kappa, n_train), has_cp or prunes,
             {"path": via, "cost": spec["kind"], "n": n, "m": m, "penalty": beta, "split_cost": kappa,
              "optimal_changepoints": list(best[0]) if best else None, "optimum": F[n], "pruning": bool(prunes), "tie": bool(tie)})
    for aspect, clause, msg in findings:
        key = f"PELT:{aspect}:{mclass(m)}" if aspect in ("not-optimal", "inadmissible") else f"PELT:{aspect}"
        desc = (f"{via} with {spec['kind']}" + (f"(min_size={spec['min_size']})" if spec["kind"] == "table" else "")
                + f", n={n}, min_segment_length={m}, penalty={beta_used:g}, split_cost={kappa:g}: {msg}")
        rec.violation(key, desc, clause, inp, target=TARGET if via == "run_pelt" else "skchange/change_detectors/pelt.py::PELT")
    ctx.fam(family, n, m, bool(findings),
            {"n": n, "m": m, "penalty": beta_used, "split_cost": kappa, "via": via,
             "cost": spec["kind"] + (f"(min_size={spec['min_size']})" if spec["kind"] == "table" else ""),
             "X": None if spec["kind"] == "table" else np.asarray(X).tolist(),
             "cells": {f"{s},{e}": C[s, e] for s in range(n) for e in range(s + 1, n + 1) if not math.isnan(C[s, e])}
             if spec["kind"] == "table" else None,
             "what": findings[0][2] if findings else None})
    return findings


def oracle_selfcheck(ctx, C, n, m, beta):
    """The enumeration and the unpruned recursion of runtime/oracles.py must agree (guards the oracle, not skchange)."""
    F, _ = brute_force(C, n, m, beta)
    G, cps = oracles.pelt_optimum(lambda s, e: C[s, e], n, m, beta)
    for t in range(m, n + 1):
        assert close(F[t], G[t]), ("oracle disagreement", n, m, beta, t, F[t], G[t])
    assert close(oracles.segmentation_cost(lambda s, e: C[s, e], n, cps, beta), F[n])
    ctx.oracle_checks += 1


# ----------------------------------------------------------------------------------------------------------------------
# enumeration
# ----------------------------------------------------------------------------------------------------------------------
def exhaustive_tables(n, m, ms, kappa, V, E):
    free, comp = reachable_cells(n, m, ms)
    for fv in itertools.product(V, repeat=len(free)):
        ch = dict(zip(free, fv))
        for ev in itertools.product(E, repeat=len(comp)):
            ch.update(zip(comp, ev))
            yield build_table(n, ms, kappa, ch)


def random_table(rng, n, ms, kappa):
    ch = {}
    lo, hi = (-3, 6) if rng.random() < 0.5 else (0, 3)
    p_tie = rng.choice([0.2, 0.5, 0.8])
    for c in table_cells(n, ms):
        if c[1] - c[0] < 2 * ms:
            ch[c] = int(rng.integers(lo, hi + 1))
        else:
            ch[c] = 0 if rng.random() < p_tie else int(rng.integers(1, 7))
    return build_table(n, ms, kappa, ch)


def run(tier="quick", seed=0, repo="/repo"):
    use_repo(repo)
    rec = Recorder(target=TARGET)
    ctx = Ctx(rec)
    rng = np.random.default_rng(seed)
    quick = tier == "quick"
    counter = itertools.count()

    def table_case(family, T, n, m, ms, kappa, class_stride):
        X = np.zeros((n, 1))
        spec = {"kind": "table", "table": T, "min_size": ms}
        for beta in PENALTIES:
            i = next(counter)
            check_case(ctx, family, spec, X, m, beta, kappa, T, "run_pelt")
            if kappa == 0 and i % class_stride == 0:
                check_case(ctx, family + "/class", spec, X, m, beta, 0.0, T, "class", n_train=(n + 3 if i % (3 * class_stride) == 0 else None))
            if i % 97 == 0:
                oracle_selfcheck(ctx, T, n, m, beta)

    # --- A. table costs, complete enumeration -------------------------------------------------------------------------
    #       (n, m, cost min_size, value set of unsplittable cells, slack set of splittable cells)
    if quick:
        scopes = [(4, 2, 2, (0, 1, 2), (0, 1, 2, 5)), (5, 2, 2, (0, 1), (0, 1, 2, 5)), (6, 2, 2, (0, 1), (0, 2)),
                  (6, 3, 3, (0, 1), (0, 2)), (7, 3, 3, (0, 1), (0, 2)), (3, 1, 1, (0, 1), (0, 1, 2)), (4, 1, 1, (0, 1), (0, 1)),
                  (4, 2, 1, (0, 1), (0, 1, 3))]
    else:
        scopes = [(4, 2, 2, (0, 1, 2, 3), (0, 1, 2, 5, 9)), (5, 2, 2, (0, 1, 2), (0, 1, 2, 5)), (6, 2, 2, (0, 1), (0, 1, 2)),
                  (6, 3, 3, (0, 1, 2), (0, 1, 2, 5)), (7, 3, 3, (0, 1, 2), (0, 1, 2, 5)), (8, 3, 3, (0, 1), (0, 2)),
                  (2, 1, 1, (0, 1, 2), (0, 1, 2, 5)), (3, 1, 1, (0, 1, 2), (0, 1, 2, 5)), (4, 1, 1, (0, 1), (0, 1, 2)),
                  (5, 1, 1, (0, 1), (0, 1)), (4, 2, 1, (0, 1, 2), (0, 1, 2, 5)), (5, 2, 1, (0, 1), (0, 1, 3)),
                  (6, 2, 1, (0, 1), (0, 3))]
    exhaustive_scopes = []
    for (n, m, ms, V, E) in scopes:
        cnt = 0
        for T in exhaustive_tables(n, m, ms, 0.0, V, E):
            table_case(f"table(min_size={'m' if ms == m and m > 1 else 1}),m{'=1' if m == 1 else '>=2'},exhaustive", T, n, m, ms, 0.0,
                       class_stride=(41 if quick else 61))
            cnt += 1
        exhaustive_scopes.append({"n": n, "m": m, "cost_min_size": ms, "values": list(V), "slacks": list(E), "tables": cnt})

    # --- B. table costs, seeded random, n <= 9, m <= 3, split cost 0 or 1 ------------------------------------------------
    n_random = 500 if quick else 6000
    for _ in range(n_random):
        m = int(rng.integers(1, 4))
        n = int(rng.integers(2 * m, 10))
        ms = m if rng.random() < 0.5 else 1
        kappa = float(rng.choice([0.0, 0.0, 1.0]))
        T = random_table(rng, n, ms, kappa)
        assert split_inequality_holds(T, n, ms, kappa)
        table_case(f"table(min_size={'m' if ms == m and m > 1 else 1}),m{'=1' if m == 1 else '>=2'},random", T, n, m, ms, kappa,
                   class_stride=(17 if quick else 23))

    # --- C. built-in costs on integer data ----------------------------------------------------------------------------------
    def data_case(kind, X, class_stride):
        make, msf, definition = builtin(kind)
        n, p = X.shape
        ms = msf(p)
        C = cost_matrix(X, ms, definition)
        if C is None or not split_inequality_holds(C, n, ms, 0.0):       # outside the statement's hypothesis
            ctx.skipped += 1
            return
        for m in range(max(1, ms), 4):
            if n < 2 * m:
                continue
            for beta in PENALTIES:
                i = next(counter)
                if kind != "default(L2Cost)":
                    check_case(ctx, kind + "," + mclass(m), {"kind": kind}, X, m, beta, 0.0, C, "run_pelt")
                if kind == "default(L2Cost)" or i % class_stride == 0:
                    check_case(ctx, kind + "/class," + mclass(m), {"kind": kind}, X, m, beta, 0.0, C, "class",
                               n_train=(n + 2 if i % (2 * class_stride) == 0 else None))
                if i % 97 == 0:
                    oracle_selfcheck(ctx, C, n, m, beta)

    n_exh = 5 if quick else 7
    for n in range(2, n_exh + 1):
        for xs in itertools.product((0, 1, 2), repeat=n):
            X = np.array(xs, dtype=float).reshape(-1, 1)
            data_case("L2Cost", X, class_stride=(29 if quick else 43))
            if n >= 4 and (not quick or n <= 5):
                data_case("GaussianVarCost", X, class_stride=(29 if quick else 43))
    kinds = ["L2Cost", "L2Cost", "L2Cost(1.0)", "GaussianVarCost", "GaussianVarCost(0,2)", "default(L2Cost)", "GaussianCovCost"]
    if not quick:
        kinds += ["GaussianCovCost", "L2Cost"]
    n_data = 260 if quick else 3000
    for j in range(n_data):
        kind = kinds[j % len(kinds)]
        n = int(rng.integers(6, 10))
        p = int(rng.integers(1, 3))
        width = int(rng.choice([1, 2, 3]))
        X = rng.integers(-width, width + 1, size=(n, p)).astype(float)
        if kind == "default(L2Cost)" and j % 4:
            continue
        data_case(kind, X, class_stride=(13 if quick else 19))

    # --- D. the same on other scales: near-tied, unequal candidates ------------------------------------------------------------
    #     costs in units of 2**-30 (differences far below 1e-8) and costs with a per-sample offset of 2**30 (differences far below
    #     1e-5 of the values); powers of two, so every table entry, penalty and sum is exact in float64 and the optimum is as
    #     well separated (in units) as in sections A-C.  The statement has no scale: the minimiser must still be the minimiser.
    n_scaled = 60 if quick else 900
    for j in range(n_scaled):
        m = int(rng.integers(1, 4))
        n = int(rng.integers(2 * m, 10))
        ms = m if rng.random() < 0.5 else 1
        kappa = float(rng.choice([0.0, 0.0, 1.0]))
        T = random_table(rng, n, ms, kappa)
        unit, offset = (2.0 ** -30, 0.0) if j % 2 == 0 else (1.0, 2.0 ** 30)
        length = np.subtract.outer(np.arange(n + 1), np.arange(n + 1)).T.astype(float)       # length[s, e] = e - s
        T2 = T * unit + offset * length
        assert split_inequality_holds(T2, n, ms, kappa * unit, tol=0.0)
        spec = {"kind": "table", "table": T2, "min_size": ms}
        fam_name = f"table,{'unit 2^-30' if offset == 0.0 else 'offset 2^30 per sample'}"
        for beta in PENALTIES:
            i = next(counter)
            check_case(ctx, fam_name, spec, np.zeros((n, 1)), m, beta * unit, kappa * unit, T2, "run_pelt", unit=unit)
            if kappa == 0 and i % 7 == 0:
                check_case(ctx, fam_name + "/class", spec, np.zeros((n, 1)), m, beta * unit, 0.0, T2, "class", unit=unit)
    for j in range(40 if quick else 600):
        n = int(rng.integers(6, 10))
        p = int(rng.integers(1, 3))
        X = rng.integers(-3, 4, size=(n, p)).astype(float) * 2.0 ** -15
        make, msf, definition = builtin("L2Cost")
        C = cost_matrix(X, 1, definition)
        unit = 2.0 ** -30
        for m in (1, 2, 3):
            if n < 2 * m:
                continue
            for beta in PENALTIES:
                i = next(counter)
                check_case(ctx, "L2Cost,data in units of 2^-15," + mclass(m), {"kind": "L2Cost"}, X, m, beta * unit, 0.0, C,
                           "run_pelt" if i % 3 else "class", unit=unit)

    # --- E. one long series ------------------------------------------------------------------------------------------------------
    for n_long, m_long in ((3000, 2),) if quick else ((3000, 2), (6000, 1)):
        inp_long = {"check": "long", "n": n_long, "m": m_long, "seed": seed}
        rec.case(("long", n_long, m_long), check_long(rec, inp_long), None)

    fam = {k: {kk: vv for kk, vv in v.items() if kk != "_rank"} for k, v in sorted(ctx.family.items())}
    return rec.result(
        RULE,
        "n <= 9, min_segment_length <= 3, penalty in {0,0.5,1,2,4}, split cost in {0,1}; integer table costs (values -3..6, slacks 0..6; "
        f"complete over the listed small scopes, {n_random} random tables) and L2/Gaussian costs on integer data "
        f"(all of {{0,1,2}}^n for n <= {n_exh}, {n_data} random series with entries in -3..3, p <= 2); {n_scaled} of the random tables "
        "again in units of 2^-30 / with an offset of 2^30 per sample, L2Cost on data in units of 2^-15; one series of 3000 rows (PELT class, L2 cost) against the unpruned recursion",
        exhaustive=False, exhaustive_subscopes=exhaustive_scopes, by_family=fam, cases_with_tie_at_pruning_boundary=ctx.ties,
        table_runs_with_measured_pruning=ctx.pruned_measured, oracle_selfchecks=ctx.oracle_checks,
        skipped_outside_hypothesis=ctx.skipped)


def check_long(rec, inp):
    """One LONG series through the PELT class (L2 cost): prefix scores, final score and the returned changepoints against an
    unpruned optimal-partitioning recursion evaluated with NumPy (O(n^2)); the small scopes above cannot see anything that only
    breaks beyond some thousand rows (block-wise evaluation, size-keyed caches, narrow index types).  inp: {"n", "m", "seed"}."""
    import pandas as pd
    from skchange.change_detectors import PELT
    n, m = int(inp["n"]), int(inp["m"])
    rng = np.random.default_rng(int(inp["seed"]))
    x = rng.normal(size=n)
    for c in sorted(rng.choice(np.arange(50, n - 50), size=12, replace=False)):
        x[c:] += rng.choice([-2.0, 2.0, 3.0])
    x[n - 7:] += 4.0                                      # a change close to the end
    X = x.reshape(-1, 1)
    try:
        det = PELT(min_segment_length=m, penalty_scale=2.0).fit(pd.DataFrame(X))
        scores = np.asarray(det.transform_scores(pd.DataFrame(X)), dtype=float).reshape(-1)
        cps = [int(c) for c in np.asarray(det.predict(pd.DataFrame(X))).reshape(-1)]
        beta = float(det.penalty_)
    except Exception as e:      # noqa: BLE001
        rec.violation("PELT:long-series:raises", f"PELT(min_segment_length={m}) on n={n} raised {type(e).__name__}: {str(e)[:120]}", "C02.minimiser", inp,
                      target="skchange/change_detectors/pelt.py::PELT")
        return True
    S = np.concatenate(([0.0], np.cumsum(x)))
    Q = np.concatenate(([0.0], np.cumsum(x * x)))
    F = np.full(n + 1, np.inf)
    F[0] = -beta
    for t in range(m, n + 1):
        s = np.arange(0, t - m + 1)
        s = s[(s == 0) | (s >= m)]
        seg = (Q[t] - Q[s]) - (S[t] - S[s]) ** 2 / (t - s)
        F[t] = np.min(F[s] + seg + beta)
    b = [0] + cps + [n]
    got = sum((Q[e] - Q[a]) - (S[e] - S[a]) ** 2 / (e - a) for a, e in zip(b[:-1], b[1:])) + beta * len(cps)
    tol = 1e-7 * (1.0 + abs(F[n]))
    if any(e - a < m for a, e in zip(b[:-1], b[1:])) or abs(got - F[n]) > tol:
        rec.violation("PELT:not-optimal:long-series", f"PELT(min_segment_length={m}, penalty={beta:.6g}) on n={n}: the returned {len(cps)} changepoints cost {got:.10g} "
                      f"(penalised), the minimum over all segmentations is {F[n]:.10g}", "C02.minimiser", inp, target="skchange/change_detectors/pelt.py::PELT")
        return True
    t = np.arange(m, n + 1)
    bad = t[np.abs(scores[t - 1] - F[t]) > 1e-7 * (1.0 + np.abs(F[t]))]
    if len(scores) != n or len(bad):
        k = int(bad[0]) if len(bad) else -1
        rec.violation("PELT:not-optimal:long-series", f"PELT(min_segment_length={m}) on n={n}: {len(bad)} prefix scores differ from the optimal penalised cost, first at "
                      f"prefix length {k}: {scores[k - 1] if k > 0 else None!r} vs {F[k] if k > 0 else None!r}", "C02.prefix-scores", inp,
                      target="skchange/change_detectors/pelt.py::PELT")
    return True


def replay(inp, repo="/repo"):
    use_repo(repo)
    if inp.get("check") == "long":
        rec = Recorder()
        check_long(rec, inp)
        return {"violated": bool(rec.violations), "detail": rec.violations[0]["what"] if rec.violations else "holds"}
    X = np.array(inp["X"], dtype=float)
    if X.ndim == 1:
        X = X.reshape(-1, 1)
    n, m, beta, kappa = len(X), int(inp["m"]), float(inp["penalty"]), float(inp.get("split_cost", 0.0))
    spec = {"kind": inp["cost"]["kind"]}
    if spec["kind"] == "table":
        spec["table"] = table_from_json(inp["cost"]["table"])
        spec["min_size"] = int(inp["cost"]["min_size"])
        C, ms = spec["table"], spec["min_size"]
    else:
        make, msf, definition = builtin(spec["kind"])
        ms = msf(X.shape[1])
        C = cost_matrix(X, ms, definition)
    if C is None or not split_inequality_holds(C, n, ms, kappa, tol=(1e-9 if inp.get("unit") is None else 0.0)) or n < 2 * m or m < ms:
        return {"violated": False, "detail": "input outside the hypothesis of the statement"}
    rec = Recorder()
    ctx = Ctx(rec)
    oracle_selfcheck(ctx, C, n, m, beta)
    findings = check_case(ctx, "replay", spec, X, m, beta, kappa, C, inp.get("via", "run_pelt"), n_train=inp.get("n_train"),
                          unit=inp.get("unit"))
    return {"violated": bool(findings), "detail": rec.violations[0]["what"] if rec.violations else "holds"}
