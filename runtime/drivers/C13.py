"""C13 bounded stand-in: evaluate either rejects a cuts array (ValueError) or scores exactly the cuts it describes.

Scope (exhaustive): every integer tuple of the box [-2, n+2]^k for n in {4, 5} (thorough: also 6) for the 8 built-in
scorer classes (k = 2, 3 or 4), one row at a time, plus two-row batches mixing a valid and an invalid row, plus
float / wrong-width / 1-D / 3-D arrays.  Oracle: ValidCuts of the statement + the direct row-by-row value.
"""
from __future__ import annotations

import itertools

import numpy as np

from runtime import oracles
from runtime.common import Recorder, close, use_repo

RULE = ("all integer tuples of [-2,n+2]^k per scorer; a case is non-trivial when the tuple is valid (scored and compared "
        "with the direct definition) or invalid for a reason other than ordering (range / spacing / min_size); "
        "distinct = (scorer, n, tuple)")


def scorers(n, p):
    from skchange.anomaly_scores import L2Saving, LocalAnomalyScore, Saving
    from skchange.change_scores import CUSUM, ChangeScore
    from skchange.costs import GaussianCovCost, GaussianVarCost, L2Cost
    out = [
        ("L2Cost", lambda: L2Cost(), 2, 1, lambda X, c: oracles.l2_cost(X[c[0]:c[1]])),
        ("L2Cost(1.5)", lambda: L2Cost(param=1.5), 2, 1, lambda X, c: oracles.l2_cost(X[c[0]:c[1]], 1.5)),
        ("GaussianVarCost", lambda: GaussianVarCost(), 2, 2, lambda X, c: oracles.gaussian_var_cost(X[c[0]:c[1]])),
        ("GaussianCovCost", lambda: GaussianCovCost(), 2, p + 1, lambda X, c: oracles.gaussian_cov_cost(X[c[0]:c[1]])),
        ("CUSUM", lambda: CUSUM(), 3, 1, lambda X, c: np.sqrt(np.maximum(oracles.change_score(oracles.l2_cost, X, *c), 0))),
        ("ChangeScore(L2)", lambda: ChangeScore(L2Cost()), 3, 1, lambda X, c: oracles.change_score(oracles.l2_cost, X, *c)),
        ("ChangeScore(GVar)", lambda: ChangeScore(GaussianVarCost()), 3, 2, lambda X, c: oracles.change_score(oracles.gaussian_var_cost, X, *c)),
        ("L2Saving", lambda: L2Saving(), 2, 1, lambda X, c: oracles.saving(oracles.l2_cost, X, c[0], c[1], 0.0)),
        ("Saving(L2(0.5))", lambda: Saving(L2Cost(param=0.5)), 2, 1, lambda X, c: oracles.saving(oracles.l2_cost, X, c[0], c[1], 0.5)),
        ("LocalAnomalyScore(L2)", lambda: LocalAnomalyScore(L2Cost()), 4, 1, lambda X, c: oracles.local_anomaly_score(oracles.l2_cost, X, *c)),
        ("LocalAnomalyScore(GVar)", lambda: LocalAnomalyScore(GaussianVarCost()), 4, 2,
         lambda X, c: oracles.local_anomaly_score(oracles.gaussian_var_cost, X, *c)),
        # fixed parameters (scalars are broadcast to every column: the minimum size still depends on the data, p + 1 for the full covariance)
        ("GaussianVarCost(0.5,2.0)", lambda: GaussianVarCost(param=(0.5, 2.0)), 2, 2, lambda X, c: oracles.gaussian_var_cost(X[c[0]:c[1]], (0.5, 2.0))),
        ("GaussianCovCost(0.0,1.0)", lambda: GaussianCovCost(param=(0.0, 1.0)), 2, p + 1, lambda X, c: oracles.gaussian_cov_cost(X[c[0]:c[1]], (0.0, 1.0))),
        ("GaussianCovCost(0.5,2.0)", lambda: GaussianCovCost(param=(0.5, 2.0)), 2, p + 1, lambda X, c: oracles.gaussian_cov_cost(X[c[0]:c[1]], (0.5, 2.0))),
        ("ChangeScore(GCov)", lambda: ChangeScore(GaussianCovCost()), 3, p + 1, lambda X, c: oracles.change_score(oracles.gaussian_cov_cost, X, *c)),
        ("ChangeScore(GCov(0.0,1.0))", lambda: ChangeScore(GaussianCovCost(param=(0.0, 1.0))), 3, p + 1, None),
        ("Saving(GCov(0.0,1.0))", lambda: Saving(GaussianCovCost(param=(0.0, 1.0))), 2, p + 1, None),
        ("LocalAnomalyScore(GCov(0.0,1.0))", lambda: LocalAnomalyScore(GaussianCovCost(param=(0.0, 1.0))), 4, p + 1, None),
    ]
    return out


def valid(name, c, n, k, min_size):
    if c[0] < 0 or c[-1] > n:
        return False
    if name.startswith("LocalAnomalyScore"):
        gaps = [c[i + 1] - c[i] for i in range(3)]
        return min(gaps) >= 1 and gaps[1] >= min_size and gaps[0] + gaps[2] >= min_size
    return all(c[i + 1] - c[i] >= min_size for i in range(k - 1))


def refit_same(make, kind, Xa, Xb):
    """Fit a scorer on a container holding Xa, change the SAME container object in place so that it holds Xb, fit the SAME scorer again."""
    import pandas as pd
    n0, n1 = len(Xa), len(Xb)
    sc = make()
    if kind == "ndarray":
        D = Xa.copy()
        sc.fit(D)
        D[...] = Xb
    else:
        D = pd.DataFrame(Xa.copy())
        sc.fit(D)
        if n1 > n0:
            D.iloc[:, :] = Xb[:n0]
            for i in range(n0, n1):
                D.loc[i] = Xb[i]                      # setting with enlargement: same object, more rows
        elif n1 < n0:
            D.iloc[:n1, :] = Xb
            D.drop(index=list(range(n1, n0)), inplace=True)
        else:
            D.iloc[:, :] = Xb
    assert np.array_equal(np.asarray(D, dtype=float), Xb)
    return sc.fit(D)


def check_one(rec, name, sc, X, n, k, min_size, oracle, cuts_rows, dtype=np.int64, extra=None):
    cuts = np.array(cuts_rows, dtype=dtype)
    want_ok = all(valid(name, tuple(r), n, k, min_size) for r in cuts_rows)
    inp = {"scorer": name, "X": X, "cuts": cuts, **(extra or {})}
    try:
        got = sc.evaluate(cuts)
        err = None
    except ValueError:
        got, err = None, "ValueError"
    except RuntimeError as e:      # documented error of the multivariate cost (not PD)
        got, err = None, "RuntimeError"
    except Exception as e:
        got, err = None, type(e).__name__
    if want_ok and oracle is None:          # only acceptance is judged for this scorer (its values are C06's business)
        if err is not None and err != "RuntimeError":
            rec.violation(f"{name}:rejects-valid:{err}", f"{name}.evaluate({cuts_rows}) on n={n} raised {err} for valid cuts", "C13.accepts", inp)
        return True
    if want_ok:
        exp = [oracle(X, tuple(r)) for r in cuts_rows]
        if any(e is None for e in exp):
            if err != "RuntimeError":
                rec.violation(f"{name}:notpd", f"{name}.evaluate({cuts_rows}) should raise the documented RuntimeError, got {err or 'a value'}",
                              "C13.value", inp)
            return True
        if err is not None:
            rec.violation(f"{name}:rejects-valid:{err}", f"{name}.evaluate({cuts_rows}) on n={n} raised {err} for valid cuts", "C13.accepts", inp)
        elif not close(got, np.array(exp)):
            rec.violation(f"{name}:value", f"{name}.evaluate({cuts_rows}) = {got.tolist()} but the definition gives {np.array(exp).tolist()}",
                          "C13.value", inp)
        return True
    if err != "ValueError":
        why = "a value was returned" if err is None else f"{err} was raised"
        rec.violation(f"{name}:accepts-invalid:{err}", f"{name}.evaluate({cuts_rows}) on n={n}: invalid cuts must raise ValueError but {why}",
                      "C13.rejects", inp)
    r = cuts_rows[0]
    return all(r[i] < r[i + 1] for i in range(len(r) - 1))     # non-trivial invalid: ordered but out of range / too short


def run(tier="quick", seed=0, repo="/repo"):
    use_repo(repo)
    rec = Recorder(target="skchange/base/base_interval_scorer.py::BaseIntervalScorer.evaluate")
    rng = np.random.default_rng(seed)
    ns = [4, 5] if tier == "quick" else [4, 5, 6]
    shapes = [(n, 1) for n in ns] + ([(5, 2)] if tier == "quick" else [(5, 2), (6, 2), (6, 3)])
    for n, p in shapes:
        X = np.round(rng.normal(size=(n, p)) * 3, 1) + np.arange(n).reshape(-1, 1) % 2
        for name, make, k, min_size, oracle in scorers(n, p):
            if k == 4 and n > (5 if tier == "quick" else 6):
                continue
            if p > 1 and "GCov" not in name and "GaussianCovCost" not in name and name not in ("L2Cost", "GaussianVarCost", "CUSUM"):
                continue                                   # wider data: the scorers whose minimum size depends on p + one of each kind
            name = name if p == 1 else f"{name}[p={p}]"
            sc = make().fit(X)
            box = range(-2, n + 3)
            for c in itertools.product(box, repeat=k):
                nt = check_one(rec, name, sc, X, n, k, min_size, oracle, [list(c)])
                rec.case((name, n, c), nt, {"scorer": name, "n": n, "cuts": list(c)} if nt and valid(name, c, n, k, min_size) else None)
                if min(c) >= 0 and (k <= 3 or p == 1):
                    # the same tuple held in an UNSIGNED integer array (still "an integer array": differences of unsigned integers wrap
                    # around instead of going negative, so a decreasing tuple must not slip through the ordering test)
                    for dt in ((np.uint64, np.uint8) if k == 2 else (np.uint64,)):
                        check_one(rec, name + f"[{np.dtype(dt).name}]", sc, X, n, k, min_size, oracle, [list(c)], dtype=dt)
                        rec.case((name, n, c, np.dtype(dt).name), nt, None)
            # batches: one valid + one invalid row must raise; two valid rows equal their single-row values
            vs = [c for c in itertools.product(range(0, n + 1), repeat=k) if valid(name, c, n, k, min_size)]
            if vs:
                bad = tuple([-1] + list(vs[0][1:]))
                check_one(rec, name, sc, X, n, k, min_size, oracle, [list(vs[0]), list(bad)])
                rec.case((name, n, "batch-bad"), True)
                check_one(rec, name, sc, X, n, k, min_size, oracle, [list(vs[-1]), list(vs[0])])
                rec.case((name, n, "batch-good"), True)
                # every valid tuple in ONE call (lexicographic, reversed, and interleaved from both ends): each row is the score of its own cut
                inter = [vs[i // 2] if i % 2 == 0 else vs[-1 - i // 2] for i in range(len(vs))]
                for label, order in (("all-lex", vs), ("all-rev", vs[::-1]), ("all-interleaved", inter)):
                    check_one(rec, name, sc, X, n, k, min_size, oracle, [list(v) for v in order])
                    rec.case((name, n, label), True)
            # malformed arrays
            okc = list(vs[0]) if vs else list(range(k))
            for label, arr in (("float", np.array([[0.0, float(n)] + [float(n)] * (k - 2)])[:, :k]),
                               ("width", np.arange(k + 1).reshape(1, -1)),
                               ("3d", np.zeros((1, 1, k), dtype=np.int64)),
                               # not integer arrays either, whatever the container: non-integral numbers in a list / tuple, numeric strings, booleans
                               ("float-list", [[c + 0.5 for c in okc]]), ("float-tuple", tuple(c + 0.25 for c in okc)),
                               ("integral-float-list", [[float(c) for c in okc]]), ("str-list", [[str(c) for c in okc]]),
                               ("bool-array", np.array([[bool(c % 2) for c in range(k)]]))):
                try:
                    sc.evaluate(arr)
                    rec.violation(f"{name}:malformed:{label}", f"{name}.evaluate accepted a {label} cuts array", "C13.rejects",
                                  {"scorer": name, "X": X, "cuts": arr, "kind": label})
                except ValueError:
                    pass
                except Exception as e:
                    rec.violation(f"{name}:malformed:{label}:{type(e).__name__}", f"{name}.evaluate raised {type(e).__name__} for a {label} cuts array",
                                  "C13.rejects", {"scorer": name, "X": X, "cuts": arr, "kind": label})
                rec.case((name, n, label), True)
    # a reused container: the scorer is fitted on a DataFrame / ndarray, the SAME container object is then grown, shrunk or refilled in place and
    # the SAME scorer object is fitted on it again -- n and the scores are those of the data as fitted last (the whole box again)
    import pandas as pd
    for n0, n1, p in ((4, 6, 1), (6, 4, 1), (5, 5, 1), (5, 7, 2)):
        Xa = np.round(rng.normal(size=(n0, p)) * 3, 1) + np.arange(n0).reshape(-1, 1) % 2
        Xb = np.round(rng.normal(size=(n1, p)) * 3, 1) - np.arange(n1).reshape(-1, 1) % 3
        for kind in (("frame",) if n0 != n1 else ("frame", "ndarray")):
            for name, make, k, min_size, oracle in scorers(n1, p):
                if k == 4 and p > 1:
                    continue
                if p > 1 and "GCov" not in name and "GaussianCovCost" not in name and name not in ("L2Cost", "CUSUM"):
                    continue
                name = f"{name}[refit-same-{kind}:{n0}->{n1},p={p}]"
                try:
                    sc = refit_same(make, kind, Xa, Xb)
                except Exception as e:                                  # noqa: BLE001
                    rec.violation(f"{name}:refit-raises:{type(e).__name__}", f"{name}: fitting the same scorer on the same container again raised "
                                  f"{type(e).__name__}: {str(e)[:120]}", "C13.accepts", {"scorer": name, "X": Xb})
                    continue
                for c in itertools.product(range(-2, n1 + 3), repeat=k):
                    nt = check_one(rec, name, sc, Xb, n1, k, min_size, oracle, [list(c)], extra={"refit_same": kind, "X_before": Xa})
                    rec.case((name, n1, c), nt, None)
    # wrap-around specials on a longer series (n = 120): differences of narrow / unsigned / extreme integers must not wrap past the checks,
    # and a valid cut held in a narrow type is scored like its int64 twin
    n, p = 120, 1
    X = np.round(rng.normal(size=(n, p)) * 3, 1) + (np.arange(n).reshape(-1, 1) // 40)
    for name, make, k, min_size, oracle in scorers(n, p):
        if k > 3 or "GCov" in name or "GaussianCovCost" in name:
            continue
        sc = make().fit(X)
        tail = [110] if k == 3 else []
        specials = [(np.int8, [100] + [-100] + tail[:0]), (np.int64, [5, -2 ** 63 + 2]), (np.uint64, [2 ** 63 + 5, 2 ** 63 + 7]), (np.int8, [0, 60]), (np.uint8, [0, 60]),
                    (np.int16, [0, 60])] if k == 2 else \
                   [(np.int8, [100, -100, 110]), (np.int64, [5, 7, -2 ** 63 + 2]), (np.uint64, [2 ** 63 + 5, 2 ** 63 + 7, 2 ** 63 + 9]), (np.int8, [0, 20, 60]),
                    (np.uint8, [0, 20, 60]), (np.int16, [0, 20, 60])]
        for dt, c in specials:
            check_one(rec, name + f"[{np.dtype(dt).name}]", sc, X, n, k, min_size, oracle, [c], dtype=dt)
            rec.case((name, n, tuple(c), np.dtype(dt).name), True, None)
    return rec.result(RULE, f"(n, p) in {shapes}, box [-2,n+2]^k, k in 2..4 (non-negative tuples also as uint64 / uint8 arrays); wrap-around specials "
                            "(int8, uint64, extreme int64) on n = 120", exhaustive=True)


def replay(inp, repo="/repo"):
    use_repo(repo)
    X = np.array(inp["X"], dtype=float)
    n, p = X.shape
    for name, make, k, min_size, oracle in scorers(n, p):
        if name == inp["scorer"].split("[")[0]:
            rec = Recorder()
            sc = refit_same(make, inp["refit_same"], np.array(inp["X_before"], dtype=float), X) if inp.get("refit_same") else make().fit(X)
            cuts = np.array(inp["cuts"])
            if inp.get("kind"):
                try:
                    sc.evaluate(cuts.astype(float) if inp["kind"] == "float" else cuts)
                    return {"violated": True, "detail": "malformed cuts accepted"}
                except ValueError:
                    return {"violated": False, "detail": "ValueError"}
                except Exception as e:
                    return {"violated": True, "detail": type(e).__name__}
            dt = np.uint64 if "[uint64]" in inp["scorer"] else (np.uint8 if "[uint8]" in inp["scorer"] else np.int64)
            check_one(rec, name, sc, X, n, k, min_size, oracle, cuts.tolist(), dtype=dt)
            return {"violated": bool(rec.violations), "detail": rec.violations[0]["what"] if rec.violations else "holds"}
    return {"violated": False, "detail": "unknown scorer"}
