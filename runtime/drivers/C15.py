"""C15 bounded stand-in: thresholds and penalties follow their documented formulas and act monotonically.

Executed on the real code, compared with formulas written from the property statement:

 A  penalty functions of skchange.anomaly_detectors.mvcapa on a grid of (n, p, parameters-per-variable k, scale):
      capa_penalty(n, K, s)      == s (K + 2 sqrt(K log n) + 2 log n)
      dense_mvcapa_penalty       == (capa_penalty(n, p k, s), zeros(p))                     no per-component part
      sparse_mvcapa_penalty      == (2 s log n, p copies of 2 s log(k p))
      combined_mvcapa_penalty    cumulative penalty of j components == min(dense(j), sparse(j), intermediate(j)), j = 1..p
                                 (dense / sparse from the formulas above, intermediate from the individually computed
                                 intermediate_mvcapa_penalty at the SAME scale; asserted for p >= 2 where it is defined)
      every family: alpha >= 0 and increments >= 0 (non-negative, non-decreasing in the number of components) and
                    f(.., scale=s) == s * f(.., scale=1)   (proportional; skipped for an input whose formula /
                    pointwise-min clause already failed, so that one defect keeps one key)
 B  fitted attributes: PELT.penalty_ == s 2 p log n, SeededBinarySegmentation.threshold_ == s 2 p sqrt(log n),
    CAPA.collective_penalty_ == s (K + 2 sqrt(K log n) + 2 log n) with K parameters per segment (L2: p, Gaussian mean+variance:
    2p, Gaussian mean+covariance: p + p(p+1)/2), CAPA.point_penalty_ proportional to its scale, MovingWindow / Circular
    BinarySegmentation.threshold_ == s * the class's published get_default_threshold(...); every one == s * (value at scale 1).
 C  scale None: threshold_ == the (1 - level) quantile (linear interpolation between order statistics, written out here)
    of the detector's own scores on the training data, and #{score > threshold_} <= ceil(level (N-1)) (DESIGN 10-C15: the
    literal "fraction level" fails for tiny N and is not asserted; exceedances are counted with a decision margin).
 D  PELT: for penalties b1 < b2 (gap >= 0.125, far above rounding) the number of reported changepoints does not increase;
    run_pelt directly and PELT(penalty_scale=s).fit_predict(X) on small integer / rounded-normal series.

fit() errors on configurations that belong to other properties (empty seeded-interval set for n close to
2*min_segment_length, bandwidth 1, min_segment_length 1 in circular binary segmentation: C07 / C08 / C09 / C14) are
counted in the `fit_errors` field of the result and are NOT reported as C15 violations.
"""
from __future__ import annotations

import itertools
import math
import warnings

import numpy as np

from runtime.common import Recorder, close, use_repo, rot_frame

RULE = ("A: grid of (n,p,k,scale) per penalty function; B: grid of (detector, n, p, scale, other hyper-parameters) fits; C: tuned fits "
        "over (detector, n, p, level, hyper-parameters, seed); D: (cost, series, min_segment_length) with a ladder of penalties. "
        "Non-trivial: A/B scale not in {0,1} or (combined) the minimum is attained by more than one family over j; C: the training "
        "scores are not all equal and N >= 3; D: the changepoint count actually changes along the penalty ladder. "
        "distinct = the full parameter tuple")

MV = "skchange/anomaly_detectors/mvcapa.py::"


def lg(n):
    return math.log(n)


def capa_formula(n, K, s):
    return s * (K + 2 * math.sqrt(K * lg(n)) + 2 * lg(n))


def quantile_linear(scores, q):
    """The q-quantile by linear interpolation between the order statistics x_(0) <= ... <= x_(N-1) at position (N-1) q."""
    x = sorted(float(v) for v in scores)
    h = (len(x) - 1) * q
    lo = int(math.floor(h))
    hi = min(lo + 1, len(x) - 1)
    return x[lo] + (h - lo) * (x[hi] - x[lo])


# ----------------------------------------------------------------------------------------------------------------------
# A. penalty functions
# ----------------------------------------------------------------------------------------------------------------------
def family(name):
    from skchange.anomaly_detectors import mvcapa
    return getattr(mvcapa, name)


def check_penalty_point(rec, name, n, p, k, s):
    """All clauses for one function at one grid point; returns True when the point is non-trivial."""
    f = family(name)
    inp = {"part": "A", "function": name, "n": n, "p": p, "k": k, "scale": s}
    key = "mvcapa." + name
    tgt = MV + name
    failed_formula = False
    try:
        if name == "capa_penalty":
            got = float(f(n, p * k, s))
            want = capa_formula(n, p * k, s)
            if not close(got, want):
                failed_formula = True
                rec.violation(key + ":formula", f"capa_penalty(n={n}, n_params={p * k}, scale={s}) = {got!r}, formula gives {want!r}",
                              "C15.capa-formula", inp, tgt)
            if got < 0:
                rec.violation(key + ":negative", f"capa_penalty(n={n}, n_params={p * k}, scale={s}) = {got!r} < 0", "C15.non-negative", inp, tgt)
            one = float(f(n, p * k, 1.0))
            if not failed_formula and not close(got, s * one):
                rec.violation(key + ":proportional", f"capa_penalty(n={n}, n_params={p * k}, scale={s}) = {got!r} != {s} * {one!r}",
                              "C15.proportional", inp, tgt)
            return s not in (0, 1)
        alpha, betas = f(n, p, k, s)
        alpha, betas = float(alpha), np.asarray(betas, dtype=float).reshape(-1)
    except Exception as e:
        rec.violation(key + ":raises:" + type(e).__name__, f"{name}(n={n}, p={p}, k={k}, scale={s}) raised {type(e).__name__}: {str(e)[:100]}",
                      "C15.defined", inp, tgt)
        return True
    cum = alpha + np.cumsum(betas)                       # penalty of 1..p components
    call = f"{name}(n={n}, p={p}, n_params_per_variable={k}, scale={s})"
    nontrivial = s not in (0, 1)
    if len(betas) != p:
        rec.violation(key + ":shape", f"{call} returned {len(betas)} per-component terms for p={p}", "C15.shape", inp, tgt)
        return True
    if name == "dense_mvcapa_penalty":
        want = capa_formula(n, p * k, s)
        if not close(alpha, want) or np.any(betas != 0):
            failed_formula = True
            rec.violation(key + ":formula", f"{call} = ({alpha!r}, {betas.tolist()}) but CAPA's penalty for p*k={p * k} parameters is {want!r} "
                          "with no per-component part", "C15.dense-definition", inp, tgt)
    if name == "sparse_mvcapa_penalty":
        wa, wb = 2 * s * lg(n), 2 * s * lg(k * p)
        if not close(alpha, wa) or not close(betas, np.full(p, wb)):
            failed_formula = True
            rec.violation(key + ":formula", f"{call} = ({alpha!r}, {betas.tolist()}) but 2 s log n = {wa!r} and 2 s log(k p) = {wb!r}",
                          "C15.sparse-definition", inp, tgt)
    if name == "combined_mvcapa_penalty" and p >= 2:
        ia, ib = family("intermediate_mvcapa_penalty")(n, p, k, s)
        Pi = float(ia) + np.cumsum(np.asarray(ib, dtype=float))
        Pd = np.full(p, capa_formula(n, p * k, s))
        Ps = 2 * s * lg(n) + np.arange(1, p + 1) * 2 * s * lg(k * p)
        want = np.minimum(Pd, np.minimum(Ps, Pi))
        arg = {int(a) for a in np.argmin(np.vstack([Pd, Ps, Pi]), axis=0)}
        nontrivial = nontrivial or len(arg) > 1
        if not close(cum, want):
            failed_formula = True
            j = int(np.flatnonzero(~np.isclose(cum, want, rtol=1e-8, atol=1e-8))[0])
            rec.violation(key + ":pointwise-min",
                          f"{call}: cumulative penalties {np.round(cum, 6).tolist()} but min(dense, sparse, intermediate) = {np.round(want, 6).tolist()} "
                          f"(dense {np.round(Pd, 6).tolist()}, sparse {np.round(Ps, 6).tolist()}, intermediate {np.round(Pi, 6).tolist()}); first "
                          f"difference at {j + 1} component(s)", "C15.combined-is-pointwise-min", inp, tgt)
    tol = 1e-9 * (1 + abs(float(cum[-1])))
    if alpha < -tol or cum[0] < -tol:
        rec.violation(key + ":negative", f"{call}: alpha = {alpha!r}, penalty of one component = {cum[0]!r}", "C15.non-negative", inp, tgt)
    if np.any(betas < -tol):
        j = int(np.flatnonzero(betas < -tol)[0])
        rec.violation(key + ":decreasing", f"{call}: penalty decreases from {j} to {j + 1} components (increment {betas[j]!r})",
                      "C15.non-decreasing", inp, tgt)
    if not failed_formula:
        a1, b1 = f(n, p, k, 1.0)
        cum1 = float(a1) + np.cumsum(np.asarray(b1, dtype=float))
        if not close(alpha, s * float(a1)) or not close(cum, s * cum1):
            rec.violation(key + ":proportional", f"{call}: cumulative penalties {np.round(cum, 6).tolist()} are not {s} times those of scale 1 "
                          f"({np.round(s * cum1, 6).tolist()})", "C15.proportional", inp, tgt)
    return nontrivial


def part_a(rec, tier):
    if tier == "quick":
        ns, ps, ks, ss = [2, 3, 10, 100, 100000], [1, 2, 3, 5, 11], [1, 2, 5], [0.0, 0.5, 1.0, 2.0, 3.7]
    else:
        ns = [2, 3, 4, 5, 7, 10, 30, 100, 1000, 10000, 100000]
        ps, ks, ss = list(range(1, 12)), [1, 2, 3, 5], [0.0, 0.1, 0.5, 1.0, 2.0, 3.7, 10.0]
    for name in ("capa_penalty", "dense_mvcapa_penalty", "sparse_mvcapa_penalty", "intermediate_mvcapa_penalty", "combined_mvcapa_penalty"):
        for n, p, k, s in itertools.product(ns, ps, ks, ss):
            if name == "intermediate_mvcapa_penalty" and p < 2:
                continue                                   # documented ValueError: not defined
            nt = check_penalty_point(rec, name, n, p, k, s)
            rec.case(("A", name, n, p, k, s), nt, {"part": "A", "function": name, "n": n, "p": p, "k": k, "scale": s})
    return f"A: n in {ns}, p in {ps}, k in {ks}, scale in {ss}"


# ----------------------------------------------------------------------------------------------------------------------
# B. fitted attributes
# ----------------------------------------------------------------------------------------------------------------------
def detector_specs():
    """name -> (make(scale, hp), attribute, formula(n, p, hp) for scale 1 or None, hyper-parameter grid(n), min n(hp))"""
    from skchange.anomaly_detectors import CAPA, CircularBinarySegmentation
    from skchange.change_detectors import PELT, MovingWindow, SeededBinarySegmentation
    from skchange.costs import GaussianCovCost, GaussianVarCost, L2Cost

    def capa_saving(kind):
        return {"L2": None, "L2Cost(0)": L2Cost(param=0.0), "GaussianVar": GaussianVarCost(param=(0.0, 1.0)),
                "GaussianCov": GaussianCovCost(param=(0.0, 1.0))}[kind]

    def capa_k(kind, p):
        return {"L2": p, "L2Cost(0)": p, "GaussianVar": 2 * p, "GaussianCov": p + p * (p + 1) // 2}[kind]

    return {
        "PELT": (lambda s, hp: PELT(penalty_scale=s, min_segment_length=hp["m"]), "penalty_",
                 lambda n, p, hp: 2 * p * lg(n), lambda n: [{"m": m} for m in (1, 2, 3) if n >= 2 * m]),
        # the statement's formula is 2 p log n whatever the cost (the number of parameters per segment enters CAPA's penalty only)
        "PELT.cost": (lambda s, hp: PELT(cost={"L2": L2Cost(), "GaussianVar": GaussianVarCost(), "GaussianCov": GaussianCovCost(),
                                               "L2(0)": L2Cost(param=0.0)}[hp["cost"]], penalty_scale=s, min_segment_length=hp["m"]),
                      "penalty_", lambda n, p, hp: 2 * p * lg(n),
                      lambda n: [{"cost": c, "m": 4} for c in ("L2", "GaussianVar", "GaussianCov", "L2(0)") if n >= 8]),
        "SeededBinarySegmentation": (lambda s, hp: SeededBinarySegmentation(threshold_scale=s, min_segment_length=hp["m"],
                                                                           max_interval_length=hp["M"]), "threshold_",
                                     lambda n, p, hp: 2 * p * math.sqrt(lg(n)),
                                     lambda n: [{"m": m, "M": M} for m in (1, 2) for M in (4 * m, 50) if n >= 2 * m]),
        "CAPA.collective": (lambda s, hp: CAPA(collective_saving=capa_saving(hp["saving"]), collective_penalty_scale=s,
                                               point_penalty_scale=hp["other"], min_segment_length=hp["m"]), "collective_penalty_",
                            lambda n, p, hp: capa_formula(n, capa_k(hp["saving"], p), 1.0),
                            lambda n: [{"saving": sv, "other": o, "m": m} for sv in ("L2", "L2Cost(0)", "GaussianVar", "GaussianCov")
                                       for o, m in ((2.0, 2), (0.5, 4)) if n >= m]),
        "CAPA.point": (lambda s, hp: CAPA(collective_saving=capa_saving(hp["saving"]), collective_penalty_scale=hp["other"],
                                          point_penalty_scale=s, min_segment_length=2), "point_penalty_", None,
                       lambda n: [{"saving": sv, "other": o} for sv in ("L2", "GaussianVar") for o in (2.0, 0.5)]),
        "MovingWindow": (lambda s, hp: MovingWindow(bandwidth=hp["b"], threshold_scale=s, level=hp["level"]), "threshold_",
                         lambda n, p, hp: float(MovingWindow.get_default_threshold(n, p, hp["b"], hp["level"])),
                         lambda n: [{"b": b, "level": lv} for b in (2, 3, 10) for lv in (0.01, 0.2) if n >= 2 * b]),
        "CircularBinarySegmentation": (lambda s, hp: CircularBinarySegmentation(threshold_scale=s, min_segment_length=hp["m"],
                                                                               max_interval_length=hp["M"]), "threshold_",
                                       lambda n, p, hp: float(CircularBinarySegmentation.get_default_threshold(n, p, hp["M"])),
                                       lambda n: [{"m": m, "M": M} for m in (2, 3) for M in (4 * m, 50) if n >= 2 * m]),
    }


def fit_value(name, s, hp, X):
    import pandas as pd
    make, attr, _, _ = detector_specs()[name]
    with warnings.catch_warnings():
        warnings.simplefilter("ignore")
        det = make(s, hp)
        det.fit(rot_frame(X, 4))
    return float(getattr(det, attr))


def check_fitted(rec, name, n, p, s, hp, seed):
    _, attr, formula, _ = detector_specs()[name]
    X = np.random.default_rng(seed).normal(size=(n, p))
    inp = {"part": "B", "detector": name, "n": n, "p": p, "scale": s, "hp": hp, "seed": seed}
    tgt = f"skchange::{name.split('.')[0]}._fit"
    try:
        got = fit_value(name, s, hp, X)
        one = fit_value(name, 1.0, hp, X)
    except Exception as e:
        return ("error", f"{name}:{type(e).__name__}", inp)
    failed = False
    if formula is not None:
        want = s * formula(n, p, hp)
        if not close(got, want):
            failed = True
            rec.violation(f"{name}:fitted-value", f"{name}(scale={s}, {hp}).fit(X {n}x{p}).{attr} = {got!r} but scale * default = {want!r}",
                          "C15.fitted-value", inp, tgt)
    if not failed and not close(got, s * one):
        rec.violation(f"{name}:proportional", f"{name}(scale={s}, {hp}).fit(X {n}x{p}).{attr} = {got!r} but {s} * (value at scale 1) = {s * one!r}",
                      "C15.proportional", inp, tgt)
    if got < 0:
        rec.violation(f"{name}:negative", f"{name}(scale={s}, {hp}).fit(X {n}x{p}).{attr} = {got!r} < 0", "C15.fitted-value", inp, tgt)
    return ("ok", None, None)


def part_b(rec, tier, seed, errors):
    ns = [4, 5, 8, 20, 100] if tier == "quick" else [2, 3, 4, 5, 6, 8, 12, 20, 50, 100, 400, 1000]
    ps = [1, 2, 3] if tier == "quick" else [1, 2, 3, 5]
    ss = [0.0, 0.5, 2.0, 3.7] if tier == "quick" else [0.0, 0.1, 0.5, 1.0, 2.0, 3.7, 10.0]
    for name, (_, _, _, grid) in detector_specs().items():
        for n in ns:
            for hp in grid(n):
                for p, s in itertools.product(ps, ss):
                    status, ekey, einp = check_fitted(rec, name, n, p, s, hp, seed)
                    if status == "error":
                        e = errors.setdefault(ekey, {"count": 0, "sample": einp})
                        e["count"] += 1
                        continue
                    rec.case(("B", name, n, p, s, tuple(sorted(hp.items()))), s not in (0, 1),
                             {"part": "B", "detector": name, "n": n, "p": p, "scale": s, "hp": hp})
    return f"B: n in {ns}, p in {ps}, scale in {ss}, 6 fitted attributes x their hyper-parameter grids"


# ----------------------------------------------------------------------------------------------------------------------
# C. tuned thresholds
# ----------------------------------------------------------------------------------------------------------------------
def tuned(name, hp, level, X):
    """Fit with scale None on X; return (threshold_, the detector's own scores on X)."""
    import pandas as pd
    from skchange.anomaly_detectors import CircularBinarySegmentation
    from skchange.change_detectors import MovingWindow, SeededBinarySegmentation
    df = rot_frame(X, 5)
    with warnings.catch_warnings():
        warnings.simplefilter("ignore")
        if name == "MovingWindow":
            det = MovingWindow(bandwidth=hp["b"], threshold_scale=None, level=level).fit(df)
            scores = np.asarray(det.transform_scores(df), dtype=float).reshape(-1)
        else:
            cls = SeededBinarySegmentation if name == "SeededBinarySegmentation" else CircularBinarySegmentation
            det = cls(threshold_scale=None, level=level, min_segment_length=hp["m"], max_interval_length=hp["M"],
                      growth_factor=hp.get("g", 1.5)).fit(df)
            det.predict(df)
            scores = np.asarray(det.scores["score"], dtype=float).reshape(-1)
    return float(det.threshold_), scores


def check_tuned(rec, name, n, p, hp, level, seed, kind):
    rng = np.random.default_rng(seed)
    X = rng.normal(size=(n, p)) if kind == "normal" else rng.integers(-1, 2, size=(n, p)).astype(float)
    inp = {"part": "C", "detector": name, "n": n, "p": p, "hp": hp, "level": level, "seed": seed, "data": kind}
    tgt = f"skchange::{name}._tune_threshold"
    try:
        thr, scores = tuned(name, hp, level, X)
    except Exception as e:
        return ("error", f"{name}(tuning):{type(e).__name__}", inp, False)
    N = len(scores)
    want = quantile_linear(scores, 1 - level)
    call = f"{name}({hp}, threshold_scale=None, level={level}).fit(X {n}x{p}, seed {seed})"
    if not close(thr, want):
        rec.violation(f"{name}:tuned-threshold", f"{call}.threshold_ = {thr!r} but the {1 - level:g}-quantile of its {N} training scores is {want!r}",
                      "C15.tuned-quantile", inp, tgt)
    else:
        margin = 1e-8 * (1 + abs(thr))
        exceed = int(np.sum(scores > thr + margin))
        bound = math.ceil(level * (N - 1) - 1e-12)
        if exceed > bound:
            rec.violation(f"{name}:tuned-threshold", f"{call}: {exceed} of {N} training scores exceed threshold_ = {thr!r}; at most "
                          f"ceil(level (N-1)) = {bound} may", "C15.tuned-exceedances", inp, tgt)
    return ("ok", None, None, N >= 3 and float(np.ptp(scores)) > 0)


def part_c(rec, tier, seed, errors):
    levels = [0.01, 0.1, 0.25, 0.5, 0.9] if tier == "quick" else [0.001, 0.01, 0.05, 0.1, 0.25, 1 / 3, 0.5, 0.75, 0.9, 0.99]
    ns = [4, 5, 6, 8, 11, 16, 30] if tier == "quick" else [2, 3, 4, 5, 6, 7, 8, 9, 11, 13, 16, 21, 30, 60]
    seeds = 1 if tier == "quick" else 2
    grids = {
        "MovingWindow": lambda n: [{"b": b} for b in (1, 2, 3, 5) if n >= 2 * b],
        # the growth factor varies with (m, M) so that tuning and prediction must use the detector's own interval family
        "SeededBinarySegmentation": lambda n: [{"m": m, "M": M, "g": (1.1, 1.5, 2.0)[(m + i) % 3]} for m in (1, 2, 3)
                                               for i, M in enumerate((2 * m, 4 * m, 50)) if n >= 2 * m],
        "CircularBinarySegmentation": lambda n: [{"m": m, "M": M, "g": (2.0, 1.1, 1.5)[(m + i) % 3]} for m in (1, 2, 3)
                                                 for i, M in enumerate((2 * m, 4 * m, 50)) if n >= 2 * m and n <= (16 if tier == "quick" else 30)],
    }
    for name, grid in grids.items():
        for n in ns:
            for hp in grid(n):
                for p, level, sd, kind in itertools.product((1, 2), levels, range(seeds), ("normal", "integer")):
                    if kind == "integer" and p == 2:
                        continue
                    status, ekey, einp, nt = check_tuned(rec, name, n, p, hp, level, seed + sd, kind)
                    if status == "error":
                        e = errors.setdefault(ekey, {"count": 0, "sample": einp})
                        e["count"] += 1
                        continue
                    rec.case(("C", name, n, p, tuple(sorted(hp.items())), level, seed + sd, kind), nt,
                             {"part": "C", "detector": name, "n": n, "p": p, "hp": hp, "level": level})
    return f"C: n in {ns}, p in (1,2), levels {levels}, bandwidth <= 5 / min_segment_length <= 3, normal and integer training data"


# ----------------------------------------------------------------------------------------------------------------------
# D. PELT: a larger penalty never increases the number of changepoints
# ----------------------------------------------------------------------------------------------------------------------
LADDER = [0.0, 0.125, 0.25, 0.375, 0.5, 0.625, 0.75, 1.0, 1.25, 1.5, 2.0, 2.5, 3.0, 4.0, 6.0, 8.0, 16.0]


def make_cost(kind):
    from skchange.costs import GaussianVarCost, L2Cost
    return {"L2Cost": L2Cost, "GaussianVarCost": GaussianVarCost}[kind]()


def count_changepoints(kind, X, m, beta, via):
    if via == "run_pelt":
        from skchange.change_detectors.pelt import run_pelt
        _, cps = run_pelt(X, make_cost(kind), beta, m)
        return len(np.asarray(cps).reshape(-1))
    import pandas as pd
    from skchange.change_detectors import PELT
    n, p = X.shape
    det = PELT(cost=make_cost(kind), penalty_scale=beta / (2 * p * lg(n)), min_segment_length=m)
    return len(np.asarray(det.fit_predict(rot_frame(X, 6))).reshape(-1))


def check_monotone(kind, X, m, via):
    """Returns (violation or None, counts); the violation names the offending pair of penalties that is closest on the ladder."""
    counts = [count_changepoints(kind, X, m, b, via) for b in LADDER]
    for gap in range(1, len(LADDER)):
        for i in range(len(LADDER) - gap):
            if counts[i + gap] > counts[i]:
                b1, b2 = LADDER[i], LADDER[i + gap]
                return (f"PELT:penalty-monotonicity:{'m=1' if m == 1 else 'm>=2'}",
                        f"{via} with {kind}, X={np.asarray(X).T.tolist() if X.shape[1] > 1 else X.reshape(-1).tolist()} (n={len(X)}), "
                        f"min_segment_length={m}: penalty {b1:g} gives {counts[i]} changepoint(s) but the larger penalty {b2:g} gives "
                        f"{counts[i + gap]} (counts along {LADDER}: {counts})",
                        "C15.penalty-monotone", {"part": "D", "cost": kind, "X": X, "m": m, "via": via, "penalties": [b1, b2]},
                        "skchange/change_detectors/pelt.py::run_pelt"), counts
    return None, counts


def part_d(rec, tier, seed, stats):
    rng = np.random.default_rng(seed + 1)
    n_full = 5 if tier == "quick" else 7
    n_rand = 440 if tier == "quick" else 3000
    n_max = 14 if tier == "quick" else 20
    found = []

    def one(kind, X, via, with_m1=True):
        ms = 2 if kind == "GaussianVarCost" or not with_m1 else 1
        for m in range(ms, 4):
            if len(X) < 2 * m:
                continue
            bad, counts = check_monotone(kind, X, m, via)
            fam = stats.setdefault(f"{kind},{'m=1' if m == 1 else 'm>=2'}", {"cases": 0, "violating": 0, "smallest_n": None})
            fam["cases"] += 1
            if bad:
                found.append((len(X), X.shape[1], len(found), bad))
                fam["violating"] += 1
                fam["smallest_n"] = len(X) if fam["smallest_n"] is None else min(fam["smallest_n"], len(X))
            rec.case(("D", via, kind, tuple(X.reshape(-1).tolist()), X.shape[1], m), len(set(counts)) > 1,
                     {"part": "D", "path": via, "cost": kind, "n": len(X), "m": m, "counts_along_ladder": counts})

    for n in range(2, n_full + 1):                                     # all of {0,1,2}^n, L2 cost
        for xs in itertools.product((0, 1, 2), repeat=n):
            one("L2Cost", np.array(xs, dtype=float).reshape(-1, 1), "run_pelt")
    if tier != "quick":                                                # n = 8: the sequences of {0,1,2}^8 that start with 0
        for xs in itertools.product((0, 1, 2), repeat=7):
            one("L2Cost", np.array((0,) + xs, dtype=float).reshape(-1, 1), "run_pelt")
    for j in range(n_rand):
        n = int(rng.integers(6, n_max + 1))
        p = 2 if j % 5 == 3 else 1
        X = rng.integers(-3, 4, size=(n, p)).astype(float) if j % 4 == 0 else np.round(rng.normal(size=(n, p)) * 3, 1)
        one("GaussianVarCost" if j % 6 == 0 else "L2Cost", X, "class" if j % 7 == 0 else "run_pelt", with_m1=(j % 4 == 1))
    for _, _, _, v in sorted(found, key=lambda t: t[:3]):             # smallest series first: it is the one kept per key
        rec.violation(*v)
    return (f"D: penalties {LADDER}; L2 cost on all of {{0,1,2}}^n for n <= {n_full}" + ("" if tier == "quick" else " and on 0 x {0,1,2}^7")
            + f"; {n_rand} random series (integers in -3..3 or 3 * normal rounded to 0.1), 6 <= n <= {n_max}, p <= 2, L2 / Gaussian-variance cost, "
            "min_segment_length <= 3 (1 for every fourth series only), run_pelt and PELT.fit_predict")


# ----------------------------------------------------------------------------------------------------------------------
def run(tier="quick", seed=0, repo="/repo"):
    use_repo(repo)
    rec = Recorder(target="skchange penalties and thresholds")
    errors, dstats = {}, {}
    bounds = [part_a(rec, tier), part_b(rec, tier, seed, errors), part_c(rec, tier, seed, errors), part_d(rec, tier, seed, dstats)]
    return rec.result(RULE, "; ".join(bounds), exhaustive=False, fit_errors=errors, pelt_monotonicity_by_family=dstats)


def replay(inp, repo="/repo"):
    use_repo(repo)
    rec = Recorder()
    part = inp.get("part")
    if part == "A":
        check_penalty_point(rec, inp["function"], int(inp["n"]), int(inp["p"]), int(inp["k"]), float(inp["scale"]))
    elif part == "B":
        st = check_fitted(rec, inp["detector"], int(inp["n"]), int(inp["p"]), float(inp["scale"]), inp["hp"], int(inp["seed"]))
        if st[0] == "error":
            return {"violated": False, "detail": "fit raised: " + st[1]}
    elif part == "C":
        st = check_tuned(rec, inp["detector"], int(inp["n"]), int(inp["p"]), inp["hp"], float(inp["level"]), int(inp["seed"]), inp["data"])
        if st[0] == "error":
            return {"violated": False, "detail": "fit raised: " + st[1]}
    elif part == "D":
        X = np.array(inp["X"], dtype=float)
        X = X.reshape(-1, 1) if X.ndim == 1 else X
        b1, b2 = (float(b) for b in inp["penalties"])
        k1 = count_changepoints(inp["cost"], X, int(inp["m"]), b1, inp["via"])
        k2 = count_changepoints(inp["cost"], X, int(inp["m"]), b2, inp["via"])
        bad = b2 - b1 > 1e-6 and k2 > k1
        return {"violated": bool(bad), "detail": f"penalty {b1:g}: {k1} changepoint(s); penalty {b2:g}: {k2}"}
    else:
        return {"violated": False, "detail": "unknown input"}
    return {"violated": bool(rec.violations), "detail": rec.violations[0]["what"] if rec.violations else "holds"}
