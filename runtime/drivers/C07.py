"""C07 bounded stand-in: seeded binary segmentation reports exactly the greedy above-threshold splits.

Checks (all written from the statement, modular so that one defect shows under one key):
  intervals  make_seeded_intervals(n, 2m, M, g): every candidate lies in [0,n], has length in [2m, min(M,n)], and at least
             one candidate exists when n >= 2m.                                   (exhaustive over the stated box)
  greedy     greedy_changepoint_selection on explicit interval systems (all 1..3-subsets of the sub-intervals of [0,4],
             all maximisers, all score orders, thresholds = the scores, 0 and midpoints; plus seeded random larger
             systems incl. ties) against an independent reference greedy; supported / exhaustive / monotone consequences.
  run        run_seeded_binseg with user-defined table change scores (which also log the cuts they are asked) and the
             built-in scores: per-interval score = max and maximiser = argmax over admissible splits of the column-summed
             change score; changepoints = reference greedy on the reported table, for thresholds taken from the scores
             (all pairs for monotonicity).
  detector   SeededBinarySegmentation(...).fit(X).predict(X) + `scores` + `threshold_` (fixed scale and tuned), same checks.
"""
from __future__ import annotations

import itertools
import time

import math

import numpy as np

from runtime import oracles_C07_C09 as O
from runtime.common import close, use_repo, rot_frame, alternate_route

RULE = ("intervals: all (n, min_segment_length, max_interval_length, growth_factor) of the box, non-trivial when >= 2 "
        "candidates are returned or min(M,n) == 2m (boundary); greedy kernel: explicit interval systems x maximisers x "
        "score orders x thresholds, non-trivial when a changepoint is selected and a candidate other than the chosen one "
        "is discarded or survives below threshold; run/detector: (scorer, data, m, M, g, threshold), non-trivial when at "
        "least one changepoint is reported or expected; distinct = the full configuration tuple")

TARGET = "skchange/change_detectors/seeded_binseg.py"


def _ints(a):
    return [int(v) for v in np.asarray(a).tolist()]


# ------------------------------------------------------------------------------------------------------------------
# checks
# ------------------------------------------------------------------------------------------------------------------
def check_interval_posts(rec, starts, ends, n, m, M, inp, where):
    """Statement, sentence 1.  Returns True when the candidates are well-formed and non-empty."""
    ok = True
    starts, ends = np.asarray(starts), np.asarray(ends)
    if starts.size == 0 and n >= 2 * m:
        rec.violation("make_seeded_intervals:empty",
                      f"{where}: no candidate interval for n={n}, min_segment_length={m}, max_interval_length={M} although n >= 2*min_segment_length",
                      "C07.intervals.nonempty" if where == "make_seeded_intervals" else f"C07.intervals.nonempty@{where}", inp)
        return False
    if starts.shape != ends.shape:
        rec.violation("make_seeded_intervals:shape", f"{where}: starts/ends differ in shape", "C07.intervals.range", inp)
        return False
    hi = min(M, n)
    for s, e in zip(starts.tolist(), ends.tolist()):
        if s != int(s) or e != int(e) or not (0 <= s < e <= n):
            rec.violation("make_seeded_intervals:range", f"{where}: candidate [{s},{e}) is not inside [0,{n}]", "C07.intervals.range", inp)
            ok = False
        elif not (2 * m <= e - s <= hi):
            rec.violation("make_seeded_intervals:length",
                          f"{where}: candidate [{s},{e}) has length {e - s} outside [{2 * m},{hi}] (n={n}, m={m}, M={M})",
                          "C07.intervals.length", inp)
            ok = False
    return ok


def check_intervals(rec, inp):
    from skchange.change_detectors.seeded_binseg import make_seeded_intervals
    n, m, M, g = inp["n"], inp["m"], inp["M"], inp["g"]
    out, err = O.attempt(lambda: make_seeded_intervals(n, 2 * m, M, g))
    if err is not None:
        rec.violation(f"make_seeded_intervals:raises:{type(err).__name__}", f"make_seeded_intervals({n},{2 * m},{M},{g}) raised {err!r}",
                      "C07.intervals.nonempty", inp)
        return True
    starts, ends = out
    check_interval_posts(rec, starts, ends, n, m, M, inp, "make_seeded_intervals")
    return len(starts) >= 2 or min(M, n) == 2 * m


def check_selection(rec, cpts, scores, maxi, starts, ends, th, inp, where):
    """Statement, sentences 2-3 for one threshold, on the reported per-interval table.  Returns the reference result."""
    scores = [float(v) for v in scores]
    maxi, starts, ends = _ints(maxi), _ints(starts), _ints(ends)
    cpts = _ints(cpts)
    ref, amb = O.ref_greedy(scores, maxi, O.contains_point(starts, ends), th)
    tag = f"{where}: threshold={th!r}"
    if not amb and sorted(ref) != cpts:
        rec.violation("greedy_changepoint_selection:exact", f"{tag}: reported changepoints {cpts}, greedy selection of the statement gives {sorted(ref)}",
                      "C07.greedy.exact", inp)
    above = [i for i in range(len(scores)) if scores[i] > th]
    for c in cpts:
        if not any(maxi[i] == c for i in above):
            rec.violation("greedy_changepoint_selection:supported", f"{tag}: changepoint {c} is not the maximiser of any interval scoring above the threshold",
                          "C07.greedy.supported", inp)
            break
    for i in above:
        if not any(starts[i] <= c < ends[i] for c in cpts):
            rec.violation("greedy_changepoint_selection:exhaustive",
                          f"{tag}: interval [{starts[i]},{ends[i]}) scores {scores[i]} > threshold but contains no reported changepoint (reported {cpts})",
                          "C07.greedy.exhaustive", inp)
            break
    if cpts != sorted(set(cpts)):
        rec.violation("greedy_changepoint_selection:exact", f"{tag}: reported changepoints {cpts} are not strictly increasing", "C07.greedy.exact", inp)
    return ref, amb


def check_monotone(rec, results, inp, where):
    """results: list of (threshold, changepoints) - raising the threshold can only remove changepoints (all pairs)."""
    differ = 0
    for (t1, c1), (t2, c2) in itertools.combinations(sorted(results, key=lambda r: r[0]), 2):
        if t1 <= t2 and not set(c2) <= set(c1):
            rec.violation("greedy_changepoint_selection:monotone",
                          f"{where}: threshold {t1!r} gives {sorted(c1)} but the larger threshold {t2!r} gives {sorted(c2)}", "C07.greedy.monotone", inp)
            break
        differ += set(c1) != set(c2)
    return differ


def check_greedy_kernel(rec, inp):
    from skchange.change_detectors.seeded_binseg import greedy_changepoint_selection
    scores = np.array(inp["scores"], dtype=float)
    maxi = np.array(inp["maximizers"], dtype=np.int64)
    starts = np.array(inp["starts"], dtype=np.int64)
    ends = np.array(inp["ends"], dtype=np.int64)
    results, nontrivial = [], []
    for th in inp["thresholds"]:
        before = scores.copy()
        out, err = O.attempt(lambda: greedy_changepoint_selection(scores, maxi, starts, ends, float(th)))
        if err is not None:
            rec.violation(f"greedy_changepoint_selection:raises:{type(err).__name__}", f"greedy_changepoint_selection raised {err!r} at threshold {th}",
                          "C07.greedy.exact", inp)
            nontrivial.append(False)
            continue
        if not np.array_equal(before, scores):
            rec.violation("greedy_changepoint_selection:frame", "greedy_changepoint_selection modified the caller's scores array", "C07.greedy.exact", inp)
            scores = before
        ref, amb = check_selection(rec, out, scores, maxi, starts, ends, float(th), inp, "greedy_changepoint_selection")
        results.append((float(th), _ints(out)))
        nontrivial.append(len(ref) >= 1 and len(scores) >= 2 and not amb)
    check_monotone(rec, results, inp, "greedy_changepoint_selection")
    return nontrivial


def check_table(rec, agg, amoc, maxi, starts, ends, m, name, inp, where):
    """Statement, sentence 1b: reported score = max and maximiser = argmax over admissible splits (tie-robust).
    References: the direct definition, then (built-in scorers) a fresh scorer instance; flagged when both disagree."""
    for i, (s, e) in enumerate(zip(_ints(starts), _ints(ends))):
        verdict = None
        for f in (agg, getattr(agg, "alt", None)):
            if f is None:
                continue
            vals = {k: f(s, k, e) for k in range(s + m, e - m + 1)}
            if not vals or any(v is None for v in vals.values()):
                verdict = None
                break
            best = max(vals.values())
            k = int(maxi[i])
            if not close(float(amoc[i]), best):
                verdict = (f"run_seeded_binseg:score:{name}",
                           f"{where}: interval [{s},{e}) reports score {float(amoc[i])!r}, the maximum of the column-summed change score over splits "
                           f"{s + m}..{e - m} is {best!r}", "C07.table.score")
            elif k not in vals or not close(vals[k], best):
                verdict = (f"run_seeded_binseg:maximiser:{name}",
                           f"{where}: interval [{s},{e}) reports maximiser {k}, but the maximum {best!r} is attained at {[j for j, v in vals.items() if close(v, best)]}",
                           "C07.table.argmax")
            else:
                verdict = None
                break
        if verdict is not None:
            rec.violation(verdict[0], verdict[1], verdict[2], inp)
            return False
    return True


def _thresholds_from(scores, how="all"):
    vals = sorted({float(v) for v in scores if np.isfinite(v) and v >= 0} | {0.0})
    mids = [(a + b) / 2 for a, b in zip(vals[:-1], vals[1:])]
    out = sorted(set(vals + mids + [vals[-1] + 1.0]))
    if how != "all" and len(out) > how:
        sel = np.linspace(0, len(out) - 1, how).round().astype(int)
        out = [out[i] for i in sorted(set(sel.tolist()))]
    return out


def check_run(rec, inp):
    """run_seeded_binseg on (scorer, X, m, M, g) for the thresholds of `inp` (None: derive from the scores)."""
    from skchange.change_detectors.seeded_binseg import run_seeded_binseg
    X = np.array(inp["X"], dtype=float)
    n = X.shape[0]
    m, M, g = inp["m"], inp["M"], inp["g"]
    spec = dict(inp["scorer"], as_score=True)
    sc, agg, msize, tab = O.build_scorer(spec, X, 3)
    name = spec.get("name", "table")
    out, err = O.attempt(lambda: run_seeded_binseg(X, sc, np.inf, m, M, g))
    if err is not None and O.permitted(err):
        return [False]
    if err is not None:
        rec.violation(f"run_seeded_binseg:raises:{type(err).__name__}:{name}", f"run_seeded_binseg(n={n}, m={m}, M={M}, g={g}) raised {err!r}", "C07.table.score", inp)
        return [False]
    cpts, amoc, maxi, starts, ends = out
    if len(_ints(cpts)):
        rec.violation("greedy_changepoint_selection:exact", f"run_seeded_binseg: threshold=inf reports changepoints {_ints(cpts)}", "C07.greedy.exact", inp)
    if not check_interval_posts(rec, starts, ends, n, m, M, inp, "run_seeded_binseg"):
        return [min(M, n) == 2 * m]
    check_table(rec, agg, amoc, maxi, starts, ends, m, name, inp, "run_seeded_binseg")
    ths = inp.get("thresholds") or _thresholds_from(amoc, inp.get("n_thresholds", "all"))
    results, nontrivial = [], []
    for th in ths:
        out, err = O.attempt(lambda: run_seeded_binseg(X, sc, float(th), m, M, g))
        if err is not None:
            rec.violation(f"run_seeded_binseg:raises:{type(err).__name__}:{name}", f"run_seeded_binseg raised {err!r} at threshold {th}", "C07.greedy.exact", inp)
            continue
        c2, a2, x2, s2, e2 = out
        if not (np.array_equal(a2, amoc) and np.array_equal(x2, maxi) and np.array_equal(s2, starts) and np.array_equal(e2, ends)):
            rec.violation("run_seeded_binseg:table-depends-on-threshold", "the per-interval table changed with the threshold", "C07.table.score", inp)
        ref, amb = check_selection(rec, c2, amoc, maxi, starts, ends, float(th), inp, "run_seeded_binseg")
        results.append((float(th), _ints(c2)))
        nontrivial.append(len(ref) >= 1 or len(_ints(c2)) >= 1)
    check_monotone(rec, results, inp, "run_seeded_binseg")
    return nontrivial


def make_detector(inp, sc):
    from skchange.change_detectors import SeededBinarySegmentation
    kw = dict(change_score=sc, threshold_scale=inp["threshold_scale"], min_segment_length=inp["m"],
              max_interval_length=inp["M"], growth_factor=inp["g"])
    if inp.get("level") is not None:
        kw["level"] = inp["level"]
    return alternate_route(SeededBinarySegmentation(**kw))


def check_detector(rec, inp):
    """SeededBinarySegmentation(...).fit(Xfit).predict(X): scores table, threshold_, changepoints."""
    from skchange.change_detectors.seeded_binseg import make_seeded_intervals
    X = np.array(inp["X"], dtype=float)
    Xfit = np.array(inp["Xfit"], dtype=float) if inp.get("Xfit") is not None else X
    n = X.shape[0]
    m, M, g = inp["m"], inp["M"], inp["g"]
    sc, agg, msize, tab = O.build_scorer(inp["scorer"], X, 3, n_table=max(n, Xfit.shape[0]))
    name = inp["scorer"].get("name", "table")
    info = {"threshold": None, "cpts": None, "scores": None}

    def empty_candidates(k):
        r, e = O.attempt(lambda: make_seeded_intervals(k, 2 * m, M, g))
        return e is None and len(r[0]) == 0

    # inplace: the training frame object itself is refilled with X after fit and handed to the later calls (same object, other contents:
    # what is reported describes the contents at the time of the call)
    buf = rot_frame(Xfit, 1) if inp.get("inplace") and Xfit.shape == X.shape else None
    det, err = O.attempt(lambda: make_detector(inp, sc).fit(buf if buf is not None else rot_frame(Xfit, 1)))
    if buf is not None and err is None:
        buf.iloc[:, :] = X
    if err is not None and O.permitted(err):
        return False, info
    if err is not None:
        if empty_candidates(Xfit.shape[0]):
            rec.violation("make_seeded_intervals:empty",
                          f"SeededBinarySegmentation(min_segment_length={m}, max_interval_length={M}, threshold_scale={inp['threshold_scale']}).fit on n={Xfit.shape[0]} "
                          f"raised {err!r}: no candidate interval exists although n >= 2*min_segment_length", "C07.intervals.nonempty@fit", inp)
        else:
            rec.violation(f"SeededBinarySegmentation:fit:{type(err).__name__}:{name}", f"fit raised {err!r}", "C07.detector", inp)
        return False, info
    th = float(det.threshold_)
    info["threshold"] = th
    if inp["threshold_scale"] is not None:
        # the threshold the selection uses must be the REQUESTED one: scale x 2 p sqrt(log n) of the training shape (also for scale 0)
        want = float(inp["threshold_scale"]) * 2 * Xfit.shape[1] * math.sqrt(math.log(Xfit.shape[0]))
        if not close(th, want):
            rec.violation(f"SeededBinarySegmentation:threshold:{name}", f"threshold_scale={inp['threshold_scale']} on training shape {Xfit.shape}: fitted threshold_ "
                          f"{th} but the requested threshold is {want}", "C07.threshold", inp)
            return True, info
    if not (th >= 0):           # outside the quantifier (tuned on a user-defined score with negative values)
        return False, info
    res, err = O.attempt(lambda: det.predict(buf if buf is not None else rot_frame(X, 2)))
    if err is not None and O.permitted(err):
        return False, info
    if err is not None:
        rec.violation(f"SeededBinarySegmentation:predict:{type(err).__name__}:{name}", f"predict raised {err!r}", "C07.detector", inp)
        return False, info
    cpts = _ints(res["ilocs"].to_numpy())
    info["cpts"] = cpts
    tb = det.scores
    starts, ends = tb["start"].to_numpy(), tb["end"].to_numpy()
    info["scores"] = tb["score"].to_numpy()
    if not check_interval_posts(rec, starts, ends, n, m, M, inp, "SeededBinarySegmentation.scores"):
        if len(starts) == 0:
            # how much signal went unnoticed (statement: supported/exhaustive are vacuous, existence is what fails)
            best = max([agg(0, k, n) or 0.0 for k in range(m, n - m + 1)] or [0.0])
            if best > th >= 0:
                rec.violation("make_seeded_intervals:empty",
                              f"SeededBinarySegmentation.predict on n={n}, m={m}, M={M}: no candidates, so nothing is reported although the split of [0,{n}) "
                              f"scores {best!r} > threshold {th!r}", "C07.intervals.nonempty@predict", inp)
        return min(M, n) == 2 * m, info
    if not (th >= 0):
        return False, info
    check_table(rec, agg, tb["score"].to_numpy(), tb["argmax_cpt"].to_numpy(), starts, ends, m, name, inp, "SeededBinarySegmentation.scores")
    ref, amb = check_selection(rec, cpts, tb["score"].to_numpy(), tb["argmax_cpt"].to_numpy(), starts, ends, th, inp, "SeededBinarySegmentation.predict")
    return len(cpts) >= 1 or len(ref) >= 1, info


def check_long_series(rec, inp):
    """One LONG series with max_interval_length = n (intervals with thousands of admissible splits): every row of the scores table against a
    vectorised CUSUM over ALL admissible splits, and the reported changepoints against the greedy selection on that table.  inp: {"n", "m", "seed"}."""
    from skchange.change_detectors import SeededBinarySegmentation
    from skchange.change_scores import CUSUM
    n, m = int(inp["n"]), int(inp["m"])
    rng = np.random.default_rng(int(inp["seed"]))
    x = rng.normal(size=n)
    # mostly noise (the score of a long interval is then a rough curve with many local maxima: nothing but the complete maximisation over all
    # splits finds its maximum) and two small shifts
    x[n // 3:] += 0.15
    x[int(0.8 * n):] -= 0.2
    X = x.reshape(-1, 1)
    det, err = O.attempt(lambda: SeededBinarySegmentation(change_score=CUSUM(), min_segment_length=m, max_interval_length=n, threshold_scale=2.0).fit(X), seconds=120.0)
    if err is None:
        res, err = O.attempt(lambda: [int(c) for c in det.predict(X)["ilocs"]], seconds=120.0)
    if err is not None:
        rec.violation("SeededBinarySegmentation:long-series:raises", f"SeededBinarySegmentation(CUSUM, m={m}, M={n}) on n={n} raised {err!r}", "C07.detector", inp)
        return True
    tb, th = det.scores, float(det.threshold_)
    S = np.concatenate(([0.0], np.cumsum(x)))
    starts, ends = _ints(tb["start"].to_numpy()), _ints(tb["end"].to_numpy())
    amoc, maxi = [], []
    for s, e, rk, rs in zip(starts, ends, tb["argmax_cpt"].to_numpy(), tb["score"].to_numpy()):
        k = np.arange(s + m, e - m + 1)
        if not len(k):
            continue
        nl, nr = (k - s).astype(float), (e - k).astype(float)
        sc = np.sqrt(nl * nr / (nl + nr)) * np.abs((S[k] - S[s]) / nl - (S[e] - S[k]) / nr)
        best = float(sc.max())
        if not close(float(rs), best) or not (s + m <= int(rk) <= e - m and close(float(sc[int(rk) - s - m]), best)):
            rec.violation("run_seeded_binseg:score:long-series", f"SeededBinarySegmentation(CUSUM, m={m}, M={n}) on n={n}: interval [{s},{e}) reports score {float(rs)!r} at "
                          f"split {int(rk)}; the maximum of the change score over its {len(k)} admissible splits is {best!r} at {int(k[int(np.argmax(sc))])}", "C07.table.score", inp)
            return True
        amoc.append(best)
        maxi.append(int(rk))
    # greedy selection on the (verified) table
    alive = np.ones(len(amoc), dtype=bool)
    a, mx, st, en = np.array(amoc), np.array(maxi), np.array(starts[:len(amoc)]), np.array(ends[:len(amoc)])
    ref = []
    while alive.any() and a[alive].max() > th:
        i = int(np.flatnonzero(alive)[np.argmax(a[alive])])
        ref.append(int(mx[i]))
        alive &= ~((st <= mx[i]) & (mx[i] <= en - 1))
    if sorted(ref) != sorted(res):
        rec.violation("SeededBinarySegmentation:long-series:changepoints", f"SeededBinarySegmentation(CUSUM, m={m}, M={n}) on n={n}: reported {sorted(res)}, the greedy "
                      f"selection on the scores table gives {sorted(ref)}", "C07.detector", inp)
    return True


CHECKS = {"long": lambda rec, inp: check_long_series(rec, inp), "intervals": check_intervals, "greedy": check_greedy_kernel, "run": check_run, "detector": check_detector}


# ------------------------------------------------------------------------------------------------------------------
# enumeration
# ------------------------------------------------------------------------------------------------------------------
def hyper(n, ms, gs, extra_M=(200,)):
    for m in ms:
        if n < 2 * m:
            continue
        for M in list(range(2 * m, n + 3)) + [v for v in extra_M if v > n + 2]:
            for g in gs:
                yield m, M, g


def run(tier="quick", seed=0, repo="/repo"):
    use_repo(repo)
    rec = O.Rec(target=TARGET)
    O.reset_hangs()
    bound = {}
    try:
        _enumerate(rec, tier, seed, bound)
        for sd in (seed, seed + 1, seed + 2):
            inp = {"check": "long", "n": 3200, "m": 5, "seed": sd}
            rec.case(("long", 3200, 5, sd), check_long_series(rec, inp), None)
        bound["text"] = bound.get("text", "") + "; three noise-dominated series of n = 3200 with max_interval_length = n (CUSUM): every table row against the vectorised maximum over all splits"
    except O.Abort:
        bound["text"] = bound.get("text", "") + " [enumeration stopped early: calls into the real code did not terminate]"
    kinds = {}
    for f in rec.nontrivial:
        k = f[0] if isinstance(f, tuple) else "other"
        kinds[k] = kinds.get(k, 0) + 1
    return rec.result(RULE, bound.get("text", "stopped before the bound was fixed"), exhaustive=False, section_seconds=bound.get("timing", {}),
                      nontrivial_by_kind=kinds)


def _enumerate(rec, tier, seed, bound_out):
    from skchange.change_detectors.seeded_binseg import make_seeded_intervals
    rng = np.random.default_rng(seed)
    quick = tier == "quick"
    t0 = [time.time(), None]
    timing = bound_out.setdefault("timing", {})

    def tick(label):
        now = time.time()
        if t0[1] is not None:
            timing[t0[1]] = round(timing.get(t0[1], 0.0) + now - t0[0], 1)
        t0[0], t0[1] = now, label
    gs = [1.1, 1.5, 2.0] if quick else [1.01, 1.1, 1.25, 1.5, 1.75, 2.0]
    ms = [1, 2, 3] if quick else [1, 2, 3, 4, 5]
    n_int = 16 if quick else 48
    n0 = 4 if quick else 5
    n_sys = 150 if quick else 1500
    n_run = range(2, 9) if quick else range(2, 13)
    ns_b = [4, 6, 8] if quick else [4, 5, 6, 7, 8, 9, 10, 12]
    ns_d = [2, 3, 4, 5, 6, 7, 8, 10] if quick else list(range(2, 11)) + [12]
    bound_out["text"] = (f"intervals: n<={n_int}, m in {ms}, M in 2m..n+2 and 200, g in {gs}; greedy kernel: all <=3-subsets of sub-intervals of [0,{n0}] + "
                         f"{n_sys} random systems (n<=12/24); run: table scores n<={max(n_run)}, built-in n in {ns_b}, p<=2; detector: n in {ns_d}")

    tick("1")
    # (1) candidate intervals, exhaustive over the box
    for n in range(2, n_int + 1):
        for m, M, g in hyper(n, ms, gs):
            inp = {"check": "intervals", "n": n, "m": m, "M": M, "g": g}
            nt = check_intervals(rec, inp)
            rec.case(("int", n, m, M, g), nt, inp if (n, m, g) == (9, 2, 1.5) else None)

    tick("2")
    # (2) greedy kernel, exhaustive on explicit interval systems over [0,4] (all sub-intervals of length >= 2)
    subs = [(s, e) for s in range(n0 + 1) for e in range(s + 2, n0 + 1)]
    for K in (1, 2, 3):
        for combo in itertools.combinations(subs, K):
            starts = [c[0] for c in combo]
            ends = [c[1] for c in combo]
            for maxi in itertools.product(*[range(s + 1, e) for s, e in combo]):
                for perm in itertools.permutations(range(1, K + 1)):
                    ths = sorted({0.0} | {float(v) for v in perm} | {v - 0.5 for v in perm})
                    inp = {"check": "greedy", "scores": [float(v) for v in perm], "maximizers": list(maxi), "starts": starts, "ends": ends,
                           "thresholds": ths}
                    for th, nt in zip(ths, check_greedy_kernel(rec, inp)):
                        rec.case(("gk", combo, maxi, perm, th), nt, None)
    # seeded random larger systems: real seeded intervals + arbitrary intervals, distinct scores / ties / zeros
    for it in range(n_sys):
        n = int(rng.integers(4, 13 if quick else 25))
        if it % 2 == 0:
            m = int(rng.integers(1, max(2, min(3, n // 2) + 1)))
            M = int(rng.integers(2 * m + 1, n + 3))
            starts, ends = make_seeded_intervals(n, 2 * m, M, float(rng.choice(gs)))
            starts, ends = _ints(starts), _ints(ends)
            if not starts or any(e - s < 2 * m for s, e in zip(starts, ends)):      # reported by (1)
                continue
        else:
            m = 1
            K = int(rng.integers(2, 9))
            starts = [int(rng.integers(0, n - 1)) for _ in range(K)]
            ends = [int(rng.integers(s + 2, n + 1)) for s in starts]
        K = len(starts)
        maxi = [int(rng.integers(s + m, e - m + 1)) for s, e in zip(starts, ends)]
        style = it % 3
        if style == 0:
            scores = (rng.permutation(K) + 1.0).tolist()
        elif style == 1:
            scores = rng.integers(0, 4, size=K).astype(float).tolist()
        else:
            scores = np.round(rng.gamma(1.0, 2.0, size=K), 3).tolist()
        ths = _thresholds_from(scores)
        inp = {"check": "greedy", "scores": scores, "maximizers": maxi, "starts": starts, "ends": ends, "thresholds": ths}
        for th, nt in zip(ths, check_greedy_kernel(rec, inp)):
            rec.case(("gr", it, th), nt, {"starts": starts, "ends": ends, "maximizers": maxi, "scores": scores, "threshold": th} if it == 0 else None)

    tick("3")
    # (3) run_seeded_binseg: user-defined table scores (all hyper-parameters) and built-in scores
    for n in n_run:
        X0 = np.zeros((n, 1))
        for m, M, g in hyper(n, ms, gs, extra_M=()):
            for j, style in enumerate(O.STYLES if not quick else ("perm", "signed", "ties")):
                q = 1 + (j + n + M) % 2
                inp = {"check": "run", "scorer": {"kind": "table", "seed": seed + n + 7 * M, "q": q, "style": style}, "X": X0, "m": m, "M": M, "g": g,
                       "n_thresholds": "all" if n <= 8 else 8}
                nts = check_run(rec, inp)
                for i, nt in enumerate(nts):
                    rec.case(("run", "table", style, q, n, m, M, g, i), nt, dict(inp, threshold_index=i) if (n, m, M, j) == (8, 1, 8, 0) and i == 1 else None)
    kinds = ("jump", "two", "none", "bump")
    for n in ns_b:
        for p in (1, 2):
            for name, (_, msize, _) in O.builtin_change_scores(p).items():
                if name.startswith("ChangeScore") and quick:
                    continue
                for m in ms:
                    if m < msize or n < 2 * m:
                        continue
                    for M in sorted({2 * m, n - 1, n, 200}):
                        if M < 2 * m:
                            continue
                        for g in (([1.5, 2.0] if M % 2 == 0 else [1.5]) if quick else [1.1, 1.5, 2.0]):
                            kind = kinds[(n + m + M + p) % 4]
                            X = O.gen_data(rng, n, p, kind)
                            inp = {"check": "run", "scorer": {"kind": "builtin", "name": name}, "X": X, "m": m, "M": M, "g": g,
                                   "n_thresholds": 6 if quick else "all"}
                            for i, nt in enumerate(check_run(rec, inp)):
                                rec.case(("run", name, n, p, m, M, g, kind, i), nt, None)

    tick("4")
    # (4) detector class: fixed scales chosen from the scores, and tuned thresholds
    for n in ns_d:
        for p in ((1,) if quick and n not in (4, 8) else (1, 2)):
            specs = [{"kind": "table", "seed": seed + n, "q": p, "style": "perm"}, {"kind": "table", "seed": seed + n + 1, "q": 1, "style": "signed"}]
            specs += [{"kind": "builtin", "name": nm} for nm in O.builtin_change_scores(p) if not (quick and nm.startswith("ChangeScore"))]
            for spec in specs:
                msize = 1 if spec["kind"] == "table" else O.builtin_change_scores(p)[spec["name"]][1]
                for m in ms:
                    if m < msize or n < 2 * m:
                        continue
                    for M in sorted({2 * m, n, n + 1, 200} if quick else {2 * m, 2 * m + 1, n - 1, n, n + 1, 200}):
                        if M < 2 * m:
                            continue
                        for g in (([1.5, 2.0] if M % 2 == 0 else [1.5]) if quick else [1.1, 1.5, 2.0] if n <= 8 else [1.5, 2.0]):
                            kind = kinds[(n + m + M) % 4]
                            X = O.gen_data(rng, n, p, kind)
                            if n == 2 * m and spec.get("name") in ("CUSUM", "L2Cost"):     # the replay of DESIGN 10-C07: a 100 sigma jump in the only admissible place
                                X = np.zeros((n, p))
                                X[m:] = 100.0
                            base = {"check": "detector", "scorer": spec, "X": X, "m": m, "M": M, "g": g}
                            # probe run with scale 1 to learn the score range, then aim between the reported scores
                            probe = dict(base, threshold_scale=1.0)
                            nt, info = check_detector(rec, probe)
                            rec.case(("det", str(spec), n, p, m, M, g, 1.0), nt, probe if n == 8 and nt and spec["kind"] == "builtin" else None)
                            scales = []
                            if info["threshold"] and info["scores"] is not None and len(info["scores"]):
                                ths = [t for t in _thresholds_from(info["scores"], 4) if t > 0]
                                scales = [0.0] + [t / info["threshold"] for t in ths][: (2 if quick else 4)]      # 0: every positive score is above the threshold
                            results = [(info["threshold"], info["cpts"])] if info["cpts"] is not None and info["threshold"] is not None else []
                            for ts in scales:
                                d = dict(base, threshold_scale=float(ts))
                                nt, inf2 = check_detector(rec, d)
                                rec.case(("det", str(spec), n, p, m, M, g, float(ts)), nt, None)
                                if inf2["cpts"] is not None:
                                    results.append((inf2["threshold"], inf2["cpts"]))
                            check_monotone(rec, [r for r in results if r[0] is not None and r[0] >= 0], dict(base, threshold_scale=None, scales=scales),
                                           "SeededBinarySegmentation.predict")
                            if len(scales) >= 2 and (n + m) % 2 == 0:
                                # numeric scale, fitted on a four times longer series: the selection uses the FITTED threshold (aimed between
                                # two scores of X), not one recomputed from the series handed to predict
                                nf = 4 * n
                                extra = dict(base, threshold_scale=float(ths[0] / (2 * p * math.sqrt(math.log(nf)))), Xfit=O.gen_data(rng, nf, p, "none"))
                                nt3, _ = check_detector(rec, extra)
                                rec.case(("det", str(spec), n, p, m, M, g, "fit-on-longer"), nt3, None)
                            for level in ((0.5,) if quick else (0.5, None)):
                                d = dict(base, threshold_scale=None, level=level)
                                if (n + m + M) % 3 == 0 and n > 2 * m:      # predict on other data than the training data
                                    d["Xfit"] = O.gen_data(rng, n + 1, p, "none")
                                elif (n + m + M) % 3 == 1:                  # ... or on the training frame object refilled in place
                                    d["Xfit"], d["inplace"] = O.gen_data(rng, n, p, "none"), True
                                nt, _ = check_detector(rec, d)
                                rec.case(("det", str(spec), n, p, m, M, g, "tuned", level), nt, None)
    tick("end")


def replay(inp, repo="/repo"):
    use_repo(repo)
    rec = O.Rec(target=TARGET)
    if inp.get("check") == "detector" and inp.get("threshold_scale") is None and "scales" in inp:      # monotonicity over detector runs
        results = []
        for ts in [1.0] + list(inp["scales"]):
            _, info = check_detector(rec, dict(inp, threshold_scale=float(ts)))
            if info["cpts"] is not None:
                results.append((info["threshold"], info["cpts"]))
        check_monotone(rec, results, inp, "SeededBinarySegmentation.predict")
    else:
        CHECKS[inp["check"]](rec, inp)
    return O.replay_result(rec, inp)
