"""C09 bounded stand-in: circular binary segmentation reports greedy disjoint above-threshold anomalies.

Checks (from the statement; modular so that one defect shows under one key):
  inner     make_anomaly_intervals(start, end, m) returns exactly the inner intervals [a,b) with start < a, b < end, b-a >= m and
            (a-start)+(end-b) >= m.                                               (exhaustive over the box)
  greedy    greedy_anomaly_selection on explicit candidate systems (all 1..3-subsets of the sub-intervals of [0,5] of length >= 3,
            all inner intervals, all score orders, thresholds = scores, 0, midpoints; plus seeded random systems incl. ties)
            against an independent reference greedy; disjointness / supported / exhaustive / monotone consequences.
  run       run_circular_binseg with user-defined table local anomaly scores and built-in ones: per candidate, score = max and
            reported inner interval (the `maximizers` columns) = argmax over the admissible inner intervals of the column-summed
            local anomaly score; anomalies = reference greedy on the reported table; threshold pairs for monotonicity.
            A candidate without any admissible inner interval (min_segment_length = 1, length 2) can report nothing and must not
            make the run fail.
  detector  CircularBinarySegmentation(...).fit(X).predict(X), `scores` table, `threshold_` (fixed scale and tuned).
"""
from __future__ import annotations

import itertools
import time

import math

import numpy as np

from runtime import oracles_C07_C09 as O
from runtime.common import close, use_repo, rot_frame, alternate_route

RULE = ("inner: all (start, end, min_segment_length) of the box, non-trivial when an admissible inner interval exists; greedy kernel: explicit "
        "candidate systems x inner intervals x score orders x thresholds, non-trivial when an anomaly is selected among >= 2 candidates; "
        "run/detector: (scorer, data, m, M, g, threshold), non-trivial when at least one anomaly is reported or expected, or the run "
        "meets a candidate without inner interval; distinct = configuration tuple")

TARGET = "skchange/anomaly_detectors/circular_binseg.py"
KEY_NOINNER = "run_circular_binseg:candidate-without-inner-interval"
KEY_COLUMNS = "run_circular_binseg:argmax-columns"


def _ints(a):
    return [int(v) for v in np.asarray(a).tolist()]


def _pairs(a):
    return [(int(x), int(y)) for x, y in a]


def check_inner(rec, inp):
    from skchange.anomaly_detectors.circular_binseg import make_anomaly_intervals
    s, e, m = inp["start"], inp["end"], inp["m"]
    out, err = O.attempt(lambda: make_anomaly_intervals(s, e, m))
    exp = O.inner_intervals(s, e, m)
    if err is not None:
        rec.violation(f"make_anomaly_intervals:raises:{type(err).__name__}", f"make_anomaly_intervals({s},{e},{m}) raised {err!r}", "C09.inner", inp)
        return bool(exp)
    got = list(zip(_ints(out[0]), _ints(out[1])))
    if sorted(set(got)) != sorted(exp):
        miss = sorted(set(exp) - set(got))
        extra = sorted(set(got) - set(exp))
        rec.violation("make_anomaly_intervals:set", f"make_anomaly_intervals({s},{e},{m}): missing admissible inner intervals {miss[:5]}, inadmissible ones returned {extra[:5]}",
                      "C09.inner", inp)
    return bool(exp)


def check_selection(rec, anomalies, scores, inner, starts, ends, th, inp, where):
    """Statement, sentence 2 for one threshold on the reported per-candidate table (scores[i] None: candidate without score)."""
    anomalies = _pairs(anomalies)
    ref, amb = O.ref_greedy(scores, inner, O.overlaps(starts, ends), th)
    tag = f"{where}: threshold={th!r}"
    if not amb and sorted(ref) != anomalies:
        rec.violation("greedy_anomaly_selection:exact", f"{tag}: reported anomalies {anomalies}, greedy selection of the statement gives {sorted(ref)}",
                      "C09.greedy.exact", inp)
    above = [i for i in range(len(scores)) if scores[i] is not None and scores[i] > th]
    for a in anomalies:
        if not any(inner[i] == a for i in above):
            rec.violation("greedy_anomaly_selection:supported", f"{tag}: anomaly {a} is not the inner interval of any candidate scoring above the threshold",
                          "C09.greedy.supported", inp)
            break
    for i in above:
        if not any(a[0] < ends[i] and a[1] > starts[i] for a in anomalies):
            rec.violation("greedy_anomaly_selection:exhaustive",
                          f"{tag}: candidate [{starts[i]},{ends[i]}) scores {scores[i]} > threshold but overlaps no reported anomaly {anomalies}", "C09.greedy.exhaustive", inp)
            break
    srt = sorted(anomalies)
    if srt != anomalies or any(x[1] > y[0] for x, y in zip(srt[:-1], srt[1:])):
        rec.violation("greedy_anomaly_selection:disjoint", f"{tag}: reported anomalies {anomalies} are not sorted and pairwise disjoint", "C09.greedy.exact", inp)
    return ref, amb


def check_monotone(rec, results, inp, where):
    for (t1, c1), (t2, c2) in itertools.combinations(sorted(results, key=lambda r: r[0]), 2):
        if t1 <= t2 and not set(c2) <= set(c1):
            rec.violation("greedy_anomaly_selection:monotone", f"{where}: threshold {t1!r} gives {sorted(c1)} but the larger threshold {t2!r} gives {sorted(c2)}",
                          "C09.greedy.monotone", inp)
            return


def check_greedy_kernel(rec, inp):
    from skchange.anomaly_detectors.circular_binseg import greedy_anomaly_selection
    scores = np.array(inp["scores"], dtype=float)
    a0 = np.array([v[0] for v in inp["inner"]], dtype=np.int64)
    a1 = np.array([v[1] for v in inp["inner"]], dtype=np.int64)
    starts = np.array(inp["starts"], dtype=np.int64)
    ends = np.array(inp["ends"], dtype=np.int64)
    inner = _pairs(inp["inner"])
    results, nontrivial = [], []
    for th in inp["thresholds"]:
        before = scores.copy()
        out, err = O.attempt(lambda: greedy_anomaly_selection(scores, a0, a1, starts, ends, float(th)))
        if err is not None:
            rec.violation(f"greedy_anomaly_selection:raises:{type(err).__name__}", f"greedy_anomaly_selection raised {err!r} at threshold {th}", "C09.greedy.exact", inp)
            nontrivial.append(False)
            continue
        if not np.array_equal(before, scores):
            rec.violation("greedy_anomaly_selection:frame", "greedy_anomaly_selection modified the caller's scores array", "C09.greedy.exact", inp)
            scores = before
        ref, amb = check_selection(rec, out, [float(v) for v in scores], inner, _ints(starts), _ints(ends), float(th), inp, "greedy_anomaly_selection")
        results.append((float(th), _pairs(out)))
        nontrivial.append(len(ref) >= 1 and len(scores) >= 2 and not amb)
    check_monotone(rec, results, inp, "greedy_anomaly_selection")
    return nontrivial


def oracle_table(agg, starts, ends, m):
    """Per candidate: dict inner interval -> column-summed score (empty dict: no admissible inner interval; None: the
    score is undefined (documented RuntimeError of the cost))."""
    out = []
    for s, e in zip(starts, ends):
        vals = {ab: agg(s, ab[0], ab[1], e) for ab in O.inner_intervals(s, e, m)}
        out.append(None if any(v is None for v in vals.values()) else vals)
    return out


def check_table(rec, agg, otab, scores, maxi, starts, ends, m, name, inp, where):
    """Statement, sentence 1 (tie-robust).  Returns the per-candidate (score, inner interval) to hand to the greedy reference:
    the reported ones where they satisfy the statement, the oracle's where the reported inner interval is wrong and the
    argmax is unique; None entries for candidates without admissible inner interval.
    References: the direct definition, then (built-in scorers) a fresh scorer instance; flagged when both disagree."""
    sel_scores, sel_inner, usable = [], [], True
    alt = getattr(agg, "alt", None)
    for i, (s, e) in enumerate(zip(starts, ends)):
        vals = otab[i]
        if vals is None:
            usable = False
            sel_scores.append(None)
            sel_inner.append(None)
            continue
        if not vals:                      # nothing to report for this candidate; it must simply never be selected
            sel_scores.append(None)
            sel_inner.append(None)
            continue
        rep = (int(maxi[i][0]), int(maxi[i][1])) if float(maxi[i][0]).is_integer() and float(maxi[i][1]).is_integer() else None
        for second in (False, True):
            best = max(vals.values())
            arg = [ab for ab, v in vals.items() if close(v, best)]
            score_ok = close(float(scores[i]), best)
            rep_ok = rep in vals and close(vals[rep], best)
            if (score_ok and rep_ok) or second or alt is None:
                break
            vals2 = {ab: alt(s, ab[0], ab[1], e) for ab in vals}
            if any(v is None for v in vals2.values()):
                break
            vals = vals2
        if not score_ok:
            rec.violation(f"run_circular_binseg:score:{name}",
                          f"{where}: candidate [{s},{e}) reports score {float(scores[i])!r}, the maximum of the column-summed local anomaly score over its "
                          f"{len(vals)} admissible inner intervals is {best!r}", "C09.table.score", inp)
        if rep_ok:
            sel_inner.append(rep)
        else:
            rec.violation(KEY_COLUMNS, f"{where}: candidate [{s},{e}) reports the inner interval ({maxi[i][0]}, {maxi[i][1]}) in the argmax columns, "
                          f"the maximum {best!r} is attained at {arg}", f"C09.table.argmax@{where}", inp)
            sel_inner.append(arg[0])
            if len(arg) > 1 or len([v for v in vals.values() if O.near(v, best)]) > 1:
                usable = False
        sel_scores.append(float(scores[i]))
    return sel_scores, sel_inner, usable


def _thresholds_from(scores, how="all"):
    vals = sorted({float(v) for v in scores if v is not None and np.isfinite(v) and v >= 0} | {0.0})
    mids = [(a + b) / 2 for a, b in zip(vals[:-1], vals[1:])]
    out = sorted(set(vals + mids + [vals[-1] + 1.0]))
    if how != "all" and len(out) > how:
        sel = np.linspace(0, len(out) - 1, how).round().astype(int)
        out = [out[i] for i in sorted(set(sel.tolist()))]
    return out


def candidates_of(n, m, M, g):
    from skchange.change_detectors.seeded_binseg import make_seeded_intervals
    out, err = O.attempt(lambda: make_seeded_intervals(n, 2 * m, M, g))
    if err is not None:
        return None
    return _ints(out[0]), _ints(out[1])


def failure(rec, err, n, m, M, g, name, inp, where, clause):
    """Classify an exception of a run: candidate without inner interval (statement: nothing to report for it), no candidate at
    all (C09 demands nothing), documented RuntimeError of a cost, anything else."""
    if isinstance(err, RuntimeError) and "positive definite" in str(err):
        return False
    cand = candidates_of(n, m, M, g)
    if cand is not None and len(cand[0]) == 0:
        return False
    if cand is not None and any(not O.inner_intervals(s, e, m) for s, e in zip(*cand)):
        s, e = [(s, e) for s, e in zip(*cand) if not O.inner_intervals(s, e, m)][0]
        rec.violation(KEY_NOINNER, f"{where} on n={n}, min_segment_length={m}, max_interval_length={M} raised {err!r}: the candidate [{s},{e}) has no inner interval "
                      f"of length >= {m} strictly inside it, so nothing is reported at all", clause, inp)
        return True
    rec.violation(f"{where}:raises:{type(err).__name__}:{name}", f"{where} on n={n}, m={m}, M={M}, g={g} raised {err!r}", clause, inp)
    return True


def check_run(rec, inp):
    from skchange.anomaly_detectors.circular_binseg import run_circular_binseg
    X = np.array(inp["X"], dtype=float)
    n = X.shape[0]
    m, M, g = inp["m"], inp["M"], inp["g"]
    spec = dict(inp["scorer"], as_score=True)
    sc, agg, msize, tab = O.build_scorer(spec, X, 4)
    name = spec.get("name", "table")
    out, err = O.attempt(lambda: run_circular_binseg(X, sc, np.inf, m, M, g))
    if err is not None:
        return [failure(rec, err, n, m, M, g, name, inp, "run_circular_binseg", "C09.table.score")]
    anomalies, scores, maxi, starts, ends = out
    starts, ends = _ints(starts), _ints(ends)
    if len(anomalies):
        rec.violation("greedy_anomaly_selection:exact", f"run_circular_binseg: threshold=inf reports anomalies {_pairs(anomalies)}", "C09.greedy.exact", inp)
    if not starts:
        return [False]
    otab = oracle_table(agg, starts, ends, m)
    sel_scores, sel_inner, usable = check_table(rec, agg, otab, scores, maxi, starts, ends, m, name, inp, "run_circular_binseg")
    has_empty = any(v is not None and not v for v in otab)
    ths = inp.get("thresholds") or _thresholds_from(sel_scores, inp.get("n_thresholds", "all"))
    results, nontrivial = [], []
    for th in ths:
        out, err = O.attempt(lambda: run_circular_binseg(X, sc, float(th), m, M, g))
        if err is not None:
            failure(rec, err, n, m, M, g, name, inp, "run_circular_binseg", "C09.greedy.exact")
            continue
        a2, s2, x2, st2, en2 = out
        if not (np.array_equal(s2, scores) and np.array_equal(x2, maxi) and _ints(st2) == starts and _ints(en2) == ends):
            rec.violation("run_circular_binseg:table-depends-on-threshold", "the per-candidate table changed with the threshold", "C09.table.score", inp)
        ref = []
        if usable:
            ref, _ = check_selection(rec, a2, sel_scores, sel_inner, starts, ends, float(th), inp, "run_circular_binseg")
        results.append((float(th), _pairs(a2)))
        nontrivial.append(len(ref) >= 1 or len(a2) >= 1 or has_empty)
    check_monotone(rec, results, inp, "run_circular_binseg")
    return nontrivial


def make_detector(inp, sc):
    from skchange.anomaly_detectors import CircularBinarySegmentation
    kw = dict(anomaly_score=sc, threshold_scale=inp["threshold_scale"], min_segment_length=inp["m"], max_interval_length=inp["M"],
              growth_factor=inp["g"])
    if inp.get("level") is not None:
        kw["level"] = inp["level"]
    return alternate_route(CircularBinarySegmentation(**kw))


def check_detector(rec, inp):
    X = np.array(inp["X"], dtype=float)
    Xfit = np.array(inp["Xfit"], dtype=float) if inp.get("Xfit") is not None else X
    n = X.shape[0]
    m, M, g = inp["m"], inp["M"], inp["g"]
    sc, agg, msize, tab = O.build_scorer(inp["scorer"], X, 4, n_table=max(n, Xfit.shape[0]))
    name = inp["scorer"].get("name", "table")
    info = {"threshold": None, "anomalies": None, "scores": None, "nt": False}
    det, err = O.attempt(lambda: make_detector(inp, sc).fit(rot_frame(Xfit, 1)))
    if err is not None:
        info["nt"] = failure(rec, err, Xfit.shape[0], m, M, g, name, inp, "CircularBinarySegmentation.fit", "C09.detector@fit")
        return info
    th = float(det.threshold_)
    info["threshold"] = th
    if inp["threshold_scale"] is not None:
        # the threshold the selection uses must be the REQUESTED one: scale x 2 p log(n M) of the training shape (also for scale 0)
        want = float(inp["threshold_scale"]) * 2 * Xfit.shape[1] * math.log(Xfit.shape[0] * M)
        if not close(th, want):
            rec.violation(f"CircularBinarySegmentation:threshold:{name}", f"threshold_scale={inp['threshold_scale']} on training shape {Xfit.shape}: fitted "
                          f"threshold_ {th} but the requested threshold is {want}", "C09.threshold", inp)
            info["nt"] = True
            return info
    if not (th >= 0):                 # outside the quantifier
        return info
    res, err = O.attempt(lambda: det.predict(rot_frame(X, 2)))
    if err is not None:
        info["nt"] = failure(rec, err, n, m, M, g, name, inp, "CircularBinarySegmentation.predict", "C09.detector@predict")
        return info
    il = res["ilocs"].array
    anomalies = [(int(a), int(b)) for a, b in zip(il.left, il.right)]
    if len(anomalies) and il.closed != "left":
        rec.violation("CircularBinarySegmentation:closed", f"anomaly intervals are closed={il.closed!r}, expected left-closed [start, end)", "C09.detector", inp)
    info["anomalies"] = anomalies
    tb = det.scores
    starts, ends = _ints(tb["interval_start"].to_numpy()), _ints(tb["interval_end"].to_numpy())
    if not starts:
        return info
    otab = oracle_table(agg, starts, ends, m)
    maxi = np.column_stack((tb["argmax_anomaly_start"].to_numpy(), tb["argmax_anomaly_end"].to_numpy()))
    sel_scores, sel_inner, usable = check_table(rec, agg, otab, tb["score"].to_numpy(), maxi, starts, ends, m, name, inp, "CircularBinarySegmentation.scores")
    info["scores"] = sel_scores
    ref = []
    if usable:
        ref, _ = check_selection(rec, anomalies, sel_scores, sel_inner, starts, ends, th, inp, "CircularBinarySegmentation.predict")
    info["nt"] = bool(anomalies) or bool(ref) or any(v is not None and not v for v in otab)
    return info


def check_long_candidate(rec, inp):
    """One series long enough for candidates with THOUSANDS of admissible inner intervals (n = 100, min_segment_length 5: 4459 for
    [0, 100)): every row of the scores table against a vectorised evaluation of the definition for the L2 cost.  inp: {"n", "m", "seed"}."""
    from skchange.anomaly_detectors import CircularBinarySegmentation
    from skchange.costs import L2Cost
    n, m = int(inp["n"]), int(inp["m"])
    rng = np.random.default_rng(int(inp["seed"]))
    X = rng.normal(size=(n, 1))
    X[int(0.72 * n):int(0.97 * n)] += 2.0              # the best inner interval of the long candidates starts late
    det, err = O.attempt(lambda: CircularBinarySegmentation(anomaly_score=L2Cost(), min_segment_length=m, max_interval_length=n,
                                                            threshold_scale=2.0).fit(X), seconds=120.0)
    if err is None:
        _, err = O.attempt(lambda: det.predict(X), seconds=120.0)
    if err is not None:
        rec.violation("CircularBinarySegmentation:long-candidate:raises", f"CircularBinarySegmentation(L2Cost, m={m}, M={n}) on n={n} raised {err!r}", "C09.detector", inp)
        return True
    tb = det.scores
    S = np.concatenate(([0.0], np.cumsum(X[:, 0])))
    Q = np.concatenate(([0.0], np.cumsum(X[:, 0] ** 2)))
    a, b = np.meshgrid(np.arange(n + 1), np.arange(n + 1), indexing="ij")
    for s, e, ra, rb, rs in zip(_ints(tb["interval_start"].to_numpy()), _ints(tb["interval_end"].to_numpy()), tb["argmax_anomaly_start"].to_numpy(),
                                tb["argmax_anomaly_end"].to_numpy(), tb["score"].to_numpy()):
        ok = (s < a) & (b < e) & (b - a >= m) & ((a - s) + (e - b) >= m)
        if not ok.any():
            continue
        with np.errstate(all="ignore"):
            n_in, n_o = (b - a).astype(float), float(e - s)
            c_o = (Q[e] - Q[s]) - (S[e] - S[s]) ** 2 / n_o
            c_in = (Q[b] - Q[a]) - (S[b] - S[a]) ** 2 / n_in
            n_p = n_o - n_in
            c_p = ((Q[e] - Q[s]) - (Q[b] - Q[a])) - ((S[e] - S[s]) - (S[b] - S[a])) ** 2 / n_p
            sc = np.where(ok, c_o - c_in - c_p, -np.inf)
        best = float(sc.max())
        if not close(float(rs), best) or not (float(ra).is_integer() and float(rb).is_integer() and ok[int(ra), int(rb)] and close(float(sc[int(ra), int(rb)]), best)):
            ia, ib = np.unravel_index(int(np.argmax(sc)), sc.shape)
            rec.violation("run_circular_binseg:score:long-candidate", f"CircularBinarySegmentation(L2Cost, m={m}, M={n}) on n={n}: candidate [{s},{e}) reports score "
                          f"{float(rs)!r} with inner interval ({ra}, {rb}); the maximum of the local anomaly score over its {int(ok.sum())} admissible inner "
                          f"intervals is {best!r} at ({int(ia)}, {int(ib)})", "C09.table.score", inp)
            return True
    return True


CHECKS = {"long": lambda rec, inp: check_long_candidate(rec, inp), "inner": check_inner, "greedy": check_greedy_kernel, "run": check_run, "detector": lambda rec, inp: check_detector(rec, inp)["nt"]}


def hyper(n, ms, gs, extra_M=(200,)):
    for m in ms:
        if n < 2 * m:
            continue
        for M in list(range(2 * m, n + 3)) + [v for v in extra_M if v > n + 2]:
            for g in gs:
                yield m, M, g


def run(tier="quick", seed=0, repo="/repo"):
    use_repo(repo)
    rec = O.Rec(target=TARGET)
    O.reset_hangs()
    bound = {}
    try:
        _enumerate(rec, tier, seed, bound)
        inp = {"check": "long", "n": 100, "m": 5, "seed": seed}
        rec.case(("long", 100, 5), check_long_candidate(rec, inp), None)
        bound["text"] = bound.get("text", "") + "; one series of n = 100 (min_segment_length 5, candidates with up to 4459 inner intervals, L2 cost) against the vectorised definition"
    except O.Abort:
        bound["text"] = bound.get("text", "") + " [enumeration stopped early: calls into the real code did not terminate]"
    kinds = {}
    for f in rec.nontrivial:
        k = f[0] if isinstance(f, tuple) else "other"
        kinds[k] = kinds.get(k, 0) + 1
    return rec.result(RULE, bound.get("text", "stopped before the bound was fixed"), exhaustive=False, section_seconds=bound.get("timing", {}),
                      nontrivial_by_kind=kinds)


def _enumerate(rec, tier, seed, bound_out):
    rng = np.random.default_rng(seed)
    quick = tier == "quick"
    t0 = [time.time(), None]
    timing = bound_out.setdefault("timing", {})

    def tick(label):
        now = time.time()
        if t0[1] is not None:
            timing[t0[1]] = round(timing.get(t0[1], 0.0) + now - t0[0], 1)
        t0[0], t0[1] = now, label
    gs = [1.1, 1.5, 2.0] if quick else [1.01, 1.1, 1.25, 1.5, 1.75, 2.0]
    ms = [1, 2, 3] if quick else [1, 2, 3, 4]
    span = 12 if quick else 20
    n0 = 5
    n_run = range(2, 10) if quick else range(2, 12)
    ns_b = [5, 7, 8] if quick else [4, 5, 6, 7, 8, 9, 10]
    ns_d = [2, 3, 4, 5, 6, 7, 8] if quick else list(range(2, 11))
    bound_out["text"] = (f"inner: start in (0,1,3), length <= {span}, m <= {5 if quick else 8}; greedy kernel: all <=3-subsets of sub-intervals (length >= 3) of "
                         f"[0,{n0}] + random systems; run: table scores n<={max(n_run)} with m in {ms}, M in 2m..n+2, g in {gs}; built-in n in {ns_b}, p<=2; "
                         f"detector: n in {ns_d}")

    tick("1")
    # (1) admissible inner intervals, exhaustive
    for s in (0, 1, 3):
        for e in range(s, s + span + 1):
            for m in range(1, 6 if quick else 9):
                inp = {"check": "inner", "start": s, "end": e, "m": m}
                rec.case(("inner", s, e, m), check_inner(rec, inp), inp if (s, e, m) == (1, 7, 2) else None)

    tick("2")
    # (2) greedy kernel, exhaustive on explicit candidate systems over [0,5]
    subs = [(s, e) for s in range(n0 + 1) for e in range(s + 3, n0 + 1)]
    for K in (1, 2, 3):
        for combo in itertools.combinations(subs, K):
            starts = [c[0] for c in combo]
            ends = [c[1] for c in combo]
            inners = [O.inner_intervals(s, e, 1) for s, e in combo]
            if not quick or K < 3:
                choices = list(itertools.product(*inners))
            else:
                allc = list(itertools.product(*inners))
                choices = [allc[i] for i in sorted(set(rng.integers(0, len(allc), size=6).tolist()))]
            for inner in choices:
                for perm in itertools.permutations(range(1, K + 1)):
                    ths = sorted({0.0} | {float(v) for v in perm} | {v - 0.5 for v in perm})
                    inp = {"check": "greedy", "scores": [float(v) for v in perm], "inner": [list(ab) for ab in inner], "starts": starts, "ends": ends,
                           "thresholds": ths}
                    for th, nt in zip(ths, check_greedy_kernel(rec, inp)):
                        rec.case(("gk", combo, inner, perm, th), nt, None)
    for it in range(150 if quick else 1500):
        n = int(rng.integers(5, 13 if quick else 25))
        m = int(rng.integers(1, 3))
        K = int(rng.integers(2, 9))
        starts = [int(rng.integers(0, n - 2 * m)) for _ in range(K)]
        ends = [int(rng.integers(s + 2 * m + 1, n + 1)) for s in starts]
        inner = []
        for s, e in zip(starts, ends):
            opts = O.inner_intervals(s, e, m)
            inner.append(list(opts[int(rng.integers(0, len(opts)))]))
        style = it % 3
        scores = ((rng.permutation(K) + 1.0) if style == 0 else rng.integers(0, 4, size=K).astype(float) if style == 1
                  else np.round(rng.gamma(1.0, 2.0, size=K), 3)).tolist()
        ths = _thresholds_from(scores)
        inp = {"check": "greedy", "scores": scores, "inner": inner, "starts": starts, "ends": ends, "thresholds": ths}
        for th, nt in zip(ths, check_greedy_kernel(rec, inp)):
            rec.case(("gr", it, th), nt, dict(inp, thresholds=[th]) if it == 0 and nt else None)

    tick("3")
    # (3) run_circular_binseg
    for n in n_run:
        X0 = np.zeros((n, 1))
        for m, M, g in hyper(n, ms, gs, extra_M=()):
            for j, style in enumerate(("perm", "signed", "ties") if quick else O.STYLES):
                if quick and (j + n + M) % 2 and style != "perm":
                    continue
                q = 1 + (j + n + M) % 2
                inp = {"check": "run", "scorer": {"kind": "table", "seed": seed + n + 7 * M, "q": q, "style": style}, "X": X0, "m": m, "M": M, "g": g,
                       "n_thresholds": 8 if quick else "all"}
                for i, nt in enumerate(check_run(rec, inp)):
                    rec.case(("run", "table", style, q, n, m, M, g, i), nt, dict(inp, threshold_index=i) if (n, m, M, j) == (8, 2, 8, 0) and i == 1 else None)
    kinds = ("bump", "two", "none", "jump")
    for n in ns_b:
        for p in (1, 2):
            for name, (_, msize, _) in O.builtin_local_scores(p).items():
                if quick and (name.startswith("LocalAnomalyScore") or (p == 2 and n != 8)):
                    continue
                for m in ms:
                    if m < msize or n < 2 * m:
                        continue
                    for M in sorted({2 * m, n - 1, n, 200}):
                        if M < 2 * m:
                            continue
                        for g in (([1.5, 2.0] if M % 2 == 0 else [1.5]) if quick else [1.1, 1.5, 2.0]):
                            kind = kinds[(n + m + M + p) % 4]
                            X = O.gen_data(rng, n, p, kind)
                            inp = {"check": "run", "scorer": {"kind": "builtin", "name": name}, "X": X, "m": m, "M": M, "g": g,
                                   "n_thresholds": 4 if quick else 8}
                            for i, nt in enumerate(check_run(rec, inp)):
                                rec.case(("run", name, n, p, m, M, g, kind, i), nt, None)

    tick("4")
    # (4) detector class
    for n in ns_d:
        for p in ((1,) if quick and n != 8 else (1, 2)):
            specs = [{"kind": "table", "seed": seed + n, "q": p, "style": "perm"}, {"kind": "table", "seed": seed + n + 1, "q": 1, "style": "signed"}]
            specs += [{"kind": "builtin", "name": nm} for nm in O.builtin_local_scores(p) if not (quick and (nm.startswith("LocalAnomalyScore") or (nm == "GaussianCovCost" and n != 8)))]
            for spec in specs:
                msize = 1 if spec["kind"] == "table" else O.builtin_local_scores(p)[spec["name"]][1]
                for m in ms:
                    if m < msize or n < 2 * m:
                        continue
                    for M in sorted({2 * m, n, n + 1, 200} if quick else {2 * m, 2 * m + 1, n - 1, n, n + 1, 200}):
                        if M < 2 * m:
                            continue
                        for g in (([1.5, 2.0] if M % 2 == 0 else [1.5]) if quick else [1.1, 1.5, 2.0]):
                            kind = kinds[(n + m + M) % 4]
                            X = O.gen_data(rng, n, p, kind)
                            base = {"check": "detector", "scorer": spec, "X": X, "m": m, "M": M, "g": g}
                            probe = dict(base, threshold_scale=1.0)
                            info = check_detector(rec, probe)
                            rec.case(("det", str(spec), n, p, m, M, g, 1.0), info["nt"], probe if n == 8 and info["anomalies"] and spec["kind"] == "builtin" else None)
                            variants = []
                            if info["threshold"] and info["scores"]:
                                ths = [t for t in _thresholds_from(info["scores"], 4) if t > 0]
                                variants += [dict(base, threshold_scale=float(t / info["threshold"])) for t in ths][: (2 if quick else 4)]
                            variants.append(dict(base, threshold_scale=0.0))        # scale 0: every positive score is above the threshold
                            if info["threshold"] and info["scores"] and ths and (n + m) % 2 == 0:
                                # numeric scale, fitted on a four times longer series: the selection uses the FITTED threshold (aimed between
                                # two scores of X), not one recomputed from the series handed to predict
                                nf = 4 * n
                                extra = dict(base, threshold_scale=float(ths[0] / (2 * p * math.log(nf * M))), Xfit=O.gen_data(rng, nf, p, "none"))
                                inf3 = check_detector(rec, extra)
                                rec.case(("det", str(spec), n, p, m, M, g, "fit-on-longer"), inf3["nt"], None)
                            results = [(info["threshold"], info["anomalies"])] if info["anomalies"] is not None else []
                            for d in variants:
                                inf2 = check_detector(rec, d)
                                rec.case(("det", str(spec), n, p, m, M, g, d["threshold_scale"]), inf2["nt"], None)
                                if inf2["anomalies"] is not None:
                                    results.append((inf2["threshold"], inf2["anomalies"]))
                            check_monotone(rec, results, dict(base, threshold_scale=None, scales=[d["threshold_scale"] for d in variants]),
                                           "CircularBinarySegmentation.predict")
                            for level in ((0.5,) if quick else (0.5, None)):
                                d = dict(base, threshold_scale=None, level=level)
                                if (n + m + M) % 3 == 0 and n > 2 * m:
                                    d["Xfit"] = O.gen_data(rng, n + 1, p, "none")
                                inf2 = check_detector(rec, d)
                                rec.case(("det", str(spec), n, p, m, M, g, "tuned", level), inf2["nt"], None)
    tick("end")


def replay(inp, repo="/repo"):
    use_repo(repo)
    rec = O.Rec(target=TARGET)
    if inp.get("check") == "detector" and inp.get("threshold_scale") is None and "scales" in inp:
        results = []
        for ts in [1.0] + list(inp["scales"]):
            info = check_detector(rec, dict(inp, threshold_scale=float(ts)))
            if info["anomalies"] is not None:
                results.append((info["threshold"], info["anomalies"]))
        check_monotone(rec, results, inp, "CircularBinarySegmentation.predict")
    else:
        CHECKS[inp["check"]](rec, inp)
    return O.replay_result(rec, inp)
