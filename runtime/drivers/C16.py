"""C16 bounded stand-in: MVCAPA's affected columns are the optimal sparse subset for each anomaly.

The REAL MVCAPA (fit / predict / transform, with and without ignore_point_anomalies) and run_mvcapa are executed on
seeded-random multivariate inputs; for EVERY anomaly they report, the reported columns are compared with the
statement, using savings computed directly (table lookup / row-by-row L2) and the sparse penalty of the collective
scale (the configured point penalty for point anomalies):
  columns    at least one column, distinct, inside 0..p-1
  order      the savings of the listed columns are non-increasing
  topk       no excluded column has a larger saving than an included one
  argmax_k   with v sorted decreasingly and f(k) = sum_{j<k} (v_j - beta_j), f(len(columns)) == max_{1<=k<=p} f(k)
  transform  on the rows of each reported anomaly the non-zero labels are exactly its columns; all other rows are 0
All comparisons are tie-robust (they compare saving VALUES within the tolerance, never column identities of tied
savings), so ties need not be excluded.

Scope: p in 2..4 (thorough ..6), n <= 12, 2 <= m <= M <= 8; L2Saving / L2Cost(0) on data with planted dense, sparse and
single-column collective anomalies and point outliers on a half-integer grid; user-defined table savings (BaseSaving
subclass, non-negative, sub-additive by min-plus closure, 1 or 2 parameters per variable); collective and point
penalty in {dense, sparse, intermediate, combined, user callable}, scales in {0, .1, .3, 1, 2} (+ a large point scale so
that the pinned tree, which cannot report point anomalies from MVCAPA, is exercised on collective anomalies too).

Keys: find_affected_components:{columns,order,topk,argmax_k}, MVCAPA.transform:marks, and
get_anomalies:point-anomaly-interval when MVCAPA raises because run_base_capa hands it the empty point interval [i,i)
(the same defect and key as in C03).
"""
from __future__ import annotations

import hashlib
import json
import sys
import traceback

import numpy as np

from runtime import oracles
from runtime.common import Recorder, jsonable, use_repo, alternate_route

K_POINT = "get_anomalies:point-anomaly-interval"
TOL = 1e-8

RULE = ("seeded random inputs, n ascending; every anomaly reported by the real MVCAPA / run_mvcapa is checked.  A case is "
        "non-trivial when at least one anomaly is reported and its columns are compared with the statement; distinct = md5 "
        "of the full case.  The result also counts the checked anomalies by kind (point / single-column / sparse / dense)")

_CLS = {}


def classes():
    key = id(sys.modules["skchange"])
    if key not in _CLS:
        from skchange.anomaly_scores import BaseSaving

        class TableSaving(BaseSaving):
            """User-defined univariate saving: evaluate([s,e])[j] == table[s][e][j] (the data are ignored)."""

            def __init__(self, table=None, params_per_variable=1):
                self.table = table
                self.params_per_variable = params_per_variable
                super().__init__()

            @property
            def min_size(self):
                return 1

            def get_param_size(self, p):
                return self.params_per_variable * p

            def _fit(self, X, y=None):
                self._tab = np.asarray(self.table, dtype=float)
                return self

            def _evaluate(self, cuts):
                return self._tab[cuts[:, 0], cuts[:, 1]].reshape(len(cuts), -1)

        _CLS.clear()
        _CLS[key] = TableSaving
    return _CLS[key]


# --------------------------------------------------------------------------- inputs

def closure(raw):
    n = raw.shape[0] - 1
    S = np.zeros_like(raw, dtype=float)
    for L in range(1, n + 1):
        for a in range(0, n - L + 1):
            c = a + L
            v = raw[a, c].astype(float)
            for b in range(a + 1, c):
                v = np.minimum(v, S[a, b] + S[b, c])
            S[a, c] = v
    return S


def random_table(rng, n, p):
    raw = np.zeros((n + 1, n + 1, p))
    hi = int(rng.integers(2, 7))
    loud = rng.random(p) < 0.6          # columns that carry signal at all
    if not loud.any():
        loud[int(rng.integers(0, p))] = True
    for a in range(n):
        for c in range(a + 1, n + 1):
            raw[a, c] = rng.integers(0, hi * (c - a) + 1, size=p) * np.where(loud, 1.0, float(rng.random() < 0.3))
    return closure(raw)


def random_data(rng, n, p):
    X = rng.integers(-1, 2, size=(n, p)) * 0.5 * (rng.random((n, p)) < 0.6)
    for _ in range(int(rng.integers(1, 3))):
        a = int(rng.integers(0, n - 1))
        L = int(rng.integers(2, 6))
        pattern = rng.random()
        if pattern < 0.3:
            cols = np.ones(p, dtype=bool)                       # dense
        elif pattern < 0.6:
            cols = np.zeros(p, dtype=bool)                      # single column
            cols[int(rng.integers(0, p))] = True
        else:
            cols = rng.random(p) < 0.5                          # sparse
            cols[int(rng.integers(0, p))] = True
        X[a:a + L, cols] += rng.choice([-3.0, -2.0, -1.5, 1.0, 1.5, 2.0, 3.0], size=int(cols.sum()))
    if rng.random() < 0.5:                                      # point outliers
        for _ in range(int(rng.integers(1, 3))):
            t = int(rng.integers(0, n))
            cols = rng.random(p) < 0.5
            cols[int(rng.integers(0, p))] = True
            X[t, cols] += rng.choice([-6.0, -4.0, 4.0, 5.0, 6.0], size=int(cols.sum()))
    return X


def random_betas(rng, p):
    r = rng.random()
    if r < 0.25:
        return [0.0] * p
    if r < 0.55:
        return [float(rng.choice([0.5, 1.0, 2.0, 4.0]))] * p
    return [float(b) for b in rng.choice([0.0, 0.5, 1.0, 2.0, 4.0], size=p)]


def random_penalty(rng, p):
    if rng.random() < 0.3:
        return {"alpha": float(rng.choice([0.0, 0.5, 2.0, 6.0])), "betas": random_betas(rng, p)}
    return str(rng.choice(["dense", "sparse", "intermediate", "combined"]))


def random_case(rng, n, pmax):
    p = int(rng.integers(2, pmax + 1))
    m = int(rng.integers(2, min(n, 5) + 1))
    M = int(rng.integers(m, 9))
    kind = str(rng.choice(["table", "l2", "l2", "l2cost", "l2cost-mu"]))
    if kind == "table":
        sv = {"kind": "table", "coll": random_table(rng, n, p), "k": int(rng.integers(1, 3)),
              "point": (rng.integers(0, 13, size=(n, p)) * (rng.random((n, p)) < 0.4)).astype(float) if rng.random() < 0.7 else None}
    else:
        sv = {"kind": kind, "X": random_data(rng, n, p)}
        if kind == "l2cost-mu":     # collective saving with a non-zero baseline mean per column, point saving left at its documented default
            sv["mu"] = [float(v) for v in rng.choice([-1.0, 0.5, 1.0, 2.0], size=p)]
    pscales = [0.0, 0.1, 0.3, 1.0, 2.0, 50.0, 50.0]
    case = {"api": str(rng.choice(["MVCAPA", "MVCAPA", "run_mvcapa"])), "n": n, "p": p, "m": m, "M": M, "saving": sv,
            "ignore": bool(rng.random() < 0.25),
            "pen": {"cpen": random_penalty(rng, p), "cscale": float(rng.choice([0.0, 0.1, 0.3, 1.0, 2.0])),
                    "ppen": random_penalty(rng, p) if rng.random() < 0.6 else "sparse", "pscale": float(rng.choice(pscales))}}
    return jsonable(case)


# --------------------------------------------------------------------------- running the real code

def user_penalty(spec):
    def penalty(n, p, n_params_per_variable=1, scale=1.0):
        return scale * float(spec["alpha"]), scale * np.asarray(spec["betas"], dtype=float)
    return penalty


def make_savings(case, raw_cost):
    from skchange.anomaly_scores import L2Saving, Saving
    from skchange.costs import L2Cost
    sv, n, p = case["saving"], case["n"], case["p"]
    if sv["kind"] == "table":
        T = classes()
        C = np.asarray(sv["coll"], dtype=float).reshape(n + 1, n + 1, p)
        if sv.get("point") is None:
            P = C
        else:
            P = np.zeros_like(C)
            pt = np.asarray(sv["point"], dtype=float).reshape(n, p)
            for t in range(n):
                P[t, t + 1] = pt[t]
        # the point saving gets a different parameter count than the collective one, so that a mix-up of the two in the
        # penalties used for column inference is visible
        kc_ = sv.get("k", 1)
        return np.zeros((n, p)), T(table=C, params_per_variable=kc_), T(table=P, params_per_variable=3 - kc_ if kc_ in (1, 2) else 1)
    X = np.asarray(sv["X"], dtype=float).reshape(n, p)
    if sv["kind"] == "l2":
        return X, L2Saving(), L2Saving()
    if sv["kind"] == "l2cost-mu":
        mu = np.asarray(sv["mu"], dtype=float)
        # point_saving omitted for the class (None -> L2Saving() by the documentation); the kernel gets that default explicitly
        return X, (L2Cost(param=mu) if raw_cost else Saving(L2Cost(param=mu))), (None if raw_cost else L2Saving())
    if raw_cost:
        return X, L2Cost(param=0.0), L2Cost(param=0.0)
    return X, Saving(L2Cost(param=0.0)), Saving(L2Cost(param=0.0))


def saving_functions(case):
    sv, n, p = case["saving"], case["n"], case["p"]
    if sv["kind"] == "table":
        C = np.asarray(sv["coll"], dtype=float).reshape(n + 1, n + 1, p)
        P = None if sv.get("point") is None else np.asarray(sv["point"], dtype=float).reshape(n, p)
        return (lambda s, e: C[s, e]), (lambda t: C[t, t + 1] if P is None else P[t])
    X = np.asarray(sv["X"], dtype=float).reshape(n, p)
    sc = lambda s, e: oracles.saving(oracles.l2_cost, X, s, e, 0.0)     # noqa: E731
    if sv["kind"] == "l2cost-mu":       # collective: baseline mean mu; point: the documented default L2Saving (baseline 0)
        mu = np.asarray(sv["mu"], dtype=float)
        return (lambda s, e: oracles.saving(oracles.l2_cost, X, s, e, mu)), (lambda t: sc(t, t + 1))
    return sc, (lambda t: sc(t, t + 1))


def resolve_penalty(spec, n, p, n_params, scale):
    from skchange.anomaly_detectors.mvcapa import capa_penalty_factory
    f = user_penalty(spec) if isinstance(spec, dict) else capa_penalty_factory(spec)
    alpha, betas = f(n, p, n_params, scale=scale)
    return float(alpha), np.asarray(betas, dtype=float).reshape(-1)


def execute(case):
    """Returns dict(anoms=[(s,e,cols)], dense=ndarray|None, pens=dict, err, tb)."""
    import pandas as pd
    from skchange.anomaly_detectors import MVCAPA
    from skchange.anomaly_detectors import mvcapa as mv_mod
    n, p, m, M, pen = case["n"], case["p"], case["m"], case["M"], case["pen"]
    out = {"err": None, "tb": [], "anoms": [], "dense": None, "pens": None}
    try:
        X, cs, ps = make_savings(case, raw_cost=case["api"] == "MVCAPA")
        cpen = user_penalty(pen["cpen"]) if isinstance(pen["cpen"], dict) else pen["cpen"]
        ppen = user_penalty(pen["ppen"]) if isinstance(pen["ppen"], dict) else pen["ppen"]
        if case["api"] == "MVCAPA":
            det = MVCAPA(collective_saving=cs, point_saving=ps, collective_penalty=cpen, collective_penalty_scale=pen["cscale"],
                         point_penalty=ppen, point_penalty_scale=pen["pscale"], min_segment_length=m, max_segment_length=M,
                         ignore_point_anomalies=case["ignore"])
            det = alternate_route(det)
            sav_c, sav_p = det._collective_saving, det._point_saving
        else:
            sav_c, sav_p = cs, ps
        kc, kp = sav_c.get_param_size(1), sav_p.get_param_size(1)
        out["pens"] = {"coll": resolve_penalty(pen["cpen"], n, p, kc, pen["cscale"]),
                       "point": resolve_penalty(pen["ppen"], n, p, kp, pen["pscale"]),
                       "sparse": resolve_penalty("sparse", n, p, kc, pen["cscale"])}
        if case["api"] == "MVCAPA":
            # the row index rotates over default / shifted range / datetime (labels are positional whatever the index: C05, last clause of C16)
            which = (n + p + int(case.get("ignore", False))) % 3
            index = [None, pd.RangeIndex(40, 40 + n), pd.date_range("2021-03-01", periods=n, freq="D")][which]
            # integral readings may arrive in an integer dtype (case["xdtype"]): the savings are those of the same numbers as float64
            df = pd.DataFrame(X.astype(case["xdtype"]) if case.get("xdtype") else X, index=index)
            if (n + p) % 2:
                # labelled columns; the frame used after fit holds the same numbers in the same positions under labels in another
                # order (reported columns are positions of the frame that is passed, whatever it or the training frame is called)
                names = [f"v{j}" for j in range(p)]
                df.columns = names
                det.fit(df)
                df = df.copy()
                df.columns = names[1:] + names[:1]
            else:
                det.fit(df)
            y = det.predict(df)
            out["anoms"] = [(int(iv.left), int(iv.right), [int(c) for c in cols]) for iv, cols in zip(y["ilocs"], y["icolumns"])]
            out["dense"] = np.asarray(det.transform(df).values)
        else:
            _, coll, point = mv_mod.run_mvcapa(X, cs, ps, cpen, pen["cscale"], ppen, pen["pscale"], m, M)
            out["anoms"] = sorted((int(s), int(e), [int(c) for c in cols]) for s, e, cols in list(coll) + list(point))
    except Exception as e:      # noqa: BLE001
        out["err"] = f"{type(e).__name__}: {str(e)[:160]}"
        out["tb"] = [f.name for f in traceback.extract_tb(e.__traceback__)]
    return out


def point_intervals_of_base(case, pens):
    """What run_base_capa itself reports as point anomalies for this case (used to explain a ValueError of MVCAPA)."""
    from skchange.anomaly_detectors import mvcapa as mv_mod
    X, cs, ps = make_savings(case, raw_cost=False)
    cs.fit(X), ps.fit(X)
    (ca, cb), (pa, pb) = pens["coll"], pens["point"]
    _, _, point = mv_mod.run_base_capa(cs, ps, ca, cb, pa, pb, case["m"], case["M"])
    return [(int(a[0]), int(a[1])) for a in point]


# --------------------------------------------------------------------------- the check

def leq(a, b):
    return a <= b + TOL * (1.0 + max(abs(a), abs(b)))


def check_case(rec, case, stats=None):
    n, p, m, M, api = case["n"], case["p"], case["m"], case["M"], case["api"]
    out = execute(case)
    inp = {"case": case}
    head = f"{api} (n={n}, p={p}, m={m}, M={M}, penalties {case['pen']})"

    def report(key, what, clause):
        rec.violation(key, what, clause, dict(inp, key=key))

    if out["err"] is not None:
        explained = False
        if out["pens"] is not None and "find_affected_components" in out["tb"] and out["err"].startswith("ValueError"):
            try:
                bad = [a for a in point_intervals_of_base(case, out["pens"]) if a[1] != a[0] + 1]
            except Exception:       # noqa: BLE001
                bad = []
            if bad:
                explained = True
                report(K_POINT, f"{head} raises {out['err']!r}: run_base_capa reports the point anomaly at {bad[0][0]} as the empty "
                       f"interval {bad[0]} and find_affected_components evaluates the point saving on it, so no affected columns are "
                       "reported for any anomaly of this input", "C16.columns")
        if not explained:
            report(f"unexplained:raises:{out['err'].split(':')[0]}", f"{head} raised {out['err']} (traceback {out['tb'][-3:]})", "C16.runs")
        return False, {"api": api, "n": n, "p": p, "error": out["err"]}

    Sc, Sp = saving_functions(case)
    checked = []
    for s, e, cols in out["anoms"]:
        if not (0 <= s < e <= n):
            report("unexplained:interval", f"{head} reports the interval ({s},{e})", "C16.columns")
            continue
        is_point = e - s == 1
        v = np.asarray(Sp(s) if is_point else Sc(s, e), dtype=float)
        betas = out["pens"]["point"][1] if is_point else out["pens"]["sparse"][1]
        which = f"{'point' if is_point else 'collective'} anomaly [{s},{e}) with savings {v.tolist()}, " \
                f"{'point' if is_point else 'sparse'} betas {betas.tolist()}"
        if len(cols) < 1 or len(set(cols)) != len(cols) or min(cols) < 0 or max(cols) >= p:
            report("find_affected_components:columns", f"{head}: {which}: reported columns {cols} are not a non-empty set of distinct "
                   "column positions", "C16.columns")
            continue
        vs = -np.sort(-v)
        f = np.cumsum(vs - betas)
        kstar = int(np.argmax(f)) + 1
        k = len(cols)
        kind = "point" if is_point else "single" if kstar == 1 else "dense" if kstar == p else "sparse"
        checked.append(kind)
        if stats is not None:
            stats[kind] = stats.get(kind, 0) + 1
        listed = [float(v[c]) for c in cols]
        if not all(leq(listed[i + 1], listed[i]) for i in range(k - 1)):
            report("find_affected_components:order", f"{head}: {which}: columns {cols} have savings {listed}, not in decreasing order",
                   "C16.order")
        excluded = [float(v[c]) for c in range(p) if c not in cols]
        if excluded and not leq(max(excluded), min(listed)):
            report("find_affected_components:topk", f"{head}: {which}: reported columns {cols} but an excluded column has saving "
                   f"{max(excluded):g} > {min(listed):g}", "C16.topk")
        elif not leq(float(f[kstar - 1]), float(f[k - 1])):
            report("find_affected_components:argmax_k", f"{head}: {which}: {k} columns {cols} reported, but cumulative saving minus "
                   f"penalty is {f.tolist()} for k=1..{p}, maximal at k={kstar}", "C16.argmax_k")
    if out["dense"] is not None:
        D = out["dense"]
        if D.shape != (n, p):
            report("MVCAPA.transform:marks", f"{head}: transform returned shape {D.shape}, expected {(n, p)}", "C16.transform")
        else:
            want = np.zeros((n, p), dtype=bool)
            for s, e, cols in out["anoms"]:
                if 0 <= s < e <= n and cols and 0 <= min(cols) and max(cols) < p:
                    want[s:e, cols] = True
            if not np.array_equal(D != 0, want):
                r, c = np.argwhere((D != 0) != want)[0]
                report("MVCAPA.transform:marks", f"{head}: predict reports {out['anoms']} but transform "
                       f"{'marks' if D[r, c] != 0 else 'does not mark'} row {r}, column {c}; labels {D.tolist()}", "C16.transform")
    summary = {"api": api, "n": n, "p": p, "m": m, "M": M, "saving": case["saving"]["kind"], "pen": case["pen"],
               "anomalies": out["anoms"], "kinds": checked}
    return bool(checked), summary


def fingerprint(case):
    return hashlib.md5(json.dumps(case, sort_keys=True).encode()).hexdigest()


TARGET = "skchange/anomaly_detectors/mvcapa.py::find_affected_components"


def run(tier="quick", seed=0, repo="/repo"):
    use_repo(repo)
    rec = Recorder(target=TARGET)
    rng = np.random.default_rng(seed)
    stats = {}
    per_n, pmax = (330, 4) if tier == "quick" else (5000, 6)
    for ignore in (False, True):    # smallest input on which the pinned MVCAPA cannot report columns at all (one loud sample)
        case = {"api": "MVCAPA", "n": 2, "p": 2, "m": 2, "M": 2, "saving": {"kind": "l2", "X": [[0.0, 0.0], [0.0, 3.0]]},
                "ignore": ignore, "pen": {"cpen": "combined", "cscale": 1.0, "ppen": "sparse", "pscale": 1.0}}
        nt, summ = check_case(rec, case, stats)
        rec.case(fingerprint(case), nt, summ)
    for n in range(3, 13):
        for _ in range(per_n):
            case = random_case(rng, n, pmax)
            nt, summ = check_case(rec, case, stats)
            rec.case(fingerprint(case), nt, summ if nt and rec.evaluations % 397 == 0 else None)
    # integral readings held in narrow integer dtypes, large enough for sums / squares to leave the type's range if they were formed in it
    for dt, scale in (("int32", 40000.0), ("int16", 400.0), ("int64", 4e9)):
        done = 0
        while done < (6 if tier == "quick" else 30):
            case = random_case(rng, int(rng.integers(6, 13)), pmax)
            if case["api"] != "MVCAPA" or case["saving"]["kind"] not in ("l2", "l2cost"):
                continue
            case["saving"]["X"] = (np.round(np.asarray(case["saving"]["X"], dtype=float) * scale)).tolist()
            case["xdtype"] = dt
            nt, summ = check_case(rec, case, stats)
            rec.case(fingerprint(case), nt, None)
            done += 1
    return rec.result(RULE, f"integral data as int32 / int16 / int64 (6 MVCAPA cases each); random ({per_n} cases per n): 3<=n<=12, 2<=p<={pmax}, 2<=m<=min(n,5), m<=M<=8; L2Saving / L2Cost(0) on "
                      "planted dense/sparse/single-column/point patterns and table savings; collective and point penalty in "
                      "{dense,sparse,intermediate,combined,user}, scales {0,.1,.3,1,2} (+50 for points); MVCAPA "
                      "fit/predict/transform (with and without ignore_point_anomalies; row index default / shifted / dates; in half of the cases the frame used "
                      "after fit carries the column labels in another order) and run_mvcapa",
                      exhaustive=False, anomalies_checked=stats)


def replay(inp, repo="/repo"):
    use_repo(repo)
    rec = Recorder(max_per_key=5)
    check_case(rec, inp["case"])
    keys = [v["key"] for v in rec.violations]
    want = inp.get("key")
    hit = [v for v in rec.violations if v["key"] == want] or rec.violations
    if want is not None and want not in keys and keys:
        return {"violated": True, "detail": f"{want} not reproduced, but: {hit[0]['key']}: {hit[0]['what']}"}
    return {"violated": bool(hit), "detail": hit[0]["what"] if hit else "holds"}
