"""C10 bounded stand-in: results depend only on hyper-parameters, training data and the input.

Differential testing of call HISTORIES on the real objects against a freshly constructed object (fresh scorer instances)
that is configured the same way, fitted on the same data and asked the same question once.

Parts (see `run`):
  H  single-object histories: every sequence of length <= 3 (quick) / <= 4 (thorough) over
       construct (re-construct from the object's own, possibly used, hyper-parameter objects), clone, set_params (toggle between
       two configurations A/B: a plain hyper-parameter, a swapped scorer instance, or a nested <scorer>__param), fit(D1), fit(D2),
       predict / transform / transform_scores on D1 and D2   (detectors: all 7)
       fit(D1), fit(D2), evaluate(cuts A), evaluate(cuts B)  (scorers: all 8)
     with D1 (12 x 1) and D2 (10 x 2).  Every call's outcome (value or exception type) is compared with the fresh reference;
     before/after every fit / predict / transform / transform_scores / evaluate the caller's frame (or cuts array) and
     get_params(deep=True) are compared with snapshots.
  P  pairs of objects sharing ONE scorer / cost instance (detector+detector, composite scorer+composite scorer, composite
     scorer+detector): every interleaving of length <= 3 / <= 4 over x.fit(D), x.predict(D) [x.transform_scores(D)],
     x.evaluate(cuts) for x in {a, b}, D in {D1, D2}; each outcome compared with a fresh, unshared reference.
  U  update: fit(X1); update(X2) [; update(X3)] (also after an unrelated earlier fit / predict) for DataFrame (p = 1, 2) and Series
     inputs with a continuing Range / Datetime index, compared with a fresh fit(concat) through predict / transform /
     transform_scores and the numeric fitted parameters.
  N  containers: fit / predict / transform / transform_scores (/ evaluate) once per container (float / int DataFrame, Series,
     2-D / 1-D / Fortran-ordered ndarray) with snapshots of the caller's data and of get_params().

What is deliberately NOT flagged (the statement does not decide it): calling predict / evaluate after set_params without a
new fit (sktime resets the object: NotFittedError, or the value of a fresh object fitted on the last data, are both accepted);
the state of a plain cost object the user holds after a detector sharing it has predicted (the detector's internal fit is
"the last fit" of that cost); update with an index that overlaps the old one.
"""
from __future__ import annotations

import copy
import itertools
import time
import warnings

import numpy as np
import pandas as pd

from runtime.common import Recorder, jsonable, use_repo

RULE = ("all call sequences up to the stated length per configuration (every prefix is checked once); a case is non-trivial "
        "when the observed call returned a value (the object was fitted) and the history before it contains more than the one "
        "fit a fresh object gets (another dataset, an earlier predict, a clone / set_params / re-construct, a call on an object "
        "sharing the scorer), or for U when update ran on new data, or for N when the call returned a value; "
        "distinct = (configuration, call sequence)")
TARGET = "skchange/base/base_detector.py + base_interval_scorer.py (public methods of the 7 detectors and 8 scorers)"


# ------------------------------------------------------------------------------------------------------------ object specs

class S:
    """Declarative constructor call: S("PELT", cost=S("L2Cost"), penalty_scale=1.0)."""

    def __init__(self, cls, **kw):
        self.cls, self.kw = cls, kw

    def with_(self, **kw):
        return S(self.cls, **{**self.kw, **kw})

    def with_path(self, path, value):
        head, _, rest = path.partition("__")
        if not rest:
            return self.with_(**{head: value})
        return self.with_(**{head: self.kw[head].with_path(rest, value)})


class Ref:
    """Reference to a shared instance of the pool."""

    def __init__(self, name):
        self.name = name


def classes():
    from skchange.anomaly_detectors import CAPA, MVCAPA, CircularBinarySegmentation, StatThresholdAnomaliser
    from skchange.anomaly_scores import L2Saving, LocalAnomalyScore, Saving
    from skchange.change_detectors import PELT, MovingWindow, SeededBinarySegmentation
    from skchange.change_scores import CUSUM, ChangeScore
    from skchange.costs import GaussianCovCost, GaussianVarCost, L2Cost
    return {c.__name__: c for c in (CAPA, MVCAPA, CircularBinarySegmentation, StatThresholdAnomaliser, L2Saving, LocalAnomalyScore,
                                    Saving, PELT, MovingWindow, SeededBinarySegmentation, CUSUM, ChangeScore, GaussianCovCost,
                                    GaussianVarCost, L2Cost)}


SCORERS = {"L2Cost", "GaussianVarCost", "GaussianCovCost", "CUSUM", "ChangeScore", "L2Saving", "Saving", "LocalAnomalyScore"}
COMPOSITE = {"ChangeScore", "Saving", "LocalAnomalyScore"}
FUNCS = {"np.mean": np.mean, "np.median": np.median}


def build(x, pool=None):
    if isinstance(x, S):
        return classes()[x.cls](**{k: build(v, pool) for k, v in x.kw.items()})
    if isinstance(x, Ref):
        return pool[x.name]
    if isinstance(x, str) and x in FUNCS:
        return FUNCS[x]
    return copy.deepcopy(x)


class Cfg:
    """One object configuration A plus the toggle that leads to configuration B."""

    def __init__(self, name, obj, toggle=None, quick=True):
        self.name, self.obj, self.toggle, self.quick = name, obj, toggle, quick
        self.cls = obj.cls
        self.is_scorer = obj.cls in SCORERS

    def spec(self, state):
        if state == "A" or self.toggle is None:
            return self.obj
        kind = self.toggle[0]
        if kind == "plain":
            return self.obj.with_(**self.toggle[1])
        if kind == "swap":
            return self.obj.with_(**{self.toggle[1]: self.toggle[2]})
        return self.obj.with_path(self.toggle[1], self.toggle[3])          # nested: (kind, path, vA, vB)

    def fresh(self, state):
        return build(self.spec(state))

    def start(self):
        """The history object (state A) and the persistent instances used by the swap toggle."""
        o = self.fresh("A")
        pool = {}
        if self.toggle and self.toggle[0] == "swap":
            pool["A"] = getattr(o, self.toggle[1])
            pool["B"] = build(self.toggle[2])
        return o, pool

    def setp(self, target, pool):
        kind = self.toggle[0]
        if kind == "plain":
            return copy.deepcopy(self.toggle[1]) if target == "B" else {k: build(self.obj.kw[k]) for k in self.toggle[1]}
        if kind == "swap":
            return {self.toggle[1]: pool[target]}
        return {self.toggle[1]: copy.deepcopy(self.toggle[3] if target == "B" else self.toggle[2])}


def detector_configs():
    L2, GV = S("L2Cost"), S("GaussianVarCost")
    mw = dict(bandwidth=2, threshold_scale=1.0, level=0.2, min_detection_interval=1)
    sbs = dict(threshold_scale=1.0, level=0.3, min_segment_length=1, max_interval_length=8, growth_factor=1.5)
    capa = dict(collective_penalty_scale=1.0, point_penalty_scale=1.0, min_segment_length=2, max_segment_length=8,
                ignore_point_anomalies=False)
    cbs = dict(threshold_scale=0.5, level=0.3, min_segment_length=2, max_interval_length=8, growth_factor=1.5)
    return [
        Cfg("PELT/plain", S("PELT", cost=L2, penalty_scale=1.0, min_segment_length=1), ("plain", {"min_segment_length": 2})),
        Cfg("PELT/swap", S("PELT", cost=L2, penalty_scale=1.0, min_segment_length=2), ("swap", "cost", GV), quick=False),
        # a cost whose min_size is FITTED state (p + 1): a fit on the two-column data set must leave no trace when the one-column one is scored
        Cfg("PELT/GaussianCovCost", S("PELT", cost=S("GaussianCovCost", param=None), penalty_scale=1.0, min_segment_length=2),
            ("plain", {"penalty_scale": 0.5})),
        Cfg("PELT/nested", S("PELT", cost=L2, penalty_scale=1.0, min_segment_length=1), ("nested", "cost__param", None, 0.5), quick=False),
        Cfg("PELT/default-cost", S("PELT", cost=None, penalty_scale=1.0, min_segment_length=2), ("plain", {"penalty_scale": 0.2}),
            quick=False),
        Cfg("MovingWindow/tuned", S("MovingWindow", change_score=L2, **{**mw, "threshold_scale": None}), ("plain", {"bandwidth": 3})),
        Cfg("MovingWindow/swap", S("MovingWindow", change_score=S("CUSUM"), **{**mw, "bandwidth": 3}),
            ("swap", "change_score", S("ChangeScore", cost=GV)), quick=False),
        Cfg("SeededBinarySegmentation/tuned", S("SeededBinarySegmentation", change_score=S("CUSUM"), **{**sbs, "threshold_scale": None}),
            ("plain", {"min_segment_length": 2})),
        Cfg("SeededBinarySegmentation/nested", S("SeededBinarySegmentation", change_score=L2, **sbs),
            ("nested", "change_score__param", None, 0.5)),
        # two levels down: the cost inside the change score inside the detector
        Cfg("MovingWindow/nested2", S("MovingWindow", change_score=S("ChangeScore", cost=L2), **mw),
            ("nested", "change_score__cost__param", None, 0.5)),
        Cfg("CAPA/nested", S("CAPA", collective_saving=S("L2Cost", param=0.0), point_saving=S("L2Cost", param=0.0), **capa),
            ("nested", "collective_saving__param", 0.0, 0.5)),
        Cfg("CAPA/default-savings", S("CAPA", collective_saving=None, point_saving=None, **capa),
            ("plain", {"collective_penalty_scale": 3.0}), quick=False),
        Cfg("MVCAPA/plain", S("MVCAPA", collective_saving=None, point_saving=None, collective_penalty="combined", point_penalty="sparse",
                              **capa), ("plain", {"collective_penalty": "sparse", "min_segment_length": 3})),
        Cfg("MVCAPA/swap", S("MVCAPA", collective_saving=S("L2Saving"), point_saving=S("L2Saving"), collective_penalty="combined",
                             point_penalty="sparse", **capa), ("swap", "collective_saving", S("L2Cost", param=0.5)), quick=False),
        Cfg("CircularBinarySegmentation/nested", S("CircularBinarySegmentation", anomaly_score=L2, **cbs),
            ("nested", "anomaly_score__param", None, 1.0)),
        Cfg("CircularBinarySegmentation/tuned", S("CircularBinarySegmentation", anomaly_score=S("LocalAnomalyScore", cost=L2),
                                                  **{**cbs, "threshold_scale": None}), ("plain", {"threshold_scale": 0.5}), quick=False),
        Cfg("StatThresholdAnomaliser/nested", S("StatThresholdAnomaliser", change_detector=S("MovingWindow", change_score=None, **mw),
                                                stat="np.mean", stat_lower=-1.0, stat_upper=1.0),
            ("nested", "change_detector__bandwidth", 2, 3)),
        Cfg("StatThresholdAnomaliser/plain", S("StatThresholdAnomaliser", change_detector=S("MovingWindow", change_score=None, **mw),
                                               stat="np.median", stat_lower=-1.0, stat_upper=1.0), ("plain", {"stat_upper": 20.0}),
            quick=False),
    ]


def scorer_configs():
    L2 = S("L2Cost", param=None)
    return [
        Cfg("L2Cost/plain", S("L2Cost", param=None), ("plain", {"param": 1.5})),
        Cfg("GaussianVarCost/plain", S("GaussianVarCost", param=None), ("plain", {"param": (0.75, 2.0)})),
        Cfg("GaussianCovCost/plain", S("GaussianCovCost", param=None), ("plain", {"param": (1.5, 1.0)})),
        # fixed parameters with a NON-ZERO mean from the start (a scorer that centres / rescales the caller's buffer in place is a no-op at 0)
        Cfg("GaussianCovCost/fixed-nonzero-mean", S("GaussianCovCost", param=(1.5, 2.0)), ("plain", {"param": None})),
        Cfg("GaussianVarCost/fixed-nonzero-mean", S("GaussianVarCost", param=(-1.25, 2.0)), ("plain", {"param": None})),
        Cfg("L2Cost/array-param", S("L2Cost", param=np.array([0.5])), ("plain", {"param": np.array([1.5])})),
        Cfg("GaussianVarCost/array-param", S("GaussianVarCost", param=None), ("plain", {"param": (np.array([0.0]), np.array([2.0]))})),
        Cfg("CUSUM", S("CUSUM"), None),
        Cfg("L2Saving", S("L2Saving"), None),
        Cfg("ChangeScore/swap", S("ChangeScore", cost=L2), ("swap", "cost", S("GaussianVarCost"))),
        Cfg("ChangeScore/nested", S("ChangeScore", cost=L2), ("nested", "cost__param", None, 1.0)),
        Cfg("Saving/nested", S("Saving", baseline_cost=S("L2Cost", param=0.0)), ("nested", "baseline_cost__param", 0.0, 2.0)),
        Cfg("Saving/swap", S("Saving", baseline_cost=S("L2Cost", param=0.0)), ("swap", "baseline_cost", S("GaussianVarCost", param=(0.0, 1.0)))),
        Cfg("LocalAnomalyScore/nested", S("LocalAnomalyScore", cost=L2), ("nested", "cost__param", None, 1.0)),
        Cfg("LocalAnomalyScore/swap", S("LocalAnomalyScore", cost=L2), ("swap", "cost", S("GaussianVarCost"))),
    ]


class Pair:
    def __init__(self, name, shared, a, b, quick=True, deep=False):
        self.name, self.shared, self.a, self.b, self.quick, self.deep = name, shared, a, b, quick, deep

    def objects(self):
        pool = {k: build(v) for k, v in self.shared.items()}
        return {"a": build(self.a, pool), "b": build(self.b, pool)}

    def fresh(self, who):
        pool = {k: build(v) for k, v in self.shared.items()}
        return build(self.a if who == "a" else self.b, pool)

    def cls(self, who):
        return (self.a if who == "a" else self.b).cls


def pair_configs():
    r = Ref("s")
    capa = dict(collective_penalty_scale=1.0, point_penalty_scale=1.0, min_segment_length=2, max_segment_length=8)
    cbs = dict(threshold_scale=0.5, min_segment_length=2, max_interval_length=8)
    sbs = dict(threshold_scale=1.0, min_segment_length=1, max_interval_length=8)
    pelt = dict(penalty_scale=1.0, min_segment_length=1)
    return [
        # detectors sharing one scorer instance
        Pair("PELT+CAPA/L2Cost(0)", {"s": S("L2Cost", param=0.0)}, S("PELT", cost=r, **pelt),
             S("CAPA", collective_saving=r, point_saving=r, **capa), deep=True),
        Pair("MovingWindow+SeededBinarySegmentation/CUSUM", {"s": S("CUSUM")}, S("MovingWindow", change_score=r, bandwidth=2, threshold_scale=None, level=0.2),
             S("SeededBinarySegmentation", change_score=r, **sbs), deep=True),
        Pair("CircularBinarySegmentation+PELT/L2Cost", {"s": S("L2Cost")}, S("CircularBinarySegmentation", anomaly_score=r, **cbs),
             S("PELT", cost=r, **pelt), deep=True),
        Pair("PELT+PELT/L2Cost", {"s": S("L2Cost")}, S("PELT", cost=r, **pelt), S("PELT", cost=r, penalty_scale=0.3, min_segment_length=2),
             quick=False),
        Pair("PELT+PELT/GaussianCovCost", {"s": S("GaussianCovCost", param=None)}, S("PELT", cost=r, penalty_scale=1.0, min_segment_length=2),
             S("PELT", cost=r, penalty_scale=0.5, min_segment_length=3)),
        Pair("CAPA+MVCAPA/L2Saving", {"s": S("L2Saving")}, S("CAPA", collective_saving=r, point_saving=r, **capa),
             S("MVCAPA", collective_saving=r, point_saving=r, **capa), quick=False),
        Pair("MovingWindow+SeededBinarySegmentation/ChangeScore", {"s": S("ChangeScore", cost=S("L2Cost"))},
             S("MovingWindow", change_score=r, bandwidth=2, threshold_scale=1.0), S("SeededBinarySegmentation", change_score=r, **{**sbs, "threshold_scale": None, "level": 0.3}),
             quick=False),
        Pair("MovingWindow+PELT/GaussianVarCost", {"s": S("GaussianVarCost")}, S("MovingWindow", change_score=r, bandwidth=3, threshold_scale=None, level=0.2),
             S("PELT", cost=r, penalty_scale=1.0, min_segment_length=2), quick=False),
        Pair("StatThresholdAnomaliser+MovingWindow/CUSUM", {"s": S("CUSUM")},
             S("StatThresholdAnomaliser", change_detector=S("MovingWindow", change_score=r, bandwidth=2, threshold_scale=1.0)),
             S("MovingWindow", change_score=r, bandwidth=3, threshold_scale=None, level=0.2), quick=False),
        # two anomalisers wrapping ONE change detector instance (each fits its own clone: what one learns must not reach the other)
        Pair("Anomaliser+Anomaliser/MovingWindow(tuned)", {"s": S("MovingWindow", change_score=None, bandwidth=2, threshold_scale=None, level=0.3, min_detection_interval=1)},
             S("StatThresholdAnomaliser", change_detector=r, stat="np.mean", stat_lower=-1.0, stat_upper=1.0),
             S("StatThresholdAnomaliser", change_detector=r, stat="np.median", stat_lower=-0.5, stat_upper=2.0)),
        # composite scorers sharing one cost instance (with each other / with a detector)
        Pair("ChangeScore+ChangeScore/L2Cost", {"s": S("L2Cost")}, S("ChangeScore", cost=r), S("ChangeScore", cost=r), deep=True),
        Pair("ChangeScore+PELT/L2Cost", {"s": S("L2Cost")}, S("ChangeScore", cost=r), S("PELT", cost=r, **pelt), quick=False, deep=True),
        Pair("Saving+CAPA/L2Cost(0)", {"s": S("L2Cost", param=0.0)}, S("Saving", baseline_cost=r),
             S("CAPA", collective_saving=r, point_saving=r, **capa), quick=False, deep=True),
        Pair("LocalAnomalyScore+Saving/L2Cost(0)", {"s": S("L2Cost", param=0.0)}, S("LocalAnomalyScore", cost=r), S("Saving", baseline_cost=r)),
        Pair("LocalAnomalyScore+MovingWindow(tuned)/L2Cost", {"s": S("L2Cost")}, S("LocalAnomalyScore", cost=r),
             S("MovingWindow", change_score=r, bandwidth=2, threshold_scale=None, level=0.2)),
        Pair("ChangeScore+SeededBinarySegmentation(tuned)/GaussianVarCost", {"s": S("GaussianVarCost")}, S("ChangeScore", cost=r),
             S("SeededBinarySegmentation", change_score=r, **{**sbs, "threshold_scale": None, "level": 0.3, "min_segment_length": 2}), quick=False),
    ]


# ------------------------------------------------------------------------------------------------------------------- data

def datasets(seed):
    rng = np.random.default_rng(seed)
    a = np.round(np.r_[rng.normal(size=6), 8 + rng.normal(size=6)], 3).reshape(-1, 1)
    b = np.round(np.r_[rng.normal(size=(4, 2)), 6 + rng.normal(size=(4, 2)), rng.normal(size=(2, 2))], 3)
    c = np.round(40.0 * np.r_[3 + rng.normal(size=4), rng.normal(size=5)], 3).reshape(-1, 1)      # another length AND another scale (tuned thresholds differ by far)
    # D3: as many columns as D1 but another length (only ever the argument of the last call of a history)
    return {"D1": pd.DataFrame(a, columns=["x"]), "D2": pd.DataFrame(b, columns=["u", "v"]), "D3": pd.DataFrame(c, columns=["x"])}


def cuts_for(k):
    if k == 2:
        return {"cA": np.array([[0, 4], [3, 9]]), "cB": np.array([[1, 6], [5, 10], [0, 10]])}
    if k == 3:
        return {"cA": np.array([[0, 3, 7], [2, 6, 10]]), "cB": np.array([[1, 4, 8]])}
    return {"cA": np.array([[0, 3, 6, 9]]), "cB": np.array([[1, 4, 7, 10], [0, 2, 5, 8]])}


class Ctx:
    """The caller's data of one run: persistent frames / cuts handed to the objects under test, and pristine copies."""

    def __init__(self, seed):
        self.seed = seed
        self.pristine = datasets(seed)
        self.data = {k: v.copy() for k, v in self.pristine.items()}
        self.cuts0 = {k: cuts_for(k) for k in (2, 3, 4)}
        self.cuts = copy.deepcopy(self.cuts0)
        self.refs = {}

    def data_changed(self, arg):
        d, p = self.data[arg], self.pristine[arg]
        a, b = d.to_numpy(), p.to_numpy()
        ok = a.dtype == b.dtype and np.array_equal(a, b) and d.index.equals(p.index) and d.columns.equals(p.columns)
        if not ok:
            self.data[arg] = p.copy()
        return not ok

    def cuts_changed(self, k, arg):
        ok = np.array_equal(self.cuts[k][arg], self.cuts0[k][arg]) and self.cuts[k][arg].dtype == self.cuts0[k][arg].dtype
        if not ok:
            self.cuts[k][arg] = self.cuts0[k][arg].copy()
        return not ok


# --------------------------------------------------------------------------------------------------- outcomes, comparison

def ccol(s):
    if isinstance(s.dtype, pd.IntervalDtype):
        return [(iv.left, iv.right, iv.closed) for iv in s]
    if s.dtype.kind == "f":
        return np.asarray(s, dtype=float)
    if s.dtype == object:
        return [np.asarray(v).tolist() if isinstance(v, (np.ndarray, list, tuple)) else v for v in s]
    return s.tolist()


def canon(y):
    if isinstance(y, pd.DataFrame):
        return ("df", [str(c) for c in y.columns], [str(i) for i in y.index], [ccol(y.iloc[:, j]) for j in range(y.shape[1])])
    if isinstance(y, pd.Series):
        return ("s", str(y.name), [str(i) for i in y.index], ccol(y))
    if isinstance(y, np.ndarray):
        return ("a", np.asarray(y, dtype=float)) if y.dtype.kind in "fiub" else ("ao", y.tolist())
    if isinstance(y, (float, np.floating)):
        return ("a", np.asarray([y], dtype=float))
    return ("o", repr(y))


def fclose(a, b, tol=1e-8):
    if a.shape != b.shape:
        return False
    fa, fb = np.isfinite(a), np.isfinite(b)
    if not np.array_equal(fa, fb):
        return False
    if not np.array_equal(a[~fa], b[~fb], equal_nan=True):
        return False
    x, y = a[fa], b[fb]
    return bool(np.all(np.abs(x - y) <= tol * (1.0 + np.maximum(np.abs(x), np.abs(y)))))


def same(a, b):
    if isinstance(a, np.ndarray) or isinstance(b, np.ndarray):
        return isinstance(a, np.ndarray) and isinstance(b, np.ndarray) and fclose(a, b)
    if isinstance(a, (tuple, list)) and isinstance(b, (tuple, list)):
        return len(a) == len(b) and all(same(x, y) for x, y in zip(a, b))
    if isinstance(a, float) and isinstance(b, float):
        return fclose(np.array([a]), np.array([b]))
    return a == b


def outcome(f, *args):
    with warnings.catch_warnings():
        warnings.simplefilter("ignore")
        try:
            return ("val", canon(f(*args)))
        except Exception as e:       # noqa: BLE001
            return ("err", type(e).__name__)


def show(o):
    if o[0] == "err":
        return f"raises {o[1]}"
    c = o[1]
    if c[0] == "df":
        return "frame " + "; ".join(f"{n}={np.asarray(v).tolist() if isinstance(v, np.ndarray) else v}" for n, v in zip(c[1], c[3]))[:260]
    if c[0] == "s":
        return f"series {np.asarray(c[3]).tolist()}"[:260]
    return str(np.asarray(c[1]).tolist())[:260]


def pcanon(v):
    if hasattr(v, "get_params") and not isinstance(v, type):
        return ("obj", type(v).__name__)
    if isinstance(v, np.ndarray):
        return ("arr", v.dtype.str, v.tolist())
    if isinstance(v, (tuple, list)):
        return (type(v).__name__,) + tuple(pcanon(x) for x in v)
    if callable(v):
        return ("fn", getattr(v, "__name__", repr(v)))
    if isinstance(v, float) and np.isnan(v):
        return "nan"
    return v


def params_of(o):
    return {k: pcanon(v) for k, v in o.get_params(deep=True).items()}


OBSERVERS = ("predict", "transform", "transform_scores", "evaluate")


def apply(o, op, arg, ctx, known=None):
    """Run one data-taking call on the persistent caller data; returns (outcome, modification complaints, params after).

    `known` is the get_params() snapshot taken after the previous call on the same object (saves one get_params per call).
    """
    before = known if known is not None else params_of(o)
    complaints = []
    if op == "evaluate":
        k = o.expected_cut_entries
        out = outcome(o.evaluate, ctx.cuts[k][arg])
        if ctx.cuts_changed(k, arg):
            complaints.append(("modifies-data", f"{type(o).__name__}.evaluate changed the caller's cuts array"))
    else:
        out = outcome((lambda X: (o.fit(X), None)[1]) if op == "fit" else getattr(o, op), ctx.data[arg])
        if ctx.data_changed(arg):
            complaints.append(("modifies-data", f"{type(o).__name__}.{op} changed the caller's data frame {arg}"))
    after = params_of(o)
    if after != before:
        diff = [k for k in set(before) | set(after) if before.get(k) != after.get(k)]
        complaints.append(("modifies-params", f"{type(o).__name__}.{op} changed get_params() entries {sorted(diff)}"))
    return out, complaints, after


# ------------------------------------------------------------------------------------------------- part H: single objects

def reference(ctx, cfg, state, fitted, op, arg):
    key = (cfg.name, state, fitted, op, arg)
    if key not in ctx.refs:
        with warnings.catch_warnings():
            warnings.simplefilter("ignore")
            o = cfg.fresh(state)
            res = None
            if fitted is not None:
                r = outcome(o.fit, ctx.pristine[fitted].copy())
                if r[0] == "err":
                    res = ("fiterr", r[1])
            if res is None:
                if op == "fit":
                    res = ("val", None)
                elif op == "evaluate":
                    res = outcome(o.evaluate, cuts_for(o.expected_cut_entries)[arg])
                else:
                    res = outcome(getattr(o, op), ctx.pristine[arg].copy())
        ctx.refs[key] = res
    return ctx.refs[key]


class Buffer:
    """Collects violations so that the shortest failing input of each key is the one stored by the Recorder."""

    def __init__(self):
        self.items = []

    def add(self, key, what, clause, inp, size):
        self.items.append((size, len(self.items), key, what, clause, inp))

    def flush(self, rec):
        for size, _, key, what, clause, inp in sorted(self.items, key=lambda t: (t[0], t[1])):
            rec.violation(key, what, clause, inp)


def hkey(cfg, prefix):
    ops = [h[0] for h in prefix]
    if "set_params" in ops:
        return f"{cfg.cls}:set_params[{cfg.toggle[0]}]"
    if "clone" in ops or "construct" in ops:
        return f"{cfg.cls}:{'clone' if 'clone' in ops else 'construct'}"
    return f"{cfg.cls}:call-history"


def run_history(ctx, cfg, hist, seen, rec, buf):
    """Execute one history on a new object; check every prefix not seen before."""
    with warnings.catch_warnings():
        warnings.simplefilter("ignore")
        o, pool = cfg.start()
    state, fitted, loose, known = "A", None, None, None
    for i, (op, arg) in enumerate(hist):
        prefix = tuple(hist[:i + 1])
        new = prefix not in seen
        seen.add(prefix)
        inp = {"kind": "history", "config": cfg.name, "history": [list(h) for h in prefix], "seed": ctx.seed}
        desc = f"{cfg.name}: " + " -> ".join(f"{a}({b})" if b else a for a, b in prefix)
        if op in ("construct", "clone", "set_params"):
            try:
                with warnings.catch_warnings():
                    warnings.simplefilter("ignore")
                    if op == "construct":
                        o = type(o)(**o.get_params(deep=False))
                    elif op == "clone":
                        o = o.clone()
                    else:
                        target = "B" if state == "A" else "A"
                        o.set_params(**cfg.setp(target, pool))
                        state = target
            except Exception as e:      # noqa: BLE001
                if new:
                    rec.case((cfg.name, prefix), False)
                    buf.add(f"{cfg.cls}:{op}-raises", f"{desc}: {op} raised {type(e).__name__} ({e}); a fresh object with these "
                            "hyper-parameters constructs fine", "C10.fresh-equivalence", inp, len(prefix))
                return
            loose = fitted if op == "set_params" and fitted is not None else (loose if op == "set_params" else None)
            fitted, known = None, None
            if new:
                rec.case((cfg.name, prefix), False)
            continue
        out, complaints, known = apply(o, op, arg, ctx, known)
        for kind, msg in complaints:
            buf.add(f"{cfg.cls}:{op}:{kind}", f"{desc}: {msg}", "C10.no-modification", inp, len(prefix))
        if op == "fit":
            exp = reference(ctx, cfg, state, arg, "fit", None)
            bad = (out[0] == "err") != (exp[0] == "fiterr") or (out[0] == "err" and out[1] != exp[1])
            if bad and new:
                buf.add(hkey(cfg, prefix), f"{desc}: fit {show(out) if out[0] == 'err' else 'succeeds'}, but on a fresh object fit "
                        f"{'raises ' + exp[1] if exp[0] == 'fiterr' else 'succeeds'}", "C10.fresh-equivalence", inp, len(prefix))
            if new:
                rec.case((cfg.name, prefix), False)
            if out[0] == "err":
                return
            fitted, loose = arg, None
            continue
        # observers
        if fitted is not None:
            exp = reference(ctx, cfg, state, fitted, op, arg)
            ok = same(out, exp)
        else:
            exp = ("err", "NotFittedError")
            ok = same(out, exp) or (loose is not None and same(out, reference(ctx, cfg, state, loose, op, arg)))
        if new:
            nontrivial = out[0] == "val" and fitted is not None and i >= 2
            rec.case((cfg.name, prefix), nontrivial, {"config": cfg.name, "history": [list(h) for h in prefix]} if nontrivial and i >= 2 else None)
            if not ok:
                buf.add(hkey(cfg, prefix), f"{desc}: last call gives {show(out)}; a fresh {cfg.cls} configured the same way"
                        f"{' and fitted on ' + fitted if fitted else ' (not fitted)'} gives {show(exp)}", "C10.history-independence", inp, len(prefix))


def alphabet(cfg):
    """(interior symbols, symbols that only need to appear last)."""
    base = [("construct", None), ("clone", None)] + ([("set_params", None)] if cfg.toggle else [])
    base += [("fit", "D1"), ("fit", "D2")]
    if cfg.is_scorer:
        return base + [("evaluate", "cA"), ("evaluate", "cB")], []
    obs = [(m, d) for m in ("predict", "transform_scores") for d in ("D1", "D2")]
    return base + obs, [("transform", "D1"), ("transform", "D2")]


def histories(cfg, L, transform_interior):
    interior, last_only = alphabet(cfg)
    if transform_interior:
        interior, last_only = interior + last_only, []
    for h in itertools.product(interior, repeat=L):
        yield list(h)
    for k in range(1, L + 1):
        for h in itertools.product(interior, repeat=k - 1):
            for z in last_only:
                yield list(h) + [z]
    if not cfg.is_scorer:
        # a third dataset (D1's width, another length) as the argument of the last call: what was learnt from D1 must not depend on
        # calls on data of another width in between
        for k in range(2, L + 1):
            for h in itertools.product(interior, repeat=k - 1):
                if any(op == "fit" for op, _ in h):
                    for z in (("predict", "D3"), ("transform_scores", "D3")):
                        yield list(h) + [z]


# --------------------------------------------------------------------------------------------------------- part P: pairs

def pair_reference(ctx, pair, who, fitted, op, arg):
    key = ("pair", pair.name, who, fitted, op, arg)
    if key not in ctx.refs:
        with warnings.catch_warnings():
            warnings.simplefilter("ignore")
            o = pair.fresh(who)
            res = None
            if fitted is not None:
                r = outcome(o.fit, ctx.pristine[fitted].copy())
                if r[0] == "err":
                    res = ("fiterr", r[1])
            if res is None:
                if op == "fit":
                    res = ("val", None)
                elif op == "evaluate":
                    res = outcome(o.evaluate, cuts_for(o.expected_cut_entries)[arg])
                else:
                    res = outcome(getattr(o, op), ctx.pristine[arg].copy())
        ctx.refs[key] = res
    return ctx.refs[key]


def pair_alphabet(pair, with_scores):
    out = []
    uni = "Anomaliser" in pair.name          # univariate-only objects: the second data set is D3 (another length, one column) instead of D2
    if uni:
        return [(who, op, d) for who in ("a", "b") for op, d in (("fit", "D1"), ("fit", "D3"), ("predict", "D1"), ("predict", "D3"))]
    for who in ("a", "b"):
        out += [(who, "fit", "D1"), (who, "fit", "D2")]
        if pair.cls(who) in SCORERS:
            out += [(who, "evaluate", "cA")]
        else:
            out += [(who, "predict", "D1"), (who, "predict", "D2")]
            if with_scores:
                out += [(who, "transform_scores", "D1"), (who, "transform_scores", "D2")]
    return out


def run_pair_history(ctx, pair, hist, seen, rec, buf):
    with warnings.catch_warnings():
        warnings.simplefilter("ignore")
        objs = pair.objects()
    fitted = {"a": None, "b": None}
    known = {"a": None, "b": None}
    for i, (who, op, arg) in enumerate(hist):
        prefix = tuple(hist[:i + 1])
        new = prefix not in seen
        seen.add(prefix)
        o = objs[who]
        cls = pair.cls(who)
        inp = {"kind": "pair", "pair": pair.name, "history": [list(h) for h in prefix], "seed": ctx.seed}
        desc = f"{pair.name}: " + " -> ".join(f"{w}.{a}({b})" for w, a, b in prefix)
        key = f"{cls}:shared-cost-instance" if cls in COMPOSITE else f"{cls}:shared-scorer-instance"
        out, complaints, known[who] = apply(o, op, arg, ctx, known[who])
        for kind, msg in complaints:
            buf.add(f"{cls}:{op}:{kind}", f"{desc}: {msg}", "C10.no-modification", inp, len(prefix))
        if op == "fit":
            exp = pair_reference(ctx, pair, who, arg, "fit", None)
            if ((out[0] == "err") != (exp[0] == "fiterr")) and new:
                buf.add(key, f"{desc}: fit {show(out) if out[0] == 'err' else 'succeeds'} but a fresh unshared {cls} "
                        f"{'raises ' + exp[1] if exp[0] == 'fiterr' else 'fits fine'}", "C10.sharing", inp, len(prefix))
            if new:
                rec.case((pair.name, prefix), False)
            if out[0] == "err":
                return
            fitted[who] = arg
            continue
        exp = pair_reference(ctx, pair, who, fitted[who], op, arg) if fitted[who] else ("err", "NotFittedError")
        if new:
            other_used = any(w != who for w, _, _ in prefix)
            nontrivial = out[0] == "val" and fitted[who] is not None and (other_used or i >= 2)
            rec.case((pair.name, prefix), nontrivial, {"pair": pair.name, "history": [list(h) for h in prefix]} if nontrivial and other_used else None)
            if not same(out, exp):
                buf.add(key, f"{desc}: last call gives {show(out)}; an unshared fresh {cls}"
                        f"{' fitted on ' + fitted[who] if fitted[who] else ' (not fitted)'} gives {show(exp)}", "C10.sharing", inp, len(prefix))


# -------------------------------------------------------------------------------------------------------- part U: update

def update_data(seed, p, container, index):
    rng = np.random.default_rng(seed + 100)
    u = np.round(np.r_[rng.normal(size=(8, p)), 7 + rng.normal(size=(5, p)), rng.normal(size=(3, p))], 3)
    idx = pd.RangeIndex(16) if index == "range" else pd.date_range("2021-03-01", periods=16, freq="D")
    if container == "series":
        return pd.Series(u[:, 0], index=idx, name="x")
    return pd.DataFrame(u, index=idx, columns=[f"c{j}" for j in range(p)])


UPDATE_SCRIPTS = {
    "fit-update": (["fit:X1", "update:X2"], 12),
    "fit-update-update": (["fit:X1", "update:X2", "update:X3"], 16),
    "earlier-fit-predict-update": (["fit:other", "fit:X1", "predict:X1", "update:X2"], 12),
    "update-predict-update": (["fit:X1", "update:X2", "predict:other", "transform_scores:X1", "update:X3"], 16),
}


def fitted_numbers(o):
    out = {}
    try:
        fp = o.get_fitted_params()
    except Exception:        # noqa: BLE001
        return out
    for k, v in fp.items():
        if any(part.startswith("_") for part in k.split("__")):
            continue            # left-over state of private scorer components is not a fitted parameter of the detector
        if isinstance(v, (int, float, np.integer, np.floating)):
            out[k] = float(v)
        elif isinstance(v, np.ndarray) and v.dtype.kind in "fi":
            out[k] = v.astype(float)
    return out


def run_update(ctx, cfg, script, p, container, index, rec, buf, quick=False):
    steps, upto = UPDATE_SCRIPTS[script]
    U = update_data(ctx.seed, p, container, index)
    parts = {"X1": U.iloc[:8], "X2": U.iloc[8:12], "X3": U.iloc[12:16], "other": ctx.pristine["D1" if p == 2 else "D2"].copy()}
    pristine = {k: v.copy() for k, v in parts.items()}
    inp = {"kind": "update", "config": cfg.name, "script": script, "p": p, "container": container, "index": index, "seed": ctx.seed}
    desc = f"{cfg.name} [{container}, p={p}, {index} index]: {' -> '.join(steps)}"
    with warnings.catch_warnings():
        warnings.simplefilter("ignore")
        o = cfg.fresh("A")
        f = cfg.fresh("A")
        before = params_of(o)
        for st in steps:
            m, a = st.split(":")
            r = outcome(getattr(o, m), parts[a])
            if r[0] == "err" and m in ("fit", "update"):
                rf = outcome(f.fit, U.iloc[:upto].copy())
                rec.case((cfg.name, script, p, container, index), False)
                if rf[0] != "err":
                    buf.add(f"{cfg.cls}:update", f"{desc}: {m} raised {r[1]} while fit on the combined data succeeds", "C10.update", inp, len(steps))
                return
        for k in parts:
            a, b = parts[k], pristine[k]
            if not (a.shape == b.shape and list(a.index) == list(b.index) and np.array_equal(np.asarray(a), np.asarray(b))):
                buf.add(f"{cfg.cls}:update:modifies-data", f"{desc}: the caller's {k} was modified", "C10.no-modification", inp, len(steps))
        if params_of(o) != before:
            buf.add(f"{cfg.cls}:update:modifies-params", f"{desc}: get_params() changed", "C10.no-modification", inp, len(steps))
        rf = outcome(f.fit, U.iloc[:upto].copy())
        if rf[0] == "err":
            rec.case((cfg.name, script, p, container, index), False)
            buf.add(f"{cfg.cls}:update", f"{desc}: update succeeded although fit on the combined data raises {rf[1]}", "C10.update", inp, len(steps))
            return
        bad = []
        fo, ff = fitted_numbers(o), fitted_numbers(f)
        for k in sorted(set(fo) | set(ff)):
            if k not in fo or k not in ff or not same(np.atleast_1d(fo[k]), np.atleast_1d(ff[k])):
                bad.append(f"fitted parameter {k}: {fo.get(k)} vs {ff.get(k)}")
        queries = {"all": U, "X2": U.iloc[8:12]}
        if not quick:
            queries.update({"combined": U.iloc[:upto], "other": parts["other"]})
        for m in ("predict", "transform", "transform_scores"):
            for qn, q in queries.items():
                ro, rf_ = outcome(getattr(o, m), q.copy()), outcome(getattr(f, m), q.copy())
                if not same(ro, rf_):
                    bad.append(f"{m}({qn}): {show(ro)} vs {show(rf_)}")
    rec.case((cfg.name, script, p, container, index), True, inp if script == "fit-update-update" and container == "frame" and p == 1 else None)
    if bad:
        buf.add(f"{cfg.cls}:update", f"{desc} differs from fit on the {upto} combined rows: " + " | ".join(bad[:3]), "C10.update", inp, len(steps))


# ---------------------------------------------------------------------------------------------------- part N: containers

CONTAINERS = ["frame-float", "frame-int", "series", "ndarray-2d", "ndarray-1d", "ndarray-fortran", "ndarray-int"]


def container_data(seed, p, kind):
    rng = np.random.default_rng(seed + 200)
    u = np.round(np.r_[rng.normal(size=(6, p)), 9 + rng.normal(size=(6, p))], 2)
    if "int" in kind:
        u = np.round(u * 10).astype(np.int64)
    if kind.startswith("frame"):
        return pd.DataFrame(u, columns=[f"c{j}" for j in range(p)])
    if kind == "series":
        return pd.Series(u[:, 0], name="x")
    if kind == "ndarray-1d":
        return u[:, 0].copy()
    if kind == "ndarray-fortran":
        return np.asfortranarray(u)
    return u.copy()


def snapshot(x):
    if isinstance(x, (pd.DataFrame, pd.Series)):
        return (type(x).__name__, x.shape, list(x.index), str(getattr(x, "dtypes", None) if isinstance(x, pd.DataFrame) else x.dtype),
                np.asarray(x).copy(), list(x.columns) if isinstance(x, pd.DataFrame) else x.name)
    return (type(x).__name__, x.shape, x.dtype.str, x.copy(), x.flags["F_CONTIGUOUS"], x.flags["C_CONTIGUOUS"])


def snap_equal(a, b):
    return len(a) == len(b) and all(np.array_equal(x, y) if isinstance(x, np.ndarray) else x == y for x, y in zip(a, b))


def run_container(ctx, cfg, p, kind, rec, buf):
    X = container_data(ctx.seed, p, kind)
    snap = snapshot(X)
    inp = {"kind": "container", "config": cfg.name, "p": p, "container": kind, "seed": ctx.seed}
    with warnings.catch_warnings():
        warnings.simplefilter("ignore")
        o = cfg.fresh("A")
        calls = [("fit", X)]
        if cfg.is_scorer:
            c = cuts_for(o.expected_cut_entries)
            calls += [("evaluate", c["cA"].copy()), ("evaluate", c["cB"].tolist()), ("evaluate", c["cB"].copy())]
        else:
            calls += [("predict", X), ("transform", X), ("transform_scores", X), ("fit", X), ("predict", X)]
        for ci, (m, arg) in enumerate(calls):
            before = params_of(o)
            asnap = snapshot(arg) if isinstance(arg, np.ndarray) and arg is not X else None
            alist = copy.deepcopy(arg) if isinstance(arg, list) else None
            r = outcome(getattr(o, m), arg)
            rec.case((cfg.name, "container", p, kind, ci, m), r[0] == "val")
            desc = f"{cfg.name}.{m} on a {kind} (12 x {p})"
            if not snap_equal(snapshot(X), snap):
                buf.add(f"{cfg.cls}:{m}:modifies-data", f"{desc}: the caller's data changed", "C10.no-modification", inp, 1)
                return
            if asnap is not None and not snap_equal(snapshot(arg), asnap) or alist is not None and alist != arg:
                buf.add(f"{cfg.cls}:{m}:modifies-data", f"{desc}: the caller's cuts changed", "C10.no-modification", inp, 1)
                return
            if params_of(o) != before:
                buf.add(f"{cfg.cls}:{m}:modifies-params", f"{desc}: get_params() changed", "C10.no-modification", inp, 1)
                return


# ------------------------------------------------------------------------------------------------------------------- run

def all_configs():
    return {c.name: c for c in detector_configs() + scorer_configs()}


def run(tier="quick", seed=0, repo="/repo"):
    use_repo(repo)
    quick = tier == "quick"
    rec = Recorder(target=TARGET)
    buf = Buffer()
    ctx = Ctx(seed)
    timing = {}
    L = 3 if quick else 4
    t0 = time.time()
    # H: detectors
    for cfg in detector_configs():
        if quick and not cfg.quick:
            continue
        seen = set()
        # quick: full alphabet at length 3.  thorough: length 4 with transform as last call only for the main configurations,
        # length 3 with the full alphabet for all configurations.
        plans = [(3, True)] if (quick or not cfg.quick) else [(3, True), (4, False)]
        for length, full in plans:
            for h in histories(cfg, length, full):
                if tuple(h) in seen:
                    continue
                run_history(ctx, cfg, h, seen, rec, buf)
    timing["H-detectors"] = round(time.time() - t0, 1)
    t0 = time.time()
    # H: scorers
    for cfg in scorer_configs():
        seen = set()
        for h in histories(cfg, L, True):
            if tuple(h) in seen:
                continue
            run_history(ctx, cfg, h, seen, rec, buf)
    timing["H-scorers"] = round(time.time() - t0, 1)
    t0 = time.time()
    # P: pairs
    for pair in pair_configs():
        if quick and not pair.quick:
            continue
        seen = set()
        length = 3 if (quick or not pair.deep) else 4
        alpha = pair_alphabet(pair, with_scores=(not quick and not pair.deep))
        for h in itertools.product(alpha, repeat=length):
            if tuple(h) in seen:
                continue
            run_pair_history(ctx, pair, list(h), seen, rec, buf)
    timing["P-pairs"] = round(time.time() - t0, 1)
    t0 = time.time()
    # U: update
    for cfg in detector_configs():
        if quick and not cfg.quick:
            continue
        for script in UPDATE_SCRIPTS:
            for p, container in ((1, "frame"), (2, "frame"), (1, "series")):
                for index in ("range", "datetime"):
                    if quick and index == "datetime" and script != "fit-update":
                        continue
                    run_update(ctx, cfg, script, p, container, index, rec, buf, quick)
    timing["U-update"] = round(time.time() - t0, 1)
    t0 = time.time()
    # N: containers
    for cfg in detector_configs() + scorer_configs():
        if quick and not cfg.quick:
            continue
        for kind in CONTAINERS:
            for p in (1, 2):
                if p == 2 and kind in ("series", "ndarray-1d"):
                    continue
                run_container(ctx, cfg, p, kind, rec, buf)
    timing["N-containers"] = round(time.time() - t0, 1)
    buf.flush(rec)
    nd = sum(1 for c in detector_configs() if c.quick or not quick)
    npairs = sum(1 for c in pair_configs() if c.quick or not quick)
    bound = (f"histories of length <= {L} over construct/clone/set_params/fit(D1|D2)/predict|transform|transform_scores(D1|D2) "
             f"[scorers: evaluate(2 cut sets)] on {nd} detector and {len(scorer_configs())} scorer configurations (7 detector, 8 scorer "
             f"classes); {npairs} sharing pairs, interleavings of length <= {3 if quick else 4}; {len(UPDATE_SCRIPTS)} update scripts x 3 "
             f"pandas containers x 2 index types; {len(CONTAINERS)} containers; D1 12x1, D2 10x2, D3 9x1 (last call of a detector history only)"
             + ("" if quick else "; length-4 detector histories keep transform as the last call only and run on the 7 main "
                "configurations, length 3 has the full alphabet on all; length-4 interleavings on the 6 'deep' pairs"))
    return rec.result(RULE, bound, exhaustive=True, timing=timing)


def replay(inp, repo="/repo"):
    use_repo(repo)
    rec, buf, ctx = Recorder(), Buffer(), Ctx(inp.get("seed", 0))
    kind = inp["kind"]
    if kind == "history":
        cfg = all_configs()[inp["config"]]
        run_history(ctx, cfg, [tuple(h) for h in inp["history"]], set(), rec, buf)
    elif kind == "pair":
        pair = {p.name: p for p in pair_configs()}[inp["pair"]]
        run_pair_history(ctx, pair, [tuple(h) for h in inp["history"]], set(), rec, buf)
    elif kind == "update":
        run_update(ctx, all_configs()[inp["config"]], inp["script"], inp["p"], inp["container"], inp["index"], rec, buf)
    else:
        run_container(ctx, all_configs()[inp["config"]], inp["p"], inp["container"], rec, buf)
    buf.flush(rec)
    return {"violated": bool(rec.violations), "detail": rec.violations[0]["what"] if rec.violations else "holds"}
