"""C06 bounded stand-in: scores derived from costs equal their defining cost differences.

Scope: data matrices with 2 <= n <= 8 rows and 1 <= p <= 3 columns (seeded; a continuous "normal" family whose
variances / covariance eigenvalues are far above the 1e-16 floor, and a "grid" family of multiples of 1/4 for the
squared-error scores), EVERY admissible 3-point cut (s,k,e), 2-point cut (s,e) and 4-point cut (s,a,b,e) of each matrix, and
every composition <adapter>(<cost>) of ChangeScore / Saving / LocalAnomalyScore (also through to_change_score / to_saving /
to_local_anomaly_score) with the three built-in costs (optimal and scalar / per-column / matrix fixed parameters) and three
user-defined costs (BaseCost subclasses: an L1 cost, a multivariate min_size-2 functional of the rows, and a table-valued
cost).  The expected value is computed from the statement: differences of the cost's DIRECT definition (row by row,
runtime/oracles.py, or the defining python function of the user cost).  Directly implemented scores: CUSUM**2 against the
squared-error change score, L2Saving against the saving of the squared-error cost with baseline mean 0 (both against the
real twin object and against the oracle).  Inequalities (built-in costs, normal family, every cut): change scores and
savings >= 0, optimal <= fixed for every fixed parameter, split inequality; "up to rounding" = 1e-8 * (1 + sum |terms|).

Multivariate Gaussian slices whose covariance determinant is below 1e-9 * prod(diag) are skipped (quantifier: eigenvalues
well above the floor); univariate Gaussian column-slices with variance below 1e-6 are skipped.
"""
from __future__ import annotations

import itertools

import numpy as np

from runtime import oracles
from runtime.common import Recorder, close, use_repo

RULE = ("all admissible cuts of each data matrix per composition adapter(cost[param]); a case is one (composition, data, cut) "
        "identity or one (cost, data, cut) inequality; non-trivial when the expected score is not ~0 (|v| > 1e-9; e.g. the change "
        "score of a fixed-parameter cost is identically 0) resp. when the inequality's slack is not ~0; "
        "distinct = (check, composition, data label, cut)")


# -------------------------------------------------------------------------------------------------- user-defined costs
def l1_def(x, param=None):
    """User cost 1 (univariate, min_size 1): sum of absolute deviations from the column median / from a fixed location."""
    x = np.asarray(x, dtype=float)
    loc = np.median(x, axis=0) if param is None else np.broadcast_to(np.asarray(param, dtype=float).reshape(-1), (x.shape[1],))
    return np.abs(x - loc).sum(axis=0)


def weird_def(x, param=None):
    """User cost 2 (multivariate, min_size 2): an arbitrary position-dependent functional of the rows (one value)."""
    x = np.asarray(x, dtype=float)
    w = np.arange(1, x.shape[0] + 1).reshape(-1, 1)
    base = float(np.sum(np.sin(x * w)) + (x[-1].sum() - x[0, 0]) ** 2 + 0.5 * x.shape[0] ** 2)
    if param is not None:
        base = base * 0.5 + float(param) * x.shape[0] + float(np.sum(np.cos(x[:, 0] + float(param))))
    return np.array([base])


def user_cost_classes():
    """BaseCost subclasses bound to the currently imported skchange (call after use_repo)."""
    from skchange.costs.base import BaseCost

    class L1Cost(BaseCost):
        def __init__(self, param=None):
            super().__init__(param)

        def _fit(self, X, y=None):
            self.data_ = np.asarray(X, dtype=float).reshape(len(X), -1)
            return self

        def _evaluate_optim_param(self, starts, ends):
            return np.array([l1_def(self.data_[s:e], None) for s, e in zip(starts, ends)]).reshape(len(starts), -1)

        def _evaluate_fixed_param(self, starts, ends):
            return np.array([l1_def(self.data_[s:e], self.param) for s, e in zip(starts, ends)]).reshape(len(starts), -1)

    class WeirdCost(BaseCost):
        evaluation_type = "multivariate"

        def __init__(self, param=None):
            super().__init__(param)

        @property
        def min_size(self):
            return 2

        def _fit(self, X, y=None):
            self.data_ = np.asarray(X, dtype=float).reshape(len(X), -1)
            return self

        def _evaluate_optim_param(self, starts, ends):
            return np.array([weird_def(self.data_[s:e], None) for s, e in zip(starts, ends)]).reshape(len(starts), 1)

        def _evaluate_fixed_param(self, starts, ends):
            return np.array([weird_def(self.data_[s:e], self.param) for s, e in zip(starts, ends)]).reshape(len(starts), 1)

    class TableCost(BaseCost):
        """Table-valued: value of [s,e) is table[mode][s][e] (mode 0 = optimal, 1 = fixed), whatever the data."""

        def __init__(self, param=None, table=None, msize=1):
            self.table = table
            self.msize = msize
            super().__init__(param)

        @property
        def min_size(self):
            return self.msize

        def _fit(self, X, y=None):
            return self

        def _evaluate_optim_param(self, starts, ends):
            return np.asarray(self.table, dtype=float)[0][starts, ends]

        def _evaluate_fixed_param(self, starts, ends):
            return np.asarray(self.table, dtype=float)[1][starts, ends]

    return L1Cost, WeirdCost, TableCost


# ---------------------------------------------------------------------------------------------------- cost catalogue
def gcov_def(x, param=None):
    """Direct multivariate Gaussian cost; None when the slice's covariance is not clearly positive definite."""
    x = np.asarray(x, dtype=float)
    if param is None:
        xc = x - x.mean(axis=0)
        cov = xc.T @ xc / x.shape[0]
        if not np.linalg.det(cov) > 1e-9 * np.prod(np.diag(cov)):
            return None
    return oracles.gaussian_cov_cost(x, param)


def gvar_def(x, param=None):
    x = np.asarray(x, dtype=float)
    if param is None and np.any(oracles.rss(x) / x.shape[0] < 1e-6):
        return None
    return oracles.gaussian_var_cost(x, param)


def table_for(n, q, seed):
    rng = np.random.default_rng(seed)
    return np.round(rng.normal(size=(2, n + 1, n + 1, q)) * 3, 3)


def cost_catalogue(n, p, rng, tier):
    """List of dicts: name, make(jparam)->cost object, define(x, jparam)->row or None, m (min size), q (columns), builtin,
    data_functional (usable by LocalAnomalyScore), params: list of (kind, jparam) with jparam JSON-able."""
    from skchange.costs import GaussianCovCost, GaussianVarCost, L2Cost
    L1Cost, WeirdCost, TableCost = user_cost_classes()
    m = [round(float(v), 2) for v in rng.uniform(-2, 2, size=p)]
    v = [round(float(x), 2) for x in rng.uniform(0.3, 3.0, size=p)]
    a = rng.normal(size=(p, p))
    cov = np.round(a @ a.T + np.eye(p), 2)
    cov = ((cov + cov.T) / 2).tolist()

    def arr(x):
        return np.array(x, dtype=float) if isinstance(x, list) else x

    def pair(j):
        return None if j is None else (arr(j[0]), arr(j[1]))

    table = table_for(n, 2, int(rng.integers(1 << 30)))
    cat = [
        dict(name="L2Cost", make=lambda j: L2Cost(param=arr(j)), define=lambda x, j: oracles.l2_cost(x, arr(j)), m=1, q=p, builtin=True,
             functional=True, params=[("optim", None), ("zero", 0.0), ("scalar", 1.5), ("percol", m)]),
        dict(name="GaussianVarCost", make=lambda j: GaussianVarCost(param=pair(j)), define=lambda x, j: gvar_def(x, pair(j)), m=2, q=p,
             builtin=True, functional=True, params=[("optim", None), ("scalar", [0.0, 1.0]), ("scalar-nonunit", [0.5, 2.5]), ("percol", [m, v])]),
        dict(name="GaussianCovCost", make=lambda j: GaussianCovCost(param=pair(j)), define=lambda x, j: gcov_def(x, pair(j)), m=p + 1, q=1,
             builtin=True, functional=True, params=[("optim", None), ("scalar", [0.0, 1.0]), ("scalar-nonunit", [0.5, 2.5]), ("percol-matrix", [m, cov])]),
        dict(name="user:L1Cost", make=lambda j: L1Cost(param=arr(j)), define=lambda x, j: l1_def(x, arr(j)), m=1, q=p, builtin=False,
             functional=True, params=[("optim", None), ("scalar", 0.3), ("percol", m)]),
        dict(name="user:WeirdCost", make=lambda j: WeirdCost(param=j), define=lambda x, j: weird_def(x, j), m=2, q=1, builtin=False,
             functional=True, params=[("optim", None), ("scalar", 0.7)]),
        dict(name="user:TableCost", make=lambda j: TableCost(param=j, table=table.tolist(), msize=2), define=None, m=2, q=2, builtin=False,
             functional=False, table=table, params=[("optim", None), ("scalar", 1)]),
    ]
    return cat


def cost_value(c, X, s, e, jparam):
    """Definition of cost c on the rows X[s:e] (or on explicitly given rows when s is an array)."""
    if c["define"] is None:
        return c["table"][0 if jparam is None else 1][s, e]
    return c["define"](X[s:e], jparam)


# ---------------------------------------------------------------------------------------------------------- enumerations
def cuts3(n, m):
    return [(s, k, e) for s in range(n) for k in range(s + m, n) for e in range(k + m, n + 1)]


def cuts2(n, m):
    return [(s, e) for s in range(n) for e in range(s + m, n + 1)]


def cuts4(n, m):
    return [(s, a, b, e) for s in range(n) for a in range(s + 1, n) for b in range(a + m, n) for e in range(b + 1, n + 1)
            if (a - s) + (e - b) >= m]


def datasets(tier, seed):
    rng = np.random.default_rng(seed)
    ns = (3, 5, 7, 8) if tier == "quick" else (2, 3, 4, 5, 6, 7, 8)
    reps = 1 if tier == "quick" else 6
    for n in ns:
        for p in (1, 2, 3):
            for r in range(reps):
                yield f"normal{r}-n{n}p{p}", rng.normal(size=(n, p)) * rng.uniform(0.5, 3.0, size=p) + rng.uniform(-5, 5, size=p), "normal"
            yield f"grid-n{n}p{p}", rng.integers(-16, 17, size=(n, p)) / 4.0, "grid"


# ----------------------------------------------------------------------------------------------------------------- checks
def evaluate(sc, cuts):
    try:
        return sc.evaluate(np.array(cuts, dtype=np.int64)), None
    except Exception as e:
        return None, f"{type(e).__name__}: {e}"[:160]


def build(adapter, cost_obj, via, other_cost=None):
    from skchange.anomaly_scores import LocalAnomalyScore, Saving, to_local_anomaly_score, to_saving
    from skchange.change_scores import ChangeScore, to_change_score
    if via == "set_params":
        # the composition is first built around the same cost with ANOTHER parameter and then re-configured
        # through the nested parameter: what it scores afterwards is defined by the cost its get_params() reports
        sc = build(adapter, other_cost, False)
        name = "baseline_cost" if adapter == "Saving" else "cost"
        sc.set_params(**{f"{name}__param": cost_obj.param})
        return sc
    if adapter == "ChangeScore":
        return to_change_score(cost_obj) if via else ChangeScore(cost_obj)
    if adapter == "Saving":
        return to_saving(cost_obj) if via else Saving(cost_obj)
    return to_local_anomaly_score(cost_obj) if via else LocalAnomalyScore(cost_obj)


def expected(adapter, c, X, cut, jparam):
    """The statement's right-hand side, from the cost's definition; None when a slice is outside the quantifier."""
    if adapter == "ChangeScore":
        s, k, e = cut
        parts = [cost_value(c, X, s, e, jparam), cost_value(c, X, s, k, jparam), cost_value(c, X, k, e, jparam)]
    elif adapter == "Saving":
        s, e = cut
        parts = [cost_value(c, X, s, e, jparam), cost_value(c, X, s, e, None)]
        return None if any(v is None for v in parts) else parts[0] - parts[1]
    else:
        s, a, b, e = cut
        pooled = np.concatenate((X[s:a], X[b:e]))
        parts = [cost_value(c, X, s, e, jparam), cost_value(c, X, a, b, jparam), c["define"](pooled, jparam)]
    if any(v is None for v in parts):
        return None
    return parts[0] - parts[1] - parts[2]


def check_identity(rec, adapter, c, kind, jparam, X, label, cuts, via=False):
    """adapter(cost[param]).fit(X).evaluate(all cuts) row by row against the definition; first/last cut also alone."""
    comp = f"{adapter}({c['name']})"
    key = f"{adapter}:value"
    base_inp = {"check": "identity", "adapter": adapter, "cost": c["name"], "kind": kind, "param": jparam, "via": via, "X": X,
                "table": c.get("table")}
    try:
        other = None
        if via == "set_params":
            alt = [j for k2, j in c["params"] if k2 != kind and (j is not None or adapter != "Saving")]
            if not alt:
                return
            other = c["make"](alt[0])
        sc = build(adapter, c["make"](jparam), via, other).fit(X)
    except Exception as e:
        rec.violation(f"{adapter}:construct", f"{comp} with param kind {kind} cannot be constructed/fitted: {type(e).__name__}: {e}"[:300],
                      "C06.identity", dict(base_inp, cuts=[list(cuts[0])]))
        return
    exp = [expected(adapter, c, X, cut, jparam) for cut in cuts]
    ok_cuts = [cut for cut, v in zip(cuts, exp) if v is not None]
    exp = [v for v in exp if v is not None]
    if not ok_cuts:
        return
    got, err = evaluate(sc, ok_cuts)
    bad = None
    if err is not None or got.shape != (len(ok_cuts), c["q"]):
        # find the smallest single cut reproducing it
        for cut, v in zip(ok_cuts, exp):
            g1, e1 = evaluate(sc, [cut])
            if e1 is not None or g1.shape != (1, c["q"]):
                bad = (cut, v, g1, e1, [list(cut)])
                break
        if bad is None:
            bad = (ok_cuts[0], exp[0], got, err, [list(x) for x in ok_cuts])
    else:
        for i, (cut, v) in enumerate(zip(ok_cuts, exp)):
            if not close(got[i], v):
                g1, e1 = evaluate(sc, [cut])
                if e1 is None and g1.shape == (1, c["q"]) and close(g1[0], v):     # only wrong inside the batch
                    bad = (cut, v, got[i:i + 1], None, [list(x) for x in ok_cuts])
                else:
                    bad = (cut, v, g1, e1, [list(cut)])
                break
        for cut, v in ((ok_cuts[0], exp[0]), (ok_cuts[-1], exp[-1])):
            if bad is None:
                g1, e1 = evaluate(sc, [cut])
                if e1 is not None or g1.shape != (1, c["q"]) or not close(g1[0], v):
                    bad = (cut, v, g1, e1, [list(cut)])
    if bad is None and len(ok_cuts) >= 2:
        # batch independence: other batch compositions (first cut repeated at the end; reversed order) give the same rows
        for order_name, idx in (("first-repeated-last", list(range(len(ok_cuts))) + [0]), ("reversed", list(range(len(ok_cuts) - 1, -1, -1)))):
            g2, e2 = evaluate(sc, [ok_cuts[i] for i in idx])
            if e2 is not None or g2.shape != (len(idx), c["q"]):
                bad = (ok_cuts[idx[0]], exp[idx[0]], g2, e2, [list(ok_cuts[i]) for i in idx])
                break
            for r, i in enumerate(idx):
                if not close(g2[r], exp[i]):
                    bad = (ok_cuts[i], exp[i], g2[r:r + 1], None, [list(ok_cuts[k]) for k in idx])
                    break
            if bad is not None:
                break
    for cut, v in zip(ok_cuts, exp):
        rec.case(("id", comp, kind, via, label, cut), bool(np.any(np.abs(v) > 1e-9)),
                 {"composition": comp, "param": jparam, "data": label, "cut": list(cut), "expected": v} if sum(cut) % 7 == 0 else None)
    if bad is not None:
        cut, v, g, e, cuts_used = bad
        what = (f"{comp}[{kind}, param={jparam}]{' via to_*' if via is True else (' after set_params(<cost>__param=...)' if via else '')}.evaluate({list(cut)}) on n={len(X)},p={X.shape[1]} "
                + (f"raised {e}" if e is not None else f"= {np.asarray(g).tolist()}")
                + f" but the definition from the cost gives {np.asarray(v).tolist()}")
        rec.violation(key, what, "C06.identity", dict(base_inp, cuts=cuts_used, cut=list(cut)))


def check_direct(rec, X, label):
    """CUSUM**2 == L2 change score; L2Saving == Saving(L2Cost(0))."""
    from skchange.anomaly_scores import L2Saving, Saving
    from skchange.change_scores import CUSUM, ChangeScore
    from skchange.costs import L2Cost
    n, p = X.shape
    c3, c2 = cuts3(n, 1), cuts2(n, 1)
    if c3:
        cus, e1 = evaluate(CUSUM().fit(X), c3)
        twin, e2 = evaluate(ChangeScore(L2Cost()).fit(X), c3)
        exp = np.array([oracles.change_score(oracles.l2_cost, X, *c) for c in c3])
        for i, cut in enumerate(c3):
            rec.case(("cusum", label, cut), bool(np.any(np.abs(exp[i]) > 1e-9)))
            inp = {"check": "cusum", "X": X, "cuts": [list(cut)]}
            if e1 is not None or e2 is not None:
                rec.violation("CUSUM:raises", f"CUSUM / ChangeScore(L2Cost) raised on admissible cuts: {e1 or e2}", "C06.cusum",
                              dict(inp, cuts=[list(x) for x in c3]))
                break
            if cus.shape != (len(c3), p):
                rec.violation("CUSUM:shape", f"CUSUM.evaluate has shape {cus.shape}, expected {(len(c3), p)}", "C06.cusum",
                              dict(inp, cuts=[list(x) for x in c3]))
                break
            if np.any(cus[i] < 0):
                rec.violation("CUSUM:negative", f"CUSUM.evaluate({list(cut)}) = {cus[i].tolist()} is negative", "C06.nonneg", inp)
                break
            if not close(cus[i] ** 2, exp[i]) or not close(cus[i] ** 2, twin[i]):
                rec.violation("CUSUM:squared-vs-L2-change-score",
                              f"CUSUM.evaluate({list(cut)})**2 = {(cus[i] ** 2).tolist()} but the squared-error change score is "
                              f"{exp[i].tolist()} (ChangeScore(L2Cost) returns {twin[i].tolist()})", "C06.cusum", inp)
                break
    sav, e1 = evaluate(L2Saving().fit(X), c2)
    twin, e2 = evaluate(Saving(L2Cost(param=0.0)).fit(X), c2)
    exp = np.array([oracles.saving(oracles.l2_cost, X, s, e, 0.0) for s, e in c2])
    for i, cut in enumerate(c2):
        rec.case(("l2saving", label, cut), bool(np.any(np.abs(exp[i]) > 1e-9)))
        inp = {"check": "l2saving", "X": X, "cuts": [list(cut)]}
        if e1 is not None or e2 is not None:
            rec.violation("L2Saving:raises", f"L2Saving / Saving(L2Cost(0)) raised on admissible cuts: {e1 or e2}", "C06.l2saving",
                          dict(inp, cuts=[list(x) for x in c2]))
            break
        if sav.shape != (len(c2), p):
            rec.violation("L2Saving:shape", f"L2Saving.evaluate has shape {sav.shape}, expected {(len(c2), p)}", "C06.l2saving",
                          dict(inp, cuts=[list(x) for x in c2]))
            break
        if np.any(sav[i] < 0):
            rec.violation("L2Saving:negative", f"L2Saving.evaluate({list(cut)}) = {sav[i].tolist()} is negative", "C06.nonneg", inp)
            break
        if not close(sav[i], exp[i]) or not close(sav[i], twin[i]):
            rec.violation("L2Saving:vs-Saving(L2Cost(0))",
                          f"L2Saving.evaluate({list(cut)}) = {sav[i].tolist()} but the saving of the squared-error cost with baseline 0 "
                          f"is {exp[i].tolist()} (Saving(L2Cost(0.0)) returns {twin[i].tolist()})", "C06.l2saving", inp)
            break


def slack_ok(lhs, rhs, terms):
    """lhs <= rhs up to rounding (1e-8 relative to the magnitude of the terms that were subtracted)."""
    scale = 1.0 + sum(np.abs(np.asarray(t, dtype=float)) for t in terms)
    return bool(np.all(np.asarray(lhs) - np.asarray(rhs) <= 1e-8 * scale))


def check_inequalities(rec, c, X, label):
    """Built-in cost c on normal-family data: non-negativity of change scores / savings, optimal <= fixed, split inequality,
    all on the REAL objects' outputs."""
    from skchange.anomaly_scores import Saving
    from skchange.change_scores import ChangeScore
    n, p = X.shape
    name = c["name"]
    if n < c["m"]:
        return
    c2 = [cut for cut in cuts2(n, c["m"]) if cost_value(c, X, cut[0], cut[1], None) is not None]
    good = set(c2)
    c3 = [cut for cut in cuts3(n, c["m"]) if (cut[0], cut[2]) in good and (cut[0], cut[1]) in good and (cut[1], cut[2]) in good]
    if not c2:
        return
    opt, err = evaluate(c["make"](None).fit(X), c2)
    if err is not None:
        return                      # reported by the identity checks / C01
    optd = {cut: opt[i] for i, cut in enumerate(c2)}
    inp0 = {"check": "ineq", "cost": name, "X": X}
    # optimal <= fixed, saving >= 0
    for kind, jparam in c["params"]:
        if jparam is None:
            continue
        fix, e1 = evaluate(c["make"](jparam).fit(X), c2)
        sav, e2 = evaluate(Saving(c["make"](jparam)).fit(X), c2)
        if e1 is not None or e2 is not None:
            continue
        for i, cut in enumerate(c2):
            rec.case(("optfix", name, kind, label, cut), bool(np.any(np.abs(fix[i] - opt[i]) > 1e-9)))
            if not slack_ok(opt[i], fix[i], (opt[i], fix[i])):
                rec.violation(f"{name}:optimal>fixed", f"{name}: optimal-parameter cost of [{cut[0]},{cut[1]}) = {opt[i].tolist()} exceeds the cost "
                              f"{fix[i].tolist()} at the fixed parameter {jparam}", "C06.optfix", dict(inp0, which="optfix", param=jparam, cuts=[list(cut)]))
                break
            if not slack_ok(-sav[i], 0.0, (opt[i], fix[i])):
                rec.violation("Saving:negative", f"Saving({name}(param={jparam})).evaluate({list(cut)}) = {sav[i].tolist()} < 0",
                              "C06.nonneg", dict(inp0, which="saving", param=jparam, cuts=[list(cut)]))
                break
    # split inequality and change score >= 0
    if c3:
        cs, e1 = evaluate(ChangeScore(c["make"](None)).fit(X), c3)
        for i, cut in enumerate(c3):
            s, k, e = cut
            full, left, right = optd[(s, e)], optd[(s, k)], optd[(k, e)]
            rec.case(("split", name, label, cut), bool(np.any(np.abs(full - left - right) > 1e-9)))
            if not slack_ok(left + right, full, (full, left, right)):
                rec.violation(f"{name}:split-increases-cost", f"{name}: C({s},{k}) + C({k},{e}) = {(left + right).tolist()} exceeds C({s},{e}) = "
                              f"{full.tolist()} (optimal parameter)", "C06.split", dict(inp0, which="split", param=None, cuts=[list(cut)]))
                break
            if e1 is None and not slack_ok(-cs[i], 0.0, (full, left, right)):
                rec.violation("ChangeScore:negative", f"ChangeScore({name}()).evaluate({list(cut)}) = {cs[i].tolist()} < 0", "C06.nonneg",
                              dict(inp0, which="changescore", param=None, cuts=[list(cut)]))
                break


def run_matrix(rec, rng, label, X, family, tier):
    n, p = X.shape
    cat = cost_catalogue(n, p, rng, tier)
    for c in cat:
        if c["builtin"] and c["name"] != "L2Cost" and family == "grid":
            continue                                    # Gaussian costs: quantifier asks for variances well above the floor
        for kind, jparam in c["params"]:
            m = c["m"]
            c3, c2, c4 = cuts3(n, m), cuts2(n, m), cuts4(n, m)
            for via in (False, True, "set_params"):
                if via is True and kind not in ("optim", "scalar", "zero"):
                    continue
                if via == "set_params" and (n > 6 or c["name"] == "user:TableCost"):
                    continue
                if c3:
                    check_identity(rec, "ChangeScore", c, kind, jparam, X, label, c3, via)
                if c2 and jparam is not None:
                    check_identity(rec, "Saving", c, kind, jparam, X, label, c2, via)
                if c4 and c["functional"] and not (via and n > 6):
                    check_identity(rec, "LocalAnomalyScore", c, kind, jparam, X, label, c4, via)
        if c["builtin"] and family == "normal":
            check_inequalities(rec, c, X, label)
    check_direct(rec, X, label)


def run(tier="quick", seed=0, repo="/repo"):
    use_repo(repo)
    rec = Recorder(target="skchange/change_scores/from_cost.py, skchange/anomaly_scores/from_cost.py, cusum.py, l2_saving.py")
    rng = np.random.default_rng(seed + 7)
    shapes = set()
    for label, X, family in datasets(tier, seed):
        run_matrix(rec, rng, label, X, family, tier)
        shapes.add(X.shape)
    return rec.result(RULE, f"n in {sorted({s[0] for s in shapes})}, p in 1..3, every admissible 2-/3-/4-point cut; 3 adapters x "
                            f"(3 built-in + 3 user-defined costs) x 2-4 parameter kinds, built directly, via to_* and (n <= 6) re-configured with set_params(<cost>__param); cuts exhaustive, data matrices seeded",
                      exhaustive=False)


def replay(inp, repo="/repo"):
    use_repo(repo)
    X = np.array(inp["X"], dtype=float)
    n, p = X.shape
    rec = Recorder()
    kind = inp.get("check")
    cuts = [tuple(int(v) for v in c) for c in inp["cuts"]]
    if kind in ("cusum", "l2saving"):
        check_direct(rec, X, "replay")
    else:
        cat = cost_catalogue(n, p, np.random.default_rng(0), "quick")
        c = next(c for c in cat if c["name"] == inp["cost"])
        if c["name"] == "user:TableCost" and inp.get("table") is not None:
            from skchange.costs.base import BaseCost  # noqa: F401
            table = np.array(inp["table"], dtype=float)
            TableCost = user_cost_classes()[2]
            c = dict(c, table=table, make=lambda j: TableCost(param=j, table=table.tolist(), msize=2))
        if kind == "identity":
            check_identity(rec, inp["adapter"], c, inp["kind"], inp["param"], X, "replay", cuts, inp.get("via", False))
        else:
            c = dict(c, params=[("replay", inp["param"])] if inp.get("param") is not None else c["params"])
            check_inequalities(rec, c, X, "replay")
    return {"violated": bool(rec.violations), "detail": rec.violations[0]["what"] if rec.violations else "holds"}
