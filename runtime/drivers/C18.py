"""C18 bounded stand-in: the data generators are reproducible and place segments exactly where requested.

Scope (exhaustive over the stated box): n <= 8 (quick: <= 6), p <= 3, seeds 0..4;
  generate_changing_data   every strictly increasing changepoint list inside 0..n-1 (all 2^n subsets), lists with repeated
                           changepoints, the single-int form, every list of length <= 2 (thorough: <= 3) over [-2, n+1] that
                           leaves 0..n-1 or is not sorted, every wrong number of means / variances;
  generate_anomalous_data  every list of pairwise disjoint anomalies [s, e) inside [0, n] (sorted and reversed order), the
                           single-tuple form, overlapping pairs (only rows covered once are compared), every single interval of
                           [-2, n+2]^2 that is empty / reversed / leaves [0, n], wrong number of means / variances, the empty list;
  generate_alternating_data every (n_segments, segment_length) with product <= n_max, p <= 3, every number of affected columns;
  add_linspace_outliers    rows <= 8, p <= 3, 0 <= n_outliers <= rows, two outlier sizes, two row indexes, frames built as one block /
                           by pd.concat of series / column by column / with mixed float dtypes (multi-block frames).
Means / variances come as scalars, per-segment scalars, per-segment per-column arrays or lists, one broadcast entry, and the
mixed forms (per-column mean with scalar variance, scalar mean with per-column variance).

Oracle (from the statement): Z = scipy.stats.multivariate_normal.rvs(zeros(p), eye(p), n, seed) reshaped to (n, p);
out[i, j] = mean_k[j] + sqrt(var_k[j]) * Z[i, j] for rows of the k-th requested segment / anomaly, Z[i, j] elsewhere.
"""
from __future__ import annotations

import itertools
import warnings

import numpy as np

from runtime.common import Recorder, close, jsonable, use_repo

RULE = ("every position list of the box per (n, p, seed, argument form); a case is non-trivial when at least one row is moved "
        "by a non-identity affine map and compared with the seeded standard-normal draw, when add_linspace_outliers has to hit "
        ">= 2 rows of a frame, or when the arguments are inconsistent and an error is demanded; distinct = (function, arguments)")
TARGET = "skchange/datasets/generate.py"


# ----------------------------------------------------------------------------------------------------------------- oracle

def zref(n, p, seed):
    from scipy.stats import multivariate_normal
    return np.asarray(multivariate_normal.rvs(np.zeros(p), np.eye(p), n, seed), dtype=float).reshape(n, p)


def _norm(spec):
    """means / variances argument -> list of 1-D arrays (one per entry) as the statement reads it."""
    if isinstance(spec, (int, float)):
        return [np.array([float(spec)])]
    return [np.asarray(v, dtype=float).reshape(-1) for v in spec]


def _dims(ml, vl):
    """Number of columns p the arguments describe, or None when they disagree."""
    lens = {len(v) for v in ml + vl}
    p = max(lens) if lens else 1
    return p if lens <= {1, p} else None


def expect_segments(n, segments, ml, vl, seed):
    """Expected frame for row segments [(a, b, k)]; returns (values, covered-once mask)."""
    p = _dims(ml, vl)
    Z = zref(n, p, seed)
    out = Z.copy()
    cover = np.zeros(n, dtype=int)
    for a, b, k in segments:
        m = np.broadcast_to(ml[k], (p,))
        v = np.broadcast_to(vl[k], (p,))
        out[a:b] = m + np.sqrt(v) * Z[a:b]
        cover[a:b] += 1
    return out, cover


def expect_changing(n, cps, means, variances, seed):
    """-> ("frame", values, mask, moved) | ("error", cls) | ("either", values, mask, moved) | ("skip",)"""
    cps = [cps] if isinstance(cps, int) else list(cps)
    k = len(cps) + 1
    ml, vl = _norm(means), _norm(variances)
    if len(ml) not in (1, k) or len(vl) not in (1, k):
        return ("error", "wrong-number-of-means-or-variances")
    if any(c > n - 1 for c in cps):
        return ("error", "changepoint-beyond-data")
    if any(c < 0 for c in cps):
        return ("error", "negative-changepoint")
    if any(cps[i] > cps[i + 1] for i in range(len(cps) - 1)):
        # unsorted changepoints: the statement names no such error class and the segments are not well defined -> not asserted
        return ("skip",)
    ml = ml * k if len(ml) == 1 else ml
    vl = vl * k if len(vl) == 1 else vl
    if _dims(ml, vl) is None:
        return ("skip",)
    bounds = [0] + cps + [n]
    segs = [(bounds[i], bounds[i + 1], i) for i in range(k)]
    vals, cover = expect_segments(n, segs, ml, vl, seed)
    moved = any(b > a and not (np.all(ml[i] == 0) and np.all(vl[i] == 1)) for a, b, i in segs)
    return ("frame", vals, cover == 1, moved)


def expect_anomalous(n, anoms, means, variances, seed):
    single = isinstance(anoms, tuple)
    anoms = [tuple(anoms)] if single else [tuple(a) for a in anoms]
    ml, vl = _norm(means), _norm(variances)
    if len(anoms) == 0:
        if len(ml) > 1 or len(vl) > 1:
            return ("error", "wrong-number-of-means-or-variances")
        if _dims(ml, vl) is None:
            return ("skip",)
        return ("either", zref(n, _dims(ml, vl), seed), np.ones(n, dtype=bool), False)   # no anomaly requested: plain draw, or rejected
    if len(ml) not in (1, len(anoms)) or len(vl) not in (1, len(anoms)):
        return ("error", "wrong-number-of-means-or-variances")
    if any(len(a) != 2 for a in anoms):
        return ("skip",)
    if any(e <= s for s, e in anoms):
        return ("error", "empty-anomaly")
    if any(e > n for s, e in anoms):
        return ("error", "anomaly-beyond-data")
    if any(s < 0 for s, e in anoms):
        return ("error", "negative-anomaly-start")
    ml = ml * len(anoms) if len(ml) == 1 else ml
    vl = vl * len(anoms) if len(vl) == 1 else vl
    if _dims(ml, vl) is None:
        return ("skip",)
    segs = [(s, e, i) for i, (s, e) in enumerate(anoms)]
    vals, cover = expect_segments(n, segs, ml, vl, seed)
    return ("frame", vals, cover <= 1, True)       # rows inside two overlapping anomalies are not compared


def expect_alternating(n_segments, segment_length, p, mean, variance, n_affected, seed):
    n = n_segments * segment_length
    Z = zref(n, p, seed)
    out = Z.copy()
    for i in range(n_segments):
        if i % 2 == 1:
            a, b = i * segment_length, (i + 1) * segment_length
            out[a:b, :n_affected] = mean + np.sqrt(variance) * Z[a:b, :n_affected]
    return ("frame", out, np.ones(n, dtype=bool), n_segments >= 2 and n_affected >= 1)


# ------------------------------------------------------------------------------------------------------------ call + check

def _materialise(spec, as_array):
    if isinstance(spec, (int, float)):
        return spec
    return [np.array(v, dtype=float) if (as_array and isinstance(v, (list, tuple))) else v for v in spec]


def call(inp):
    from skchange.datasets import generate as g
    fn, a = inp["fn"], inp["args"]
    arr = inp.get("as_array", False)
    if fn == "generate_changing_data":
        return g.generate_changing_data(a["n"], a["changepoints"], _materialise(a["means"], arr), _materialise(a["variances"], arr), a["seed"])
    if fn == "generate_anomalous_data":
        an = a["anomalies"]
        an = tuple(an) if inp.get("tuple_form") else [tuple(x) for x in an]
        return g.generate_anomalous_data(a["n"], an, _materialise(a["means"], arr), _materialise(a["variances"], arr), a["seed"])
    if fn == "generate_alternating_data":
        prop = a["proportion"] if "proportion" in a else a["n_affected"] / a["p"]
        return g.generate_alternating_data(a["n_segments"], a["segment_length"], a["p"], a["mean"], a["variance"], prop, a["seed"])
    raise KeyError(fn)


def expectation(inp):
    fn, a = inp["fn"], inp["args"]
    if fn == "generate_changing_data":
        return expect_changing(a["n"], a["changepoints"], a["means"], a["variances"], a["seed"])
    if fn == "generate_anomalous_data":
        an = tuple(a["anomalies"]) if inp.get("tuple_form") else a["anomalies"]
        return expect_anomalous(a["n"], an, a["means"], a["variances"], a["seed"])
    return expect_alternating(a["n_segments"], a["segment_length"], a["p"], a["mean"], a["variance"], a["n_affected"], a["seed"])


def _n_of(inp):
    a = inp["args"]
    return a["n"] if "n" in a else a["n_segments"] * a["segment_length"]


def check(rec, inp, repeat=False):
    """Run one generator call and compare with the statement; returns True when the case is non-trivial."""
    fn = inp["fn"]
    exp = expectation(inp)
    if exp[0] == "skip":
        return False
    with warnings.catch_warnings():
        warnings.simplefilter("ignore")
        try:
            got, err = call(inp), None
        except Exception as e:                 # noqa: BLE001
            got, err = None, type(e).__name__
    desc = f"{fn}({', '.join(f'{k}={v}' for k, v in inp['args'].items())})"
    n = _n_of(inp)
    if exp[0] == "error":
        cls = exp[1]
        if err is None:
            rec.violation(f"{fn}:{cls}-not-rejected", f"{desc}: inconsistent arguments ({cls}) must raise ValueError, but a "
                          f"{got.shape[0]}x{got.shape[1]} frame was returned", "C18.raises", inp)
        elif err != "ValueError":
            # for n == 1 the crash comes from the squeezed scipy draw, not from the (missing) validation
            rec.violation("generators:n=1" if n == 1 else f"{fn}:{cls}-not-rejected",
                          f"{desc}: inconsistent arguments ({cls}) must raise ValueError, but {err} was raised", "C18.raises", inp)
        return True
    vals, mask, moved = exp[1], exp[2], exp[3]
    if err is not None:
        if exp[0] == "either" and err == "ValueError":
            return True
        if n == 1:
            key, why = "generators:n=1", "a 1 x p frame is demanded"
        elif exp[0] == "either":
            key, why = f"{fn}:empty-list", "an empty anomaly list must give the plain draw or a ValueError"
        elif inp.get("form") == "scalar-mean/percol-var":
            if err == "ValueError":        # doubtful: may be read as inconsistent arguments
                return moved
            key, why = "generators:scalar-mean-percol-variance", "an n x p frame is demanded"
        else:
            key, why = f"{fn}:valid-arguments:{err}", "valid arguments must give a frame"
        rec.violation(key, f"{desc} raised {err}; {why}", "C18.frame", inp)
        return moved
    special = ("generators:scalar-mean-percol-variance" if inp.get("form") == "scalar-mean/percol-var" else
               "generators:n=1" if n == 1 else None)

    def vkey(suffix):
        return special or f"{fn}:{suffix}"

    if got.shape != vals.shape:
        rec.violation(vkey("shape"), f"{desc} returned shape {got.shape}, the statement demands {vals.shape}", "C18.frame", inp)
        return moved
    if list(got.index) != list(range(n)):
        rec.violation(vkey("index"), f"{desc} returned index {list(got.index)[:5]}.., demanded 0..{n - 1}", "C18.frame", inp)
    g = got.to_numpy(dtype=float)
    if not close(g[mask], vals[mask]):
        bad = [int(i) for i in np.flatnonzero(mask) if not close(g[i], vals[i])]
        rec.violation(vkey("placement"), f"{desc}: rows {bad} differ from mean + sqrt(variance) * Z (or from Z outside the "
                      f"requested segments); got {g[bad[0]].tolist()}, demanded {vals[bad[0]].tolist()}", "C18.affine", inp)
    if repeat:
        with warnings.catch_warnings():
            warnings.simplefilter("ignore")
            again = call(inp)
        if not (again.shape == got.shape and np.array_equal(again.to_numpy(), got.to_numpy()) and list(again.index) == list(got.index)
                and list(again.columns) == list(got.columns)):
            rec.violation(f"{fn}:not-reproducible", f"{desc}: two calls with identical arguments and seed differ", "C18.reproducible", inp)
    return moved


def check_outliers(rec, inp):
    """add_linspace_outliers on a rows x p frame: exactly n_outliers evenly spaced rows from the first to the last get +size."""
    import pandas as pd
    from skchange.datasets.generate import add_linspace_outliers
    rows, p, k, size = inp["rows"], inp["p"], inp["n_outliers"], inp["size"]
    base = zref(rows, p, inp["seed"])
    index = range(rows) if not inp.get("shift") else range(inp["shift"], inp["shift"] + rows)
    cols = [f"var{j}" for j in range(p)]
    build = inp.get("build", "block")
    if build == "concat":          # one block per column (pd.concat of series): .values is a copy of such frames
        df = pd.concat([pd.Series(base[:, j].copy(), index=index, name=cols[j]) for j in range(p)], axis=1)
    elif build == "assign":        # columns added one by one
        df = pd.DataFrame(index=index)
        for j in range(p):
            df[cols[j]] = base[:, j].copy()
    elif build == "mixed":         # float64 and float32 columns (two blocks); values chosen exactly representable
        df = pd.DataFrame(base.copy(), index=index, columns=cols)
        df[cols[-1]] = df[cols[-1]].astype("float32")
        base = np.asarray(df, dtype=float)
    else:
        df = pd.DataFrame(base.copy(), index=index, columns=cols)
    desc = f"add_linspace_outliers(<{rows}x{p} frame built by {build}>, n_outliers={k}, outlier_size={size})"
    try:
        out = add_linspace_outliers(df, k, size)
    except Exception as e:                   # noqa: BLE001
        key = "add_linspace_outliers:multicolumn" if p > 1 else "add_linspace_outliers:single-column"
        rec.violation(key, f"{desc} raised {type(e).__name__}: {e}", "C18.outliers", inp)
        return k >= 2
    o = np.asarray(out, dtype=float)
    key = "add_linspace_outliers:multicolumn" if p > 1 else "add_linspace_outliers:single-column"
    if o.shape != base.shape:
        rec.violation(key, f"{desc} returned shape {o.shape}", "C18.outliers", inp)
        return k >= 2
    diff = o - base
    tol = 1e-4 if build == "mixed" else 1e-8          # a float32 column rounds x + size to float32
    hit = [i for i in range(rows) if not close(diff[i], np.zeros(p), tol)]
    ok = len(hit) == k and all(close(diff[i], np.full(p, size), tol) for i in hit)
    if ok and k >= 1:
        ok = hit[0] == 0
    if ok and k >= 2:
        ideal = [i * (rows - 1) / (k - 1) for i in range(k)]
        ok = hit[-1] == rows - 1 and all(abs(h - t) < 1.0 for h, t in zip(hit, ideal))
    if not ok:
        rec.violation(key, f"{desc}: rows changed {hit} (by {[diff[i].tolist() for i in hit][:3]}); demanded exactly {k} "
                      f"evenly spaced rows from 0 to {rows - 1}, each + {size}", "C18.outliers", inp)
    return k >= 2


# ------------------------------------------------------------------------------------------------------------- enumeration

def mean_var(k, p, form):
    """k entries of (means, variances) in the requested argument form; values distinct per segment and column."""
    m = [[round(10.0 * (i + 1) + 3.0 * j, 3) for j in range(p)] for i in range(k)]
    v = [[round(0.25 * (i + 1) + 1.5 * j, 3) for j in range(p)] for i in range(k)]
    if form == "percol":
        return m, v, True
    if form == "percol-lists":
        return m, v, False
    if form == "perseg-scalar":           # p == 1
        return [r[0] for r in m], [r[0] for r in v], False
    if form == "scalar":                  # p == 1, one value for all segments
        return 7.5, 2.25, False
    if form == "broadcast-one":
        return m[:1], v[:1], True
    if form == "percol-mean/scalar-var":
        return m, 2.25, True
    if form == "percol-mean/one-var":
        return m, v[:1], True
    if form == "scalar-mean/percol-var":
        return 7.5, v, True
    raise KeyError(form)


def forms_for(p):
    f = ["percol", "percol-lists", "broadcast-one", "percol-mean/scalar-var", "percol-mean/one-var"]
    if p == 1:
        f += ["perseg-scalar", "scalar"]
    else:
        f += ["scalar-mean/percol-var"]
    return f


def subsets(n):
    for r in range(n + 1):
        yield from itertools.combinations(range(n), r)


def disjoint_interval_lists(n):
    """Every non-empty list of pairwise disjoint, non-empty [s, e) within [0, n], sorted."""
    for r in range(2, n + 2, 2):
        for pts in itertools.combinations(range(n + 1), r):
            yield [(pts[i], pts[i + 1]) for i in range(0, r, 2)]


def run(tier="quick", seed=0, repo="/repo"):
    use_repo(repo)
    rec = Recorder(target=TARGET)
    quick = tier == "quick"
    nmax = 6 if quick else 8
    seeds = list(range(5))
    count = 0

    def do(inp, nontrivial_hint=True):
        nonlocal count
        count += 1
        rep = (count % 4 == 0) if quick else True
        nt = check(rec, inp, repeat=rep)
        a = inp["args"]
        fp = (inp["fn"], inp.get("form"), inp.get("tuple_form", False), repr(sorted(a.items())))
        rec.case(fp, bool(nt and nontrivial_hint), {"fn": inp["fn"], "args": a, "form": inp.get("form")} if count % 997 == 1 else None)

    for n in range(1, nmax + 1):
        for p in (1, 2, 3):
            forms = forms_for(p)
            # ---- generate_changing_data: valid lists
            for ci, cps in enumerate(subsets(n)):
                k = len(cps) + 1
                for si, s in enumerate(seeds):
                    # quick: rotate the argument form over (list, seed); thorough: all forms on seed 0/1, rotate on the others
                    use = forms if ((not quick and s < 2) or (n <= 3 and si == 0)) else [forms[(ci + si) % len(forms)]]
                    for form in use:
                        m, v, arr = mean_var(k, p, form)
                        do({"fn": "generate_changing_data", "form": form, "as_array": arr,
                            "args": {"n": n, "changepoints": list(cps), "means": m, "variances": v, "seed": s}})
            # single-int form and repeated changepoints
            for c in range(n):
                m, v, arr = mean_var(2, p, "percol")
                do({"fn": "generate_changing_data", "form": "percol", "as_array": arr,
                    "args": {"n": n, "changepoints": c, "means": m, "variances": v, "seed": seed % 5}})
            for cps in itertools.combinations_with_replacement(range(n), 2 if quick else 3):
                if len(set(cps)) < len(cps):
                    m, v, arr = mean_var(len(cps) + 1, p, "percol")
                    do({"fn": "generate_changing_data", "form": "percol", "as_array": arr,
                        "args": {"n": n, "changepoints": list(cps), "means": m, "variances": v, "seed": 1}})
            # ---- generate_changing_data: positions outside the data / unsorted
            if p <= 2:
                for L in ((1, 2) if quick else (1, 2, 3)):
                    if L == 3 and n > 5:
                        continue
                    for cps in itertools.product(range(-2, n + 2), repeat=L):
                        inr = all(0 <= c <= n - 1 for c in cps)
                        srt = all(cps[i] <= cps[i + 1] for i in range(L - 1))
                        if inr and srt:
                            continue
                        m, v, arr = mean_var(L + 1, p, "percol")
                        do({"fn": "generate_changing_data", "form": "percol", "as_array": arr,
                            "args": {"n": n, "changepoints": list(cps), "means": m, "variances": v, "seed": 0}})
            # ---- wrong number of means / variances
            if n <= 4:
                for cps in subsets(n):
                    k = len(cps) + 1
                    for km in range(0, k + 3):
                        for which in ("means", "variances", "both"):
                            if km in (1, k):
                                continue
                            m, v, arr = mean_var(k, p, "percol")
                            mm, vv, _ = mean_var(km, p, "percol")
                            a = {"n": n, "changepoints": list(cps), "means": mm if which != "variances" else m,
                                 "variances": vv if which != "means" else v, "seed": 0}
                            do({"fn": "generate_changing_data", "form": "percol", "as_array": arr, "args": a})
            # ---- generate_anomalous_data: valid lists (disjoint), sorted and reversed
            for ai, an in enumerate(disjoint_interval_lists(n)):
                k = len(an)
                for si, s in enumerate(seeds):
                    use = forms if ((not quick and s < 2) or (n <= 3 and si == 0)) else [forms[(ai + si) % len(forms)]]
                    for form in use:
                        m, v, arr = mean_var(k, p, form)
                        order = an if (si % 2 == 0 or k == 1) else an[::-1]
                        do({"fn": "generate_anomalous_data", "form": form, "as_array": arr,
                            "args": {"n": n, "anomalies": [list(x) for x in order], "means": m, "variances": v, "seed": s}})
                if k == 1:
                    m, v, arr = mean_var(1, p, "percol")
                    do({"fn": "generate_anomalous_data", "form": "percol", "as_array": arr, "tuple_form": True,
                        "args": {"n": n, "anomalies": list(an[0]), "means": m, "variances": v, "seed": 2}})
            # overlapping pairs (rows covered twice are not compared)
            if n <= 5:
                ivs = [(s, e) for s in range(n) for e in range(s + 1, n + 1)]
                for a1, a2 in itertools.permutations(ivs, 2):
                    if a1[0] < a2[1] and a2[0] < a1[1]:
                        m, v, arr = mean_var(2, p, "percol")
                        do({"fn": "generate_anomalous_data", "form": "percol", "as_array": arr,
                            "args": {"n": n, "anomalies": [list(a1), list(a2)], "means": m, "variances": v, "seed": 3}})
            # ---- invalid single anomalies, alone and after a valid one
            if p <= 2:
                for s_, e_ in itertools.product(range(-2, n + 3), repeat=2):
                    if 0 <= s_ < e_ <= n:
                        continue
                    m, v, arr = mean_var(1, p, "percol")
                    do({"fn": "generate_anomalous_data", "form": "percol", "as_array": arr,
                        "args": {"n": n, "anomalies": [[s_, e_]], "means": m, "variances": v, "seed": 0}})
                    if n >= 2 and p == 1:
                        m, v, arr = mean_var(2, p, "percol")
                        do({"fn": "generate_anomalous_data", "form": "percol", "as_array": arr,
                            "args": {"n": n, "anomalies": [[0, 1], [s_, e_]], "means": m, "variances": v, "seed": 0}})
            # wrong number of means / variances, empty list
            if n <= 4:
                for an in disjoint_interval_lists(n):
                    k = len(an)
                    for km in range(0, k + 3):
                        for which in ("means", "variances", "both"):
                            if km in (1, k):
                                continue
                            m, v, arr = mean_var(k, p, "percol")
                            mm, vv, _ = mean_var(km, p, "percol")
                            a = {"n": n, "anomalies": [list(x) for x in an], "means": mm if which != "variances" else m,
                                 "variances": vv if which != "means" else v, "seed": 0}
                            do({"fn": "generate_anomalous_data", "form": "percol", "as_array": arr, "args": a})
            for form in ("percol", "scalar") if p == 1 else ("percol",):
                m, v, arr = mean_var(1, p, form)
                do({"fn": "generate_anomalous_data", "form": form, "as_array": arr,
                    "args": {"n": n, "anomalies": [], "means": m, "variances": v, "seed": 0}})
            # ---- generate_alternating_data
            for nseg in range(1, n + 1):
                if n % nseg:
                    continue
                for naff in range(p + 1):
                    for s in seeds:
                        do({"fn": "generate_alternating_data",
                            "args": {"n_segments": nseg, "segment_length": n // nseg, "p": p, "mean": 5.0, "variance": 4.0,
                                     "n_affected": naff, "seed": s}})
    # ---- generate_alternating_data, wider frames: "k of p columns" requested as the decimal proportion k/p (p a divisor of 100, so
    #      the proportion is a two-digit decimal; its float product with p may sit one ulp off k: 0.07 * 100 = 7.000000000000001)
    for p in (4, 10, 20, 25, 50, 100):
        for k in range(p + 1):
            if p > 25 and tier == "quick" and k % 3 and k not in (7, 14, 28, 55, 57):
                continue
            do({"fn": "generate_alternating_data",
                "args": {"n_segments": 3, "segment_length": 2, "p": p, "mean": 5.0, "variance": 4.0, "n_affected": k,
                         "proportion": float(f"{k / p:.2f}"), "seed": 1}})
    # ---- add_linspace_outliers
    for rows in range(1, 9):
        for p in (1, 2, 3):
            for k in range(0, rows + 1):
                for size in (5.0, -2.5):
                    for shift in (0, 10):
                        for build in (("block", "concat", "assign", "mixed") if p > 1 else ("block", "concat")):
                            inp = {"fn": "add_linspace_outliers", "rows": rows, "p": p, "n_outliers": k, "size": size, "seed": seed % 5,
                                   "shift": shift, "build": build}
                            nt = check_outliers(rec, inp)
                            rec.case(("outliers", rows, p, k, size, shift, build), nt, inp if (rows, p, k, shift) == (4, 2, 2, 0) else None)
    return rec.result(RULE, f"n <= {nmax}, p <= 3, seeds 0..4, all position lists (see module docstring); generate_alternating_data also with k of p columns requested as a two-digit decimal, p in {{4,10,20,25,50,100}}; add_linspace_outliers rows <= 8",
                      exhaustive=True)


def replay(inp, repo="/repo"):
    use_repo(repo)
    rec = Recorder()
    if inp["fn"] == "add_linspace_outliers":
        check_outliers(rec, inp)
    else:
        check(rec, inp, repeat=True)
    return {"violated": bool(rec.violations), "detail": rec.violations[0]["what"] if rec.violations else "holds"}
