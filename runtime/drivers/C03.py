"""C03 bounded stand-in: CAPA / MVCAPA anomalies maximise the total penalised saving.

The REAL run_base_capa / run_capa / run_mvcapa and the CAPA / MVCAPA classes (fit, predict, transform_scores) are executed on
small inputs and compared with the brute-force optimum `oracles.capa_optimum`, where the penalised saving of an anomaly is
`oracles.pen_subset` (best NON-EMPTY subset of components, alpha once, first |J| betas) -- both written from the statement.

Scope
  seeds  (9 cases): the smallest known inputs for the five defects of DESIGN section 11 rows 7-11, run first
  part A (exhaustive): L2 savings on every X in {0,1,3}^n (p=1, n=2..4; thorough ..5) and every X in {0,2}^(n x 2)
         (n=2..3), every 2<=m<=n, m<=M<=n+1, alpha_c, alpha_p in {0,1,4}, through run_capa.
  part B (seeded random, n ascending so that the first witness of a key is small): n<=9, p<=2, 2<=m<=M<=8, user-defined
         table savings (BaseSaving subclass; non-negative integer tables made sub-additive under splitting by min-plus
         closure; point saving either the same table or an independent one), L2Saving and Saving(L2Cost(0)) on small
         integer data; penalties from a grid incl. 0; shapes: alpha-only (CAPA), zero / equal / distinct betas
         (run_base_capa), dense / sparse / intermediate / combined / user callable (MVCAPA); all five entry points.

Checked per case (statement of C03):
  score      scores[T-1] == G(T) for every prefix 1<=T<=n  (hence non-negative, non-decreasing)
  structure  collective anomalies (s,e) with m <= e-s <= M inside [0,n], point anomalies (i,i+1), pairwise disjoint
  reeval     sum of the penalised savings of the reported anomalies == final score
  ignore     (classes) ignore_point_anomalies=True gives the same intervals minus exactly the point anomalies

One defect = one key.  The oracle decides THAT a case fails; the key is then chosen from observable evidence (every
saving object logs the intervals the detector asks it about):
  first wrong prefix T < m and the point saving of sample T-1 was never asked for   -> run_base_capa:early-point-anomaly
  first wrong prefix T, score too low, an optimal last anomaly WAS evaluated, p >= 2, alpha > 0, equal betas, and the
  number is what charging alpha once per component gives                           -> penalise_savings:alpha-per-component
  first wrong prefix T >= m, score too low, no optimal start was evaluated at T, and for the true values the pruning
  test G(s)+PS(s,W)+alpha+sum(betas) < G(W) holds at some W with T-W < m           -> run_base_capa:pruning
     (if it holds only for the per-component-alpha values: penalise_savings:alpha-per-component)
  a reported point anomaly is not (i,i+1), or MVCAPA raises because of it          -> get_anomalies:point-anomaly-interval
  re-evaluation differs from the final score (or a length is outside [m,M]) and a reported collective anomaly (s,e) has
  score[e]-score[s] != its penalised saving while penalisation cannot be the cause (p == 1 or all scores right)
                                                                                   -> optimise_savings:opt-start
  (classes) ignore_point_anomalies output differs                                  -> CAPA|MVCAPA:ignore_point_anomalies
Symptoms that are consequences of an attributed defect in the same case are not reported again; a failing case that
no rule explains is reported under `unexplained:<symptom>` so that nothing is lost.
"""
from __future__ import annotations

import hashlib
import itertools
import json
import sys
import traceback

import numpy as np

from runtime import oracles
from runtime.common import Recorder, close, jsonable, use_repo, rot_frame, alternate_route

K_EARLY = "run_base_capa:early-point-anomaly"
K_START = "optimise_savings:opt-start"
K_ALPHA = "penalise_savings:alpha-per-component"
K_POINT = "get_anomalies:point-anomaly-interval"
K_PRUNE = "run_base_capa:pruning"
TIE = 1e-9

RULE = ("part A: every small L2 input through run_capa; part B: seeded random table / L2 inputs through run_base_capa, "
        "run_capa, run_mvcapa, CAPA and MVCAPA (fit/predict/transform_scores).  A case is non-trivial when the brute-force "
        "optimum contains at least one anomaly (G(n) > 0), i.e. the detector has something to find; distinct = md5 of the "
        "full case (entry point, savings, m, M, penalties)")

_CLS = {}


def classes():
    """TableSaving bound to the currently imported skchange (re-created after use_repo switched trees)."""
    key = id(sys.modules["skchange"])
    if key not in _CLS:
        from skchange.anomaly_scores import BaseSaving

        class TableSaving(BaseSaving):
            """User-defined univariate saving: evaluate([s,e])[j] == table[s][e][j] (the data are ignored)."""

            def __init__(self, table=None, params_per_variable=1):
                self.table = table
                self.params_per_variable = params_per_variable
                super().__init__()

            @property
            def min_size(self):
                return 1

            def get_param_size(self, p):
                return self.params_per_variable * p

            def _fit(self, X, y=None):
                self._tab = np.asarray(self.table, dtype=float)
                return self

            def _evaluate(self, cuts):
                return self._tab[cuts[:, 0], cuts[:, 1]].reshape(len(cuts), -1)

        _CLS.clear()
        _CLS[key] = TableSaving
    return _CLS[key]


def attach_log(saving):
    """Record the 2-D cuts arrays the detector asks this saving about (the dynamic programme passes 2-D arrays)."""
    log = []
    orig = saving.evaluate

    def evaluate(cuts):
        if np.ndim(cuts) == 2:
            log.append(np.array(cuts, dtype=np.int64))
        return orig(cuts)

    saving.evaluate = evaluate
    return log


# --------------------------------------------------------------------------- inputs

def closure(raw):
    """Min-plus closure of raw[s][e][j] over all splits: the result is sub-additive, S(a,c) <= S(a,b) + S(b,c)."""
    n = raw.shape[0] - 1
    S = np.zeros_like(raw, dtype=float)
    for L in range(1, n + 1):
        for a in range(0, n - L + 1):
            c = a + L
            v = raw[a, c].astype(float)
            for b in range(a + 1, c):
                v = np.minimum(v, S[a, b] + S[b, c])
            S[a, c] = v
    return S


def random_table(rng, n, p):
    raw = np.zeros((n + 1, n + 1, p))
    hi = int(rng.integers(2, 7))
    for a in range(n):
        for c in range(a + 1, n + 1):
            raw[a, c] = rng.integers(0, hi * (c - a) + 1, size=p) if rng.random() < 0.8 else 0
    if rng.random() < 0.5:      # a few loud single samples
        for _ in range(int(rng.integers(1, 3))):
            raw[(t := int(rng.integers(0, n))), t + 1] = rng.integers(hi, 3 * hi + 1, size=p)
    return closure(raw)


def random_data(rng, n, p):
    X = np.zeros((n, p))
    for _ in range(int(rng.integers(1, 4))):
        a = int(rng.integers(0, n))
        L = int(rng.integers(1, 5))
        cols = rng.random(p) < 0.7
        if not cols.any():
            cols[int(rng.integers(0, p))] = True
        X[a:a + L, cols] += rng.integers(-3, 4, size=int(cols.sum()))
    if rng.random() < 0.5:
        X += rng.integers(-1, 2, size=(n, p))
    return X


GRID = [0.0, 0.5, 2.0, 6.0]
SCALES = [0.0, 0.1, 0.3, 1.0]


def random_betas(rng, p):
    r = rng.random()
    if r < 0.3:
        return [0.0] * (1 if rng.random() < 0.3 else p)
    if r < 0.6 or p == 1:
        return [float(rng.choice([0.5, 1.0, 2.0]))] * p
    return [float(b) for b in rng.choice([0.0, 0.5, 1.0, 2.0, 3.0], size=p)]


def random_mv_penalty(rng, p):
    names = ["dense", "sparse", "combined"] + (["intermediate"] if p >= 2 else [])
    if rng.random() < 0.35:
        return {"alpha": float(rng.choice(GRID)), "betas": random_betas(rng, p) if rng.random() < 0.8 else [0.0] * p}
    return str(rng.choice(names))


def random_case(rng, n):
    p = int(rng.integers(1, 3))
    m = int(rng.integers(2, min(n, 8) + 1))
    M = int(rng.integers(m, 9))
    api = str(rng.choice(["run_base_capa", "run_base_capa", "run_capa", "run_mvcapa", "CAPA", "MVCAPA"]))
    kind = str(rng.choice(["table", "table", "table", "l2", "l2", "l2cost"]))
    if kind == "table":
        sv = {"kind": "table", "coll": random_table(rng, n, p),
              "point": (np.round(rng.integers(0, 9, size=(n, p)) * (rng.random((n, p)) < 0.5)).astype(float)
                        if rng.random() < 0.6 else None)}
    else:
        sv = {"kind": kind, "X": random_data(rng, n, p)}
    case = {"api": api, "n": n, "p": p, "m": m, "M": M, "saving": sv}
    if api == "run_base_capa":
        case["pen"] = {"ca": float(rng.choice(GRID)), "cb": random_betas(rng, p), "pa": float(rng.choice(GRID)),
                       "pb": random_betas(rng, p)}
    elif api == "run_capa":
        case["pen"] = {"ca": float(rng.choice(GRID)), "pa": float(rng.choice(GRID))}
    elif api == "CAPA":
        case["pen"] = {"cscale": float(rng.choice(SCALES)), "pscale": float(rng.choice(SCALES))}
    else:
        case["pen"] = {"cpen": random_mv_penalty(rng, p), "cscale": float(rng.choice(SCALES + [2.0])),
                       "ppen": random_mv_penalty(rng, p), "pscale": float(rng.choice(SCALES + [2.0]))}
    return jsonable(case)


# --------------------------------------------------------------------------- running the real code

def user_penalty(spec):
    def penalty(n, p, n_params_per_variable=1, scale=1.0):
        return scale * float(spec["alpha"]), scale * np.asarray(spec["betas"], dtype=float)
    return penalty


def make_savings(case, raw_cost=False):
    from skchange.anomaly_scores import L2Saving, Saving
    from skchange.costs import L2Cost
    sv = case["saving"]
    n, p = case["n"], case["p"]
    if sv["kind"] == "table":
        T = classes()
        C = np.asarray(sv["coll"], dtype=float).reshape(n + 1, n + 1, p)
        if sv.get("point") is None:
            P = C
        else:
            P = np.zeros_like(C)
            pt = np.asarray(sv["point"], dtype=float).reshape(n, p)
            for t in range(n):
                P[t, t + 1] = pt[t]
        # different parameter counts for the two savings, so that mixing them up in the penalty construction is visible
        return np.zeros((n, p)), T(table=C, params_per_variable=2), T(table=P, params_per_variable=1)
    X = np.asarray(sv["X"], dtype=float).reshape(n, p)
    if sv["kind"] == "l2":
        return X, L2Saving(), L2Saving()
    if raw_cost:        # the classes accept a cost with a fixed parameter and convert it (to_saving)
        return X, L2Cost(param=0.0), L2Cost(param=0.0)
    return X, Saving(L2Cost(param=0.0)), Saving(L2Cost(param=0.0))


def saving_functions(case):
    """The savings of the statement, computed directly (table lookup / row-by-row L2)."""
    sv = case["saving"]
    n, p = case["n"], case["p"]
    if sv["kind"] == "table":
        C = np.asarray(sv["coll"], dtype=float).reshape(n + 1, n + 1, p)
        P = None if sv.get("point") is None else np.asarray(sv["point"], dtype=float).reshape(n, p)
        return (lambda s, e: C[s, e]), (lambda t: C[t, t + 1] if P is None else P[t])
    X = np.asarray(sv["X"], dtype=float).reshape(n, p)
    sc = lambda s, e: oracles.saving(oracles.l2_cost, X, s, e, 0.0)     # noqa: E731
    return sc, (lambda t: sc(t, t + 1))


def resolve_mv_penalty(spec, n, p, n_params, scale):
    from skchange.anomaly_detectors.mvcapa import capa_penalty_factory
    f = user_penalty(spec) if isinstance(spec, dict) else capa_penalty_factory(spec)
    alpha, betas = f(n, p, n_params, scale=scale)
    return float(alpha), [float(b) for b in np.asarray(betas, dtype=float).reshape(-1)]


def split_intervals(ivs):
    coll = [(int(a), int(b)) for a, b in ivs if b - a >= 2]
    point = [(int(a), int(b)) for a, b in ivs if b - a < 2]
    return coll, point


def execute(case, ignore=False):
    """Run the real code.  Returns dict(scores, coll, point, pens=(ca,cb,pa,pb), err, tb, log)."""
    import pandas as pd
    from skchange.anomaly_detectors import CAPA, MVCAPA
    from skchange.anomaly_detectors import capa as capa_mod
    from skchange.anomaly_detectors import mvcapa as mv_mod
    api, n, p, m, M, pen = case["api"], case["n"], case["p"], case["m"], case["M"], case["pen"]
    X, cs, ps = make_savings(case, raw_cost=api in ("CAPA", "MVCAPA"))
    out = {"err": None, "tb": [], "log": None, "plog": None, "pens": None, "scores": None, "coll": [], "point": [], "comps": {}}
    try:
        if api == "run_base_capa":
            out["pens"] = (pen["ca"], pen["cb"], pen["pa"], pen["pb"])
            cs.fit(X), ps.fit(X)
            out["log"], out["plog"] = attach_log(cs), attach_log(ps)
            r = mv_mod.run_base_capa(cs, ps, pen["ca"], np.asarray(pen["cb"], dtype=float), pen["pa"],
                                     np.asarray(pen["pb"], dtype=float), m, M)
        elif api == "run_capa":
            out["pens"] = (pen["ca"], [0.0], pen["pa"], [0.0])
            out["log"], out["plog"] = attach_log(cs), attach_log(ps)
            r = capa_mod.run_capa(X, cs, ps, pen["ca"], pen["pa"], m, M)
        elif api in ("run_mvcapa", "MVCAPA"):
            cpen = user_penalty(pen["cpen"]) if isinstance(pen["cpen"], dict) else pen["cpen"]
            ppen = user_penalty(pen["ppen"]) if isinstance(pen["ppen"], dict) else pen["ppen"]
            if api == "run_mvcapa":
                sav_c, sav_p = cs, ps
            else:
                det = MVCAPA(collective_saving=cs, point_saving=ps, collective_penalty=cpen,
                             collective_penalty_scale=pen["cscale"], point_penalty=ppen, point_penalty_scale=pen["pscale"],
                             min_segment_length=m, max_segment_length=M, ignore_point_anomalies=ignore)
                det = alternate_route(det)
                sav_c, sav_p = det._collective_saving, det._point_saving
            ca, cb = resolve_mv_penalty(pen["cpen"], n, p, sav_c.get_param_size(1), pen["cscale"])
            pa, pb = resolve_mv_penalty(pen["ppen"], n, p, sav_p.get_param_size(1), pen["pscale"])
            out["pens"] = (ca, cb, pa, pb)
            out["log"], out["plog"] = attach_log(sav_c), attach_log(sav_p)
            if api == "run_mvcapa":
                r = mv_mod.run_mvcapa(X, cs, ps, cpen, pen["cscale"], ppen, pen["pscale"], m, M)
            else:
                df = rot_frame(X, 3)
                det.fit(df)
                y = det.predict(df)
                scores = det.transform_scores(df)
                ivs = [(iv.left, iv.right) for iv in y["ilocs"]]
                r = (np.asarray(scores, dtype=float).reshape(-1),) + split_intervals(ivs)
                out["ivs"] = ivs
        elif api == "CAPA":
            det = CAPA(collective_saving=cs, point_saving=ps, collective_penalty_scale=pen["cscale"],
                       point_penalty_scale=pen["pscale"], min_segment_length=m, max_segment_length=M,
                       ignore_point_anomalies=ignore)
            det = alternate_route(det)
            out["log"], out["plog"] = attach_log(det._collective_saving), attach_log(det._point_saving)
            df = rot_frame(X, 3)
            det.fit(df)
            out["pens"] = (float(det.collective_penalty_), [0.0], float(det.point_penalty_), [0.0])
            y = det.predict(df)
            scores = det.transform_scores(df)
            ivs = [(iv.left, iv.right) for iv in y["ilocs"]]
            r = (np.asarray(scores, dtype=float).reshape(-1),) + split_intervals(ivs)
            out["ivs"] = ivs
        else:
            raise KeyError(api)
        out["scores"] = np.asarray(r[0], dtype=float).reshape(-1)
        out["coll"] = [(int(a[0]), int(a[1])) for a in r[1]]
        out["point"] = [(int(a[0]), int(a[1])) for a in r[2]]
    except Exception as e:      # noqa: BLE001  (classified by the caller)
        out["err"] = f"{type(e).__name__}: {str(e)[:160]}"
        out["tb"] = [f.name for f in traceback.extract_tb(e.__traceback__)]
    return out


# --------------------------------------------------------------------------- the check

def evaluated_starts(log, T):
    if log is None:
        return None
    got = set()
    for cuts in log:
        got.update(int(s) for s, e in cuts if e == T)
    return got


def pen9(v, alpha, betas):
    """The value a penalisation that charges alpha once per component would give (equal betas).  Used ONLY to name a
    failure that the oracle has already established: is the observed number explained by that mistake?"""
    v = np.asarray(v, dtype=float)
    return float(np.sum(np.maximum(v - betas[0], 0.0) - alpha))


def per_component_possible(alpha, betas, p):
    """Charging alpha once per component can only be observed with p >= 2, alpha > 0 and equal betas (the branch at issue)."""
    return p >= 2 and alpha > 0 and len(set(betas)) == 1


def check_case(rec, case):
    """Execute one case, compare with the statement, record attributed violations.  Returns (nontrivial, summary)."""
    n, p, m, M, api = case["n"], case["p"], case["m"], case["M"], case["api"]
    out = execute(case)
    inp = {"case": case}
    found, loose = [], []      # attributed (key, what, clause) / unattributed (symptom, what, clause)

    Sc, Sp = saving_functions(case)
    if out["pens"] is None:
        rec.violation(f"unexplained:{api}:setup:{(out['err'] or '').split(':')[0]}", f"{api} could not be set up: {out['err']}",
                      "C03.runs", dict(inp, key="setup"))
        return False, None
    ca, cb, pa, pb = out["pens"]
    if min(list(cb) + list(pb) + [ca, pa]) < 0:
        return False, None      # outside the quantifier (negative penalty terms)
    cache = {}

    def psc(s, e):
        if (s, e) not in cache:
            cache[(s, e)] = oracles.pen_subset(Sc(s, e), ca, cb)
        return cache[(s, e)]

    def psp(t):
        if t not in cache:
            cache[t] = oracles.pen_subset(Sp(t), pa, pb)
        return cache[t]

    G = oracles.capa_optimum(psc, psp, n, m, M)
    nontrivial = G[n] > TIE
    pens_txt = f"alpha_c={ca:g} betas_c={cb} alpha_p={pa:g} betas_p={pb}"

    if out["err"] is not None:
        # MVCAPA evaluates the savings of every reported anomaly; an empty point interval [i,i) makes evaluate raise
        if api in ("run_mvcapa", "MVCAPA") and "find_affected_components" in out["tb"] and out["err"].startswith("ValueError"):
            base = dict(case, api="run_base_capa", pen={"ca": ca, "cb": cb, "pa": pa, "pb": pb})
            again = execute(base)
            bad = [a for a in again["point"] if a[1] != a[0] + 1]
            if again["err"] is None and bad:
                found.append((K_POINT, f"{api} (n={n}, p={p}, m={m}, M={M}, {pens_txt}) raises {out['err']!r}: run_base_capa reports the "
                              f"point anomaly at {bad[0][0]} as the empty interval {bad[0]} and find_affected_components evaluates "
                              f"the point saving on it; the statement demands the single-sample anomaly ({bad[0][0]},{bad[0][0] + 1})",
                              "C03.structure"))
        if not found:
            loose.append((f"raises:{out['err'].split(':')[0]}", f"{api} raised {out['err']} (traceback: {out['tb'][-3:]})", "C03.runs"))
        return _report(rec, inp, found, loose, nontrivial, case, G)

    scores = out["scores"]
    if scores.shape != (n,):
        loose.append(("scores-shape", f"{api} returned scores of shape {scores.shape}, expected ({n},)", "C03.score"))
        return _report(rec, inp, found, loose, nontrivial, case, G)
    sc = lambda i: float(scores[i - 1]) if i > 0 else 0.0       # noqa: E731   score of the prefix of length i

    # ---- score == optimum of each prefix
    first = next((T for T in range(1, n + 1) if not close(scores[T - 1], G[T])), None)
    if first is not None:
        T, got, want = first, float(scores[first - 1]), G[first]
        head = (f"{api} (n={n}, p={p}, m={m}, M={M}, {pens_txt}): score of the prefix of length {T} is {got:g}, "
                f"the optimum over admissible anomaly sets is {want:g}")
        pev = evaluated_starts(out["plog"], T)
        if T < m and not pev:
            found.append((K_EARLY, head + f" (the point anomaly at {T - 1} alone saves {psp(T - 1):g}); prefixes shorter than "
                          "min_segment_length are never scored, so point anomalies among the first m-1 samples are never considered",
                          "C03.score"))
        elif got > want + TIE:
            loose.append(("score-above-optimum", head, "C03.score"))
        else:
            opt_point = G[T - 1] + psp(T - 1) >= want - TIE
            opt_starts = [s for s in range(0, T) if m <= T - s <= M and G[s] + psc(s, T) >= want - TIE]
            ev = evaluated_starts(out["log"], T)
            seen = [s for s in opt_starts if ev is None or s in ev]
            if opt_point or seen:
                which = f"the point anomaly at {T - 1} (savings {np.asarray(Sp(T - 1)).tolist()}, penalised {psp(T - 1):g})" if opt_point \
                    else f"the collective anomaly [{seen[0]},{T}) (savings {np.asarray(Sc(seen[0], T)).tolist()}, penalised {psc(seen[0], T):g})"
                low = G[T - 1] + pen9(Sp(T - 1), pa, pb) if opt_point else G[seen[0]] + pen9(Sc(seen[0], T), ca, cb)
                if (per_component_possible(pa, pb, p) if opt_point else per_component_possible(ca, cb, p)) and got >= low - 1e-7:
                    found.append((K_ALPHA, head + f"; the optimal last anomaly is {which} and it was evaluated, so its penalised "
                                  "saving was computed too low (constant penalty charged once per component instead of once)",
                                  "C03.score"))
                elif T < m:
                    loose.append(("short-prefix-score", head, "C03.score"))
                else:
                    loose.append(("score-below-optimum-evaluated", head + f"; optimal last anomaly {which} was evaluated", "C03.score"))
            else:
                # with the TRUE values: a time W at which the documented pruning test G(s)+PS(s,W)+alpha+sum(betas) < G(W) holds
                wit = [(s, W) for s in opt_starts for W in range(s + m, T)
                       if G[s] + psc(s, W) + ca + float(np.sum(cb)) < G[W] - TIE]
                tail = (f"; every optimal last anomaly starts in {opt_starts} but at end {T} only the starts {sorted(ev or [])} were "
                        "evaluated")
                if wit:
                    s, W = wit[-1]
                    found.append((K_PRUNE, head + tail + f": start {s} was discarded by the pruning test at end {W} "
                                  f"(G({s})+PS({s},{W})+penalties = {G[s] + psc(s, W) + ca + float(np.sum(cb)):g} < G({W}) = {G[W]:g}) "
                                  f"although [{W},{T}) is shorter than min_segment_length, so the test does not bound G({T})",
                                  "C03.score"))
                elif per_component_possible(ca, cb, p) and any(
                        G[s] + pen9(Sc(s, W), ca, cb) + ca + float(np.sum(cb)) < G[W] - TIE for s in opt_starts for W in range(s + m, T)):
                    found.append((K_ALPHA, head + tail + ": the optimal start was pruned although the pruning test does not hold for "
                                  "the true penalised savings (they were computed too low: constant penalty charged once per "
                                  "component)", "C03.score"))
                else:
                    loose.append(("optimal-start-not-evaluated", head + tail, "C03.score"))
    if np.any(np.diff(np.concatenate(([0.0], scores))) < -1e-8 * (1 + np.abs(scores))):
        loose.append(("score-decreases", f"{api}: scores {scores.tolist()} are negative or decrease", "C03.monotone"))

    # ---- structure of the reported anomalies
    coll, point = out["coll"], out["point"]
    bad_point = [a for a in point if a[1] != a[0] + 1 or not 0 <= a[0] < n]
    if bad_point:
        i = bad_point[0][0]
        found.append((K_POINT, f"{api} (n={n}, p={p}, m={m}, M={M}, {pens_txt}) reports the point anomaly at sample {i} as the interval "
                      f"{bad_point[0]} (empty); the statement demands single-sample anomalies ({i},{i + 1})", "C03.structure"))
    pts = [a[0] for a in point if 0 <= a[0] < n]
    bad_len = [a for a in coll if not (0 <= a[0] < a[1] <= n and m <= a[1] - a[0] <= M)]
    ivs = sorted([(a, b) for a, b in coll] + [(i, i + 1) for i in pts])
    overlap = [(ivs[k], ivs[k + 1]) for k in range(len(ivs) - 1) if ivs[k][1] > ivs[k + 1][0]]
    if overlap:
        loose.append(("overlap", f"{api}: reported anomalies {overlap[0]} overlap", "C03.structure"))

    # ---- re-evaluation of the reported anomalies
    ok_coll = [a for a in coll if 0 <= a[0] < a[1] <= n]
    total = sum(psc(s, e) for s, e in ok_coll) + sum(psp(i) for i in pts)
    reeval_ok = close(total, sc(n)) and len(ok_coll) == len(coll)
    local_bad = [(s, e) for s, e in ok_coll if not close(sc(e), sc(s) + psc(s, e))]
    if bad_len or not reeval_ok:
        sym = (f"{api} (n={n}, p={p}, m={m}, M={M}, {pens_txt}): reported collective {coll} point {point}, final score {sc(n):g}, "
               f"re-evaluated total {total:g}")
        culprit = (([] if p >= 2 and first is not None else local_bad) or [None])[0]
        if culprit is not None:
            s, e = culprit
            ev = evaluated_starts(out["log"], e)
            found.append((K_START, sym + f"; the anomaly [{s},{e}) (length {e - s}) has penalised saving "
                          f"{psc(s, e) if 0 <= s < e <= n else float('nan'):g} but the score rises by {sc(e) - sc(s):g} over it"
                          + (f"; starts evaluated at end {e}: {sorted(ev)} (not contiguous after pruning, the start is recovered as "
                             "starts[0]+argmax)" if ev is not None else ""), "C03.reeval"))
        elif p >= 2 and first is not None:
            pass        # cannot be told apart from the wrong penalisation already attributed for this case
        elif bad_len:
            loose.append(("collective-length", sym, "C03.structure"))
        else:
            loose.append(("reeval", sym, "C03.reeval"))

    # ---- ignore_point_anomalies (classes)
    if api in ("CAPA", "MVCAPA"):
        ign = execute(case, ignore=True)
        if ign["err"] is not None:
            loose.append((f"ignore-raises:{ign['err'].split(':')[0]}", f"{api}(ignore_point_anomalies=True) raised {ign['err']}", "C03.ignore"))
        else:
            want_ivs = sorted(iv for iv in out["ivs"] if iv[1] - iv[0] >= 2)
            if sorted(ign["ivs"]) != want_ivs:
                found.append((f"{api}:ignore_point_anomalies", f"{api}: with ignore_point_anomalies the output is {ign['ivs']}, without "
                              f"it {out['ivs']}; expected exactly the collective anomalies {want_ivs}", "C03.ignore"))
            elif not close(ign["scores"], scores):
                found.append((f"{api}:ignore_point_anomalies", f"{api}: ignore_point_anomalies changes the scores", "C03.ignore"))
    return _report(rec, inp, found, loose, nontrivial, case, G)


def _report(rec, inp, found, loose, nontrivial, case, G):
    for key, what, clause in found:
        rec.violation(key, what, clause, dict(inp, key=key))
    if not found:
        for sym, what, clause in loose:
            rec.violation(f"unexplained:{sym}", what, clause, dict(inp, key=f"unexplained:{sym}"))
    summary = {"api": case["api"], "n": case["n"], "p": case["p"], "m": case["m"], "M": case["M"], "saving": case["saving"]["kind"],
               "pen": case["pen"], "optimum": G[-1], "violations": [k for k, _, _ in found] or [s for s, _, _ in loose]}
    return nontrivial, summary


def fingerprint(case):
    return hashlib.md5(json.dumps(case, sort_keys=True).encode()).hexdigest()


TARGET = "skchange/anomaly_detectors/mvcapa.py::run_base_capa"


def seed_cases():
    """Smallest known inputs for the five defects read off the pinned tree (DESIGN section 11, rows 7-11); run first so that
    each key is reported with its smallest witness.  They are ordinary members of the scope."""
    l2 = lambda X: {"kind": "l2", "X": X}       # noqa: E731
    tab = np.zeros((4, 4, 1))
    for (a, c), v in {(0, 1): 1, (1, 2): 0, (2, 3): 5, (0, 2): 1, (1, 3): 5, (0, 3): 6}.items():   # sub-additive by inspection
        tab[a, c] = v
    return [
        # row 10: point anomaly reported as [1,1) by CAPA.predict; the same input makes MVCAPA.predict raise ValueError
        {"api": "CAPA", "n": 2, "p": 1, "m": 2, "M": 2, "saving": l2([[0.0], [3.0]]), "pen": {"cscale": 1.0, "pscale": 1.0}},
        {"api": "MVCAPA", "n": 2, "p": 1, "m": 2, "M": 2, "saving": l2([[0.0], [3.0]]),
         "pen": {"cpen": "dense", "cscale": 1.0, "ppen": "sparse", "pscale": 1.0}},
        # row 7: the point anomaly at sample 0 < m-1 is never considered
        {"api": "run_capa", "n": 2, "p": 1, "m": 2, "M": 2, "saving": l2([[1.0], [0.0]]), "pen": {"ca": 0.0, "pa": 0.0}},
        # row 9: savings [0,4] of the point at 1, alpha_p = 1: 4-1 = 3 expected, (0-1)+(4-1) = 2 computed
        {"api": "run_capa", "n": 2, "p": 2, "m": 2, "M": 2, "saving": l2([[0.0, 0.0], [0.0, 2.0]]), "pen": {"ca": 0.0, "pa": 1.0}},
        # row 9 on a collective anomaly: savings [2,2], alpha_c = 1: 3 expected, 2 computed
        {"api": "run_capa", "n": 2, "p": 2, "m": 2, "M": 2, "saving": l2([[1.0, 1.0], [1.0, 1.0]]), "pen": {"ca": 1.0, "pa": 6.0}},
        # row 11: start 0 pruned at end 2, needed at end 3 (table saving), resp. start 1 pruned at end 3, needed at end 4 (L2)
        {"api": "run_base_capa", "n": 3, "p": 1, "m": 2, "M": 3,
         "saving": {"kind": "table", "coll": tab.tolist(), "point": [[0.0], [3.0], [0.0]]},
         "pen": {"ca": 1.0, "cb": [0.0], "pa": 0.0, "pb": [0.0]}},
        {"api": "run_capa", "n": 4, "p": 1, "m": 2, "M": 3, "saving": l2([[0.0], [3.0], [0.0], [3.0]]), "pen": {"ca": 0.0, "pa": 4.0}},
        # row 8: starts [0,2] at end 4, the maximiser is start 2, reported start is 0+1
        {"api": "run_capa", "n": 4, "p": 1, "m": 2, "M": 4, "saving": l2([[1.0], [0.0], [1.0], [1.0]]), "pen": {"ca": 0.0, "pa": 1.0}},
    ]


def exhaustive_cases(tier):
    nmax = 4 if tier == "quick" else 5
    for n in range(2, nmax + 1):
        for p, alphabet in ((1, (0.0, 1.0, 3.0)), (2, (0.0, 2.0))):
            if p == 2 and n > 3:
                continue
            for flat in itertools.product(alphabet, repeat=n * p):
                X = np.array(flat).reshape(n, p)
                for m in range(2, n + 1):
                    for M in range(m, n + 2):
                        for ca in (0.0, 1.0, 4.0):
                            for pa in (0.0, 1.0, 4.0):
                                yield {"api": "run_capa", "n": n, "p": p, "m": m, "M": M,
                                       "saving": {"kind": "l2", "X": X.tolist()}, "pen": {"ca": ca, "pa": pa}}


def run(tier="quick", seed=0, repo="/repo"):
    use_repo(repo)
    rec = Recorder(target=TARGET)
    rng = np.random.default_rng(seed)
    for case in seed_cases():
        nt, summ = check_case(rec, jsonable(case))
        rec.case(fingerprint(jsonable(case)), nt, summ)
    for case in exhaustive_cases(tier):
        nt, summ = check_case(rec, case)
        rec.case(fingerprint(case), nt, summ if nt and rec.evaluations % 997 == 0 else None)
    per_n = 420 if tier == "quick" else 9000
    for n in range(2, 10):
        for _ in range(per_n if n > 2 else per_n // 4):
            case = random_case(rng, n)
            nt, summ = check_case(rec, case)
            rec.case(fingerprint(case), nt, summ if nt and rec.evaluations % 499 == 0 else None)
    inp_long = {"n": 2000, "m": 2, "M": 60, "seed": seed}
    rec.case(("long", 2000, 2, 60), check_long(rec, inp_long), None)
    for dt, scale in (("int32", 20000.0), ("int16", 100.0), ("int64", 2e9)):
        inp_int = {"n": 300, "m": 2, "M": 40, "seed": seed, "dtype": dt, "scale": scale}
        rec.case(("long-int", dt), check_long(rec, inp_int), None)
    return rec.result(RULE, "three series of 300 integral readings held as int32 / int16 / int64 (values beyond the square-root of the type's range); one univariate series of 2000 rows (CAPA class, L2 saving) against the recursion; part A exhaustive: L2, n<=%d (p=1, X in {0,1,3}^n) / n<=3 (p=2, X in {0,2}), 2<=m<=n, m<=M<=n+1, "
                      "alphas in {0,1,4}; part B random (%d cases per n): n<=9, p<=2, 2<=m<=M<=8, sub-additive non-negative "
                      "tables / L2 / Saving(L2Cost), penalty grid {0,.5,2,6} resp. scales {0,.1,.3,1,2}, all penalty shapes, "
                      "5 entry points" % (4 if tier == "quick" else 5, per_n), exhaustive=False)


def check_long(rec, inp):
    """One LONG univariate series through the CAPA class (L2 saving): every cumulative score against the recursion of the statement evaluated
    with NumPy, and the reported anomalies re-evaluated (admissible lengths, disjoint, total == final score).  inp: {"n", "m", "M", "seed"}."""
    import pandas as pd
    from skchange.anomaly_detectors import CAPA
    n, m, M = int(inp["n"]), int(inp["m"]), int(inp["M"])
    rng = np.random.default_rng(int(inp["seed"]))
    x = rng.normal(size=n)
    for a in rng.choice(np.arange(20, n - 80), size=10, replace=False):
        L = int(rng.integers(m, 40))
        x[a:a + L] += rng.choice([-3.0, 2.5, 4.0])
    x[rng.choice(n, size=8, replace=False)] += 9.0
    x[n - 12:n - 2] += 3.5                                  # an anomaly close to the end
    if inp.get("dtype"):
        # integral readings held in an integer dtype (counts, raw sensor units): the optimum is that of the same numbers as float64 --
        # sums of segments and their squares must not wrap around in the narrow type
        x = np.round(x * float(inp["scale"]))
        X = pd.DataFrame(x.reshape(-1, 1).astype(inp["dtype"]))
    else:
        X = pd.DataFrame(x.reshape(-1, 1))
    tgt = "skchange/anomaly_detectors/capa.py::CAPA"
    try:
        det = CAPA(min_segment_length=m, max_segment_length=M).fit(X)
        scores = np.asarray(det.transform_scores(X), dtype=float).reshape(-1)
        y = det.predict(X)
        ivs = [(int(iv.left), int(iv.right)) for iv in y["ilocs"]]
        pc, pp = float(det.collective_penalty_), float(det.point_penalty_)
    except Exception as e:      # noqa: BLE001
        rec.violation("CAPA:long-series:raises", f"CAPA(m={m}, M={M}) on n={n} raised {type(e).__name__}: {str(e)[:120]}", "C03.optimum", {"long": inp}, target=tgt)
        return True
    S = np.concatenate(([0.0], np.cumsum(x)))
    sav = lambda a, e: (S[e] - S[a]) ** 2 / (e - a)           # noqa: E731  (L2 saving of [a, e) against baseline mean 0)
    F = np.zeros(n + 1)
    for t in range(1, n + 1):
        best = max(F[t - 1], F[t - 1] + x[t - 1] ** 2 - pp)
        lo = max(0, t - M)
        if t - m >= lo:
            a = np.arange(lo, t - m + 1)
            best = max(best, float(np.max(F[a] + sav(a, t) - pc)))
        F[t] = best
    bad = np.flatnonzero(np.abs(scores - F[1:]) > 1e-7 * (1.0 + np.abs(F[1:])))
    if len(scores) != n or len(bad):
        k = int(bad[0]) if len(bad) else -1
        rec.violation("run_capa:optimum:long-series", f"CAPA(m={m}, M={M}) on n={n}: {len(bad)} cumulative scores differ from the optimal total penalised saving of the "
                      f"prefix, first at prefix length {k + 1}: {scores[k] if k >= 0 else None!r} vs {F[k + 1] if k >= 0 else None!r}", "C03.optimum", {"long": inp}, target=tgt)
        return True
    tot, last = 0.0, 0
    for a, e in sorted(ivs):
        L = e - a
        if a < last or not (L == 1 or m <= L <= M):
            rec.violation("run_capa:anomalies:long-series", f"CAPA(m={m}, M={M}) on n={n}: reported anomalies {sorted(ivs)[:6]}... overlap or have an inadmissible length "
                          f"at [{a},{e})", "C03.anomalies", {"long": inp}, target=tgt)
            return True
        tot += (x[a] ** 2 - pp) if L == 1 else (sav(a, e) - pc)
        last = e
    if abs(tot - F[n]) > 1e-7 * (1.0 + abs(F[n])):
        rec.violation("run_capa:reevaluation:long-series", f"CAPA(m={m}, M={M}) on n={n}: the {len(ivs)} reported anomalies re-evaluate to {tot!r}, the final score is {F[n]!r}",
                      "C03.reevaluation", {"long": inp}, target=tgt)
    return True


def replay(inp, repo="/repo"):
    use_repo(repo)
    rec = Recorder(max_per_key=5)
    if "long" in inp:
        check_long(rec, inp["long"])
        return {"violated": bool(rec.violations), "detail": rec.violations[0]["what"] if rec.violations else "holds"}
    check_case(rec, inp["case"])
    keys = [v["key"] for v in rec.violations]
    want = inp.get("key")
    hit = [v for v in rec.violations if v["key"] == want] or rec.violations
    if want is not None and want not in keys and keys:
        return {"violated": True, "detail": f"{want} not reproduced, but: {hit[0]['key']}: {hit[0]['what']}"}
    return {"violated": bool(hit), "detail": hit[0]["what"] if hit else "holds"}
