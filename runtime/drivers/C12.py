"""C12 bounded stand-in: detections respect the model's symmetries (column permutation, shift, scale, time reversal).

Two levels, both relational (a run on X against a run on the transformed X; the oracle is the symmetry itself).

Scorer level (n <= 8, p <= 3, EVERY admissible cut, seeded continuous data matrices):
  permutation  every column permutation; per-column outputs of the univariate scorers (costs, change scores, savings, local
               anomaly scores; optimal and fixed parameters, per-column parameters permuted along) are permuted, the single
               output of the multivariate Gaussian scorers is unchanged
  shift        per-column constants in [-10,10]: change scores / local anomaly scores of the optimal-parameter costs and CUSUM
  scale        factors in {0.5, 3}: Gaussian-cost change scores / local anomaly scores (optimal parameter)
  reversal     cost, change-score and local-anomaly-score values (any parameter) equal those of the mirrored cut on the
               time-reversed matrix
  Gaussian cuts with a slice variance below 1e-3 (determinant below 1e-6*prod(diag)) are skipped: rounding is amplified there.

Detector level (n <= 30, p <= 3, seeded data with planted changes / anomalies, small hyper-parameter grids) for PELT,
MovingWindow, SeededBinarySegmentation, CircularBinarySegmentation, CAPA, MVCAPA:
  permutation  all six: changepoints / anomaly intervals unchanged; MVCAPA's affected column sets mapped through the permutation
  shift        PELT / MovingWindow / SeededBinarySegmentation / CircularBinarySegmentation with optimal-parameter costs, CUSUM
  scale        the same four with the Gaussian costs
  reversal     PELT's optimal penalised cost (last entry of transform_scores) is unchanged
  Margin rule: discrete outputs are compared only when the output on X is unchanged under two random perturbations of X of
  relative size 1e-7 (ten times the tolerance): then every decision margin exceeds the rounding error.  A run that raises on
  X itself is not comparable (listed under `observations`, it belongs to C03/C04/C14).
Not demanded by the statement, hence only reported under `observations`: mirrored changepoints / intervals under time reversal
for MovingWindow, PELT and CAPA.
"""
from __future__ import annotations

import itertools

import numpy as np

from runtime.common import Recorder, close, jsonable, use_repo

RULE = ("scorer level: one case per (scorer, data, transform, cut), non-trivial when the score is not ~0 (|v|>1e-9); "
        "detector level: one case per (detector configuration, data, transform), non-trivial when the run on X yields at "
        "least one detection AND passes the margin rule (stable under 1e-7 perturbations) so that outputs were compared; "
        "distinct = those tuples")


# =====================================================================================================================
# transforms
# =====================================================================================================================
def apply_transform(X, t):
    if t["type"] == "perm":
        return X[:, t["perm"]]
    if t["type"] == "shift":
        return X + np.asarray(t["c"], dtype=float)
    if t["type"] == "scale":
        return X * float(t["a"])
    if t["type"] == "reverse":
        return X[::-1].copy()
    raise ValueError(t)


def tlabel(t):
    return {"perm": "permutation", "shift": "shift", "scale": "scale", "reverse": "reversal"}[t["type"]]


def mirror(cut, n):
    return tuple(n - c for c in reversed(cut))


# =====================================================================================================================
# scorer level
# =====================================================================================================================
def scorer_specs(p, pp):
    """pp: {"m": per-column means, "v": per-column variances, "cov": PD matrix} (JSON lists).
    Each spec: name, kind (cost|change|saving|las), k, m (min size), uni (per-column output), optimal, gauss
    ('' | 'var' | 'cov'), make(perm) -> scorer for the data X[:, perm]."""
    from skchange.anomaly_scores import L2Saving, LocalAnomalyScore, Saving
    from skchange.change_scores import CUSUM, ChangeScore
    from skchange.costs import GaussianCovCost, GaussianVarCost, L2Cost
    m, v, cov = np.array(pp["m"], float), np.array(pp["v"], float), np.array(pp["cov"], float)

    costs = [
        ("L2Cost()", lambda perm: L2Cost(), 1, True, True, ""),
        ("L2Cost(0.0)", lambda perm: L2Cost(param=0.0), 1, True, False, ""),
        ("L2Cost(percol)", lambda perm: L2Cost(param=m[perm]), 1, True, False, ""),
        ("GaussianVarCost()", lambda perm: GaussianVarCost(), 2, True, True, "var"),
        ("GaussianVarCost((0,1))", lambda perm: GaussianVarCost(param=(0.0, 1.0)), 2, True, False, "var"),
        ("GaussianVarCost(percol)", lambda perm: GaussianVarCost(param=(m[perm], v[perm])), 2, True, False, "var"),
        ("GaussianCovCost()", lambda perm: GaussianCovCost(), p + 1, False, True, "cov"),
        ("GaussianCovCost(percol,matrix)", lambda perm: GaussianCovCost(param=(m[perm], cov[np.ix_(perm, perm)])), p + 1, False, False, "cov"),
    ]
    out = []
    for name, mk, ms, uni, opt, g in costs:
        out.append(dict(name=name, kind="cost", k=2, m=ms, uni=uni, optimal=opt, gauss=g, make=mk))
        out.append(dict(name=f"ChangeScore({name})", kind="change", k=3, m=ms, uni=uni, optimal=opt, gauss=g,
                        make=(lambda mk: lambda perm: ChangeScore(mk(perm)))(mk)))
        out.append(dict(name=f"LocalAnomalyScore({name})", kind="las", k=4, m=ms, uni=uni, optimal=opt, gauss=g,
                        make=(lambda mk: lambda perm: LocalAnomalyScore(mk(perm)))(mk)))
        if not opt:
            out.append(dict(name=f"Saving({name})", kind="saving", k=2, m=ms, uni=uni, optimal=False, gauss=g,
                            make=(lambda mk: lambda perm: Saving(mk(perm)))(mk)))
    out.append(dict(name="CUSUM()", kind="change", k=3, m=1, uni=True, optimal=True, gauss="", make=lambda perm: CUSUM()))
    out.append(dict(name="L2Saving()", kind="saving", k=2, m=1, uni=True, optimal=False, gauss="", make=lambda perm: L2Saving()))
    return out


def all_cuts(kind, n, m):
    if kind in ("cost", "saving"):
        return [(s, e) for s in range(n) for e in range(s + m, n + 1)]
    if kind == "change":
        return [(s, k, e) for s in range(n) for k in range(s + m, n) for e in range(k + m, n + 1)]
    return [(s, a, b, e) for s in range(n) for a in range(s + 1, n) for b in range(a + m, n) for e in range(b + 1, n + 1)
            if (a - s) + (e - b) >= m]


def slices_of(kind, X, cut):
    if kind in ("cost", "saving"):
        return [X[cut[0]:cut[1]]]
    if kind == "change":
        return [X[cut[0]:cut[1]], X[cut[1]:cut[2]], X[cut[0]:cut[2]]]
    return [X[cut[1]:cut[2]], np.concatenate((X[cut[0]:cut[1]], X[cut[2]:cut[3]])), X[cut[0]:cut[3]]]


def well_conditioned(spec, X, cut):
    if not spec["gauss"] or not (spec["optimal"] or spec["kind"] == "saving"):       # a saving contains the optimal-parameter cost as well
        return True
    for x in slices_of(spec["kind"], X, cut):
        xc = x - x.mean(axis=0)
        if spec["gauss"] == "var":
            if np.min((xc ** 2).mean(axis=0)) < 1e-3:
                return False
        else:
            cov = xc.T @ xc / len(x)
            if not np.linalg.det(cov) > 1e-6 * np.prod(np.diag(cov)) or np.min(np.diag(cov)) < 1e-3:
                return False
    return True


def safe_eval(sc, cuts):
    """evaluate(cuts) -> (array, None); rows that raise the documented RuntimeError are NaN; other errors -> (None, msg)."""
    arr = np.array(cuts, dtype=np.int64)
    try:
        return np.asarray(sc.evaluate(arr), dtype=float), None
    except RuntimeError:
        rows = []
        for c in cuts:
            try:
                rows.append(np.asarray(sc.evaluate(np.array([c], dtype=np.int64)), dtype=float)[0])
            except RuntimeError:
                rows.append(None)
            except Exception as e:
                return None, f"{type(e).__name__}: {e}"[:160]
        width = next((len(r) for r in rows if r is not None), 1)
        return np.array([r if r is not None else np.full(width, np.nan) for r in rows]), None
    except Exception as e:
        return None, f"{type(e).__name__}: {e}"[:160]


def scorer_transforms(spec, p, rng, tier):
    ts = []
    perms = [list(q) for q in itertools.permutations(range(p)) if list(q) != list(range(p))]
    for q in perms:
        ts.append({"type": "perm", "perm": q})
    if spec["kind"] in ("change", "las") and spec["optimal"]:
        ts.append({"type": "shift", "c": [round(float(c), 3) for c in rng.uniform(-10, 10, size=p)]})
        if tier != "quick":
            ts.append({"type": "shift", "c": [round(float(c), 3) for c in rng.uniform(-10, 10, size=p)]})
        if spec["gauss"]:
            ts.append({"type": "scale", "a": 0.5})
            ts.append({"type": "scale", "a": 3.0})
    if spec["kind"] in ("cost", "change", "las"):
        ts.append({"type": "reverse"})
    return ts


def check_scorer(rec, spec, X, label, t, pp, cuts=None, record=True, batch=False):
    n, p = X.shape
    ident = list(range(p))
    cuts = all_cuts(spec["kind"], n, spec["m"]) if cuts is None else cuts
    cuts = [c for c in cuts if well_conditioned(spec, X, c)]
    if not cuts:
        return
    TX = apply_transform(X, t)
    perm = t["perm"] if t["type"] == "perm" else ident
    tcuts = [mirror(c, n) for c in cuts] if t["type"] == "reverse" else cuts
    fam = spec["name"]
    for variant in ("(0.0)", "((0,1))", "(percol,matrix)", "(percol)", "()"):       # one key per scorer class, not per parameter
        fam = fam.replace(variant, "")
    key = f"scorer:{fam}:{tlabel(t)}"
    inp = {"level": "scorer", "scorer": spec["name"], "transform": t, "pp": pp, "X": X, "dtype": str(X.dtype)}
    try:
        base, e0 = safe_eval(spec["make"](ident).fit(X), cuts)
        tr = spec["make"](perm)
        try:                                    # the object scoring the transformed data has a past on the original data
            safe_eval(tr.fit(X), cuts[:1])
        except Exception:
            tr = spec["make"](perm)
        tran, e1 = safe_eval(tr.fit(TX), tcuts)
    except Exception as e:                      # construction / fit failure on one side
        base, tran, e0, e1 = None, None, f"{type(e).__name__}: {e}"[:160], None
    if e0 is not None or e1 is not None:
        rec.violation(key + ":raises", f"{spec['name']} on n={n},p={p}: evaluation raised {e0 or e1} "
                      f"({'original' if e0 else 'transformed'} data, transform {t})", "C12.scorer", dict(inp, cuts=[list(c) for c in cuts]))
        return
    want = base[:, perm] if (t["type"] == "perm" and spec["uni"]) else base
    for i, c in enumerate(cuts):
        if np.any(np.isnan(want[i])) != np.any(np.isnan(tran[i])) and spec["gauss"] == "cov" and t["type"] in ("scale", "shift", "perm"):
            # the slices of this cut are well conditioned (filtered above) and conditioning is invariant under the transform: "not positive
            # definite" on one side only is a difference between the two runs like any other
            side = "the transformed X" if np.any(np.isnan(tran[i])) else "X"
            rec.violation(key + ":raises-one-side", f"{spec['name']} on n={n},p={p}, transform {t}: cut {list(c)} is scored on one side but raises the "
                          f"'not positive definite' RuntimeError on {side}", "C12.scorer", dict(inp, cuts=[list(c)]))
            return
        if np.any(np.isnan(want[i])) or np.any(np.isnan(tran[i])):
            continue
        if record:
            rec.case(("scorer", spec["name"], label, repr(t), c), bool(np.any(np.abs(want[i]) > 1e-9)),
                     {"scorer": spec["name"], "data": label, "transform": t, "cut": list(c)} if (i % 97 == 0) else None)
        if not close(tran[i], want[i]):
            rec.violation(key, f"{spec['name']} on n={n},p={p}, transform {t}: cut {list(c)} scores {base[i].tolist()} on X but "
                          f"{'the mirrored cut ' + str(list(tcuts[i])) if t['type'] == 'reverse' else 'the same cut'} scores "
                          f"{tran[i].tolist()} on the transformed X (expected {want[i].tolist()})"
                          + (f" [evaluated in one call with {len(cuts)} cuts of pairwise distinct outer intervals]" if batch else ""),
                          "C12.scorer", dict(inp, cuts=[list(x) for x in cuts] if batch else [list(c)], batch=batch))
            return


def scorer_level(rec, tier, seed):
    rng = np.random.default_rng(seed)
    wide_cov_scale_check(rec, np.random.default_rng(seed + 77))
    ns = (5, 7) if tier == "quick" else (4, 5, 6, 7, 8)
    reps = 1 if tier == "quick" else 3
    for n in ns:
        for p in (1, 2, 3):
            for r in range(reps):
                X = rng.normal(size=(n, p)) * rng.uniform(0.7, 2.5, size=p) + rng.uniform(-3, 3, size=p)
                pp = make_pp(p, rng)
                label = f"normal{r}-n{n}p{p}"
                for spec in scorer_specs(p, pp):
                    if n < spec["m"]:
                        continue
                    for t in scorer_transforms(spec, p, rng, tier):
                        if t["type"] == "perm" and spec["kind"] == "las" and n > 6 and tier == "quick" and t["perm"] != sorted(t["perm"], reverse=True):
                            continue                     # LocalAnomalyScore refits per cut: one permutation suffices in quick
                        check_scorer(rec, spec, X, label, t, pp)
                        if t["type"] == "reverse" and spec["kind"] in ("change", "las"):
                            # one call with pairwise DISTINCT outer intervals (increasing on X, hence decreasing once mirrored): the
                            # complete enumeration above repeats every outer interval, which hides order-dependent batching
                            seen, sub = set(), []
                            for c in all_cuts(spec["kind"], n, spec["m"]):
                                if (c[0], c[-1]) not in seen:
                                    seen.add((c[0], c[-1]))
                                    sub.append(c)
                            check_scorer(rec, spec, X, label, t, pp, cuts=sub, record=False, batch=True)
                        if t["type"] != "perm" or t["perm"] == sorted(t["perm"], reverse=True):
                            # the same for data held as integers (counts): the statement is about the values, not their dtype;
                            # the shifted / scaled copy is a float array, the original an int64 one
                            check_scorer(rec, spec, np.rint(3 * X).astype(np.int64), label + "-int64", t, pp)


def wide_cov_scale_check(rec, rng):
    """Many columns (p = 8): the determinant of the covariance scales like a**(2p), so anything absolute in the multivariate Gaussian cost
    (a fixed tolerance on the determinant, an additive jitter) shows at moderate scale factors only when p is not tiny."""
    n, p = 24, 8
    X = rng.normal(size=(n, p)) * rng.uniform(0.7, 2.5, size=p) + rng.uniform(-3, 3, size=p)
    pp = make_pp(p, rng)
    for spec in scorer_specs(p, pp):
        if spec["gauss"] != "cov" or not spec["optimal"] or spec["kind"] != "change":      # (the cost itself moves by n p log a^2; its change score does not)
            continue
        cuts = all_cuts(spec["kind"], n, spec["m"])[::7]
        for a in (0.05, 20.0):
            check_scorer(rec, spec, X, f"wide-n{n}p{p}", {"type": "scale", "a": a}, pp, cuts=cuts, record=False)
            rec.case(("scorer-wide", spec["name"], a), True, None)


def make_pp(p, rng):
    a = rng.normal(size=(p, p))
    cov = np.round(a @ a.T + np.eye(p), 2)
    return {"m": [round(float(x), 2) for x in rng.uniform(-2, 2, size=p)], "v": [round(float(x), 2) for x in rng.uniform(0.3, 3, size=p)],
            "cov": ((cov + cov.T) / 2).tolist()}


# =====================================================================================================================
# detector level
# =====================================================================================================================
def make_scorer(name):
    from skchange.anomaly_scores import L2Saving
    from skchange.change_scores import CUSUM
    from skchange.costs import GaussianCovCost, GaussianVarCost, L2Cost
    return {"CUSUM": CUSUM, "L2Cost": L2Cost, "GaussianVarCost": GaussianVarCost, "GaussianCovCost": GaussianCovCost,
            "L2Saving": L2Saving, "L2Cost(0.0)": lambda: L2Cost(param=0.0),
            "GaussianVarCost((0,1))": lambda: GaussianVarCost(param=(0.0, 1.0))}[name]()


def make_detector(spec):
    from skchange.anomaly_detectors import CAPA, MVCAPA, CircularBinarySegmentation
    from skchange.change_detectors import PELT, MovingWindow, SeededBinarySegmentation
    kw = dict(spec["kwargs"])
    for arg in ("cost", "change_score", "anomaly_score", "collective_saving", "point_saving"):
        if arg in kw:
            kw[arg] = make_scorer(kw[arg])
    cls = {"PELT": PELT, "MovingWindow": MovingWindow, "SeededBinarySegmentation": SeededBinarySegmentation,
           "CircularBinarySegmentation": CircularBinarySegmentation, "CAPA": CAPA, "MVCAPA": MVCAPA}[spec["detector"]]
    return cls(**kw)


def run_detector(spec, X, prior=None, fit_on=None):
    """-> ("ok", detections, final score or None) | ("raise", message, None).  detections: sorted list of ints /
    [start, end] / [start, end, sorted columns].  prior: data the same detector object was fitted to and used on before."""
    try:
        det = make_detector(spec)
        if prior is not None:
            try:
                det.fit(prior).predict(prior)
            except Exception:
                det = make_detector(spec)
        det = det.fit(X if fit_on is None else fit_on)      # fit_on: training data other than the data the detections are made on
        y = det.predict(X)
        if spec["detector"] in ("PELT", "MovingWindow", "SeededBinarySegmentation"):
            out = [int(v) for v in y["ilocs"]]
        else:
            iv = y["ilocs"].array
            out = [[int(a), int(b)] for a, b in zip(iv.left, iv.right)]
            if spec["detector"] == "MVCAPA":
                out = [o + [sorted(int(c) for c in cols)] for o, cols in zip(out, y["icolumns"])]
        final = None
        if spec["detector"] == "PELT":
            final = float(np.asarray(det.transform_scores(X)).reshape(-1)[-1])
        return "ok", out, final
    except Exception as e:
        return "raise", f"{type(e).__name__}: {e}"[:200], None


def perturbations(X, seed):
    rng = np.random.default_rng(seed)
    scale = 1e-7 * (np.abs(X).max(axis=0) + X.std(axis=0) + 1e-3)
    return [X + rng.normal(size=X.shape) * scale for _ in range(2)]


def base_run(spec, X, seed):
    """Run on X and apply the margin rule.  -> (status, out, final, stable)"""
    st, out, final = run_detector(spec, X)
    if st != "ok":
        return st, out, final, False
    for Xp in perturbations(X, seed):
        s2, o2, _ = run_detector(spec, Xp)
        if s2 != "ok" or o2 != out:
            return st, out, final, False
    return st, out, final, True


def expected_output(spec, out, t, n):
    if t["type"] == "perm" and spec["detector"] == "MVCAPA":
        inv = {orig: new for new, orig in enumerate(t["perm"])}          # column `orig` of X is column `new` of X[:, perm]
        return [[a, b, sorted(inv[c] for c in cols)] for a, b, cols in out]
    return out


def detector_specs(n, p, tier):
    """Hyper-parameter grid; `sym` lists the transforms the statement demands for that configuration."""
    out = []
    full = tier != "quick"
    # PELT
    for cost, ms in (("L2Cost", (1, 2, 3)), ("GaussianVarCost", (2, 3)), ("GaussianCovCost", (p + 1, p + 2))):
        for m in ms:
            for ps in ((0.5, 1.5) if not full else (0.25, 0.5, 1.0, 1.5)):
                if n < 2 * m:
                    continue
                sym = ["perm", "shift", "reverse"] + (["scale"] if cost != "L2Cost" else [])
                out.append(dict(detector="PELT", kwargs=dict(cost=cost, min_segment_length=m, penalty_scale=ps), sym=sym))
    # MovingWindow
    for score in ("CUSUM", "L2Cost", "GaussianVarCost", "GaussianCovCost"):
        for b in ((2, 3, 5) if not full else (2, 3, 4, 5, 7)):
            if score == "GaussianCovCost" and b < p + 2:
                continue
            for ts in ((0.5, 1.0) if score != "CUSUM" else (0.2, 0.4)):
                if n < 2 * b:
                    continue
                sym = ["perm", "shift"] + (["scale"] if score.startswith("Gaussian") else [])
                out.append(dict(detector="MovingWindow", kwargs=dict(change_score=score, bandwidth=b, threshold_scale=ts), sym=sym))
                if b >= 6:
                    out.append(dict(detector="MovingWindow", kwargs=dict(change_score=score, bandwidth=b, threshold_scale=ts,
                                                                         min_detection_interval=2), sym=sym))
    # SeededBinarySegmentation
    for score, ms in (("CUSUM", (1, 2, 3)), ("L2Cost", (1, 3)), ("GaussianVarCost", (2, 3)), ("GaussianCovCost", (p + 1,))):
        for m in ms:
            for mil in sorted({min(n, 12), n}):
                for ts in ((0.5, 1.0) if score != "CUSUM" else (0.3, 0.6)):
                    if mil < 2 * m + 1 or n < 2 * m + 1:
                        continue
                    sym = ["perm", "shift"] + (["scale"] if score.startswith("Gaussian") else [])
                    out.append(dict(detector="SeededBinarySegmentation",
                                    kwargs=dict(change_score=score, min_segment_length=m, max_interval_length=mil, threshold_scale=ts,
                                                growth_factor=1.5), sym=sym))
    # CircularBinarySegmentation (refits a cost per candidate: kept to n <= 16 in quick, 24 in thorough)
    if n <= (16 if not full else 24):
        for score, ms in (("L2Cost", (2, 3)), ("GaussianVarCost", (2, 3))):
            for m in ms:
                for ts in (0.3, 0.6):
                    sym = ["perm", "shift"] + (["scale"] if score.startswith("Gaussian") else [])
                    out.append(dict(detector="CircularBinarySegmentation",
                                    kwargs=dict(anomaly_score=score, min_segment_length=m, max_interval_length=min(n, 12), threshold_scale=ts),
                                    sym=sym))
    # CAPA / MVCAPA: permutation only (the baseline parameter is fixed, so no shift / scale symmetry is claimed)
    for sav in ("L2Saving", "L2Cost(0.0)", "GaussianVarCost((0,1))"):
        for m in (2, 3):
            for M in sorted({min(n, 8), n}):
                for cps, pps in (((1.0, 1.0), (2.0, 3.0)) if not full else ((0.5, 1.0), (1.0, 1.0), (2.0, 3.0))):
                    if M <= m:
                        continue
                    out.append(dict(detector="CAPA", kwargs=dict(collective_saving=sav, point_saving="L2Saving", min_segment_length=m,
                                                                 max_segment_length=M, collective_penalty_scale=cps, point_penalty_scale=pps),
                                    sym=["perm"]))
    if p >= 2:
        for sav in ("L2Saving", "L2Cost(0.0)"):
            for pen in ("combined", "sparse", "dense") + (("intermediate",) if full else ()):
                for m in (2, 3):
                    for cps, pps in ((1.0, 4.0), (2.0, 2.0)):
                        out.append(dict(detector="MVCAPA", kwargs=dict(collective_saving=sav, point_saving="L2Saving", collective_penalty=pen,
                                                                       min_segment_length=m, max_segment_length=min(n, 10),
                                                                       collective_penalty_scale=cps, point_penalty_scale=pps), sym=["perm"]))
        # point anomalies under non-constant per-component penalties (the affected-column inference uses the point betas)
        for ppen in ("combined", "intermediate"):
            for pps in (0.25, 0.5, 1.0):
                out.append(dict(detector="MVCAPA", kwargs=dict(collective_saving="L2Saving", point_saving="L2Saving", collective_penalty="combined",
                                                               point_penalty=ppen, min_segment_length=2, max_segment_length=min(n, 10),
                                                               collective_penalty_scale=2.0, point_penalty_scale=pps), sym=["perm"]))
    return out


def detector_data(kind, n, p, rng):
    """kind 'change': piecewise-constant mean (and a variance change) in a random subset of columns;
    'anomaly': N(0,1) baseline with 1-2 collective anomalies and possibly a point anomaly."""
    X = rng.normal(size=(n, p))
    if kind == "change":
        k = int(rng.integers(1, 3))
        cps = sorted(rng.choice(np.arange(3, n - 2), size=k, replace=False).tolist()) if n >= 7 else [n // 2]
        for c in cps:
            cols = rng.random(p) < 0.7
            cols[int(rng.integers(0, p))] = True
            X[c:, cols] += rng.choice([-1, 1]) * rng.uniform(2.5, 6.0)
            if rng.random() < 0.3:
                X[c:, cols] *= 2.0
        X = X + rng.uniform(-2, 2, size=p)
    else:
        k = int(rng.integers(1, 3))
        for _ in range(k):
            L = int(rng.integers(2, max(3, min(8, n // 3))))
            s = int(rng.integers(1, n - L))
            cols = rng.random(p) < 0.6
            cols[int(rng.integers(0, p))] = True
            X[s:s + L, cols] += rng.choice([-1, 1]) * rng.uniform(3.0, 6.0)
        if rng.random() < 0.4:
            X[int(rng.integers(0, n)), int(rng.integers(0, p))] += 9.0
    return X


def detector_transforms(spec, p, rng):
    ts = []
    if "perm" in spec["sym"] and p > 1:
        perms = [list(q) for q in itertools.permutations(range(p)) if list(q) != list(range(p))]
        pick = [perms[int(rng.integers(0, len(perms)))]]
        if p == 3:
            pick.append([1, 2, 0] if pick[0] != [1, 2, 0] else [2, 0, 1])
        ts += [{"type": "perm", "perm": q} for q in pick]
    if "shift" in spec["sym"]:
        ts.append({"type": "shift", "c": [round(float(c), 3) for c in rng.uniform(-10, 10, size=p)]})
    if "scale" in spec["sym"]:
        # always one factor that shrinks the data (Gaussian costs of small-variance data are negative: shortcuts that assume non-negative
        # costs only show there) and one drawn from the others; the detection must not hinge on the seed
        ts.append({"type": "scale", "a": 0.2})
        ts.append({"type": "scale", "a": float(rng.choice([0.5, 3.0]))})
    if "reverse" in spec["sym"]:
        ts.append({"type": "reverse"})
    return ts


class Obs:
    def __init__(self):
        self.d = {}

    def add(self, name, differ, example):
        o = self.d.setdefault(name, {"checked": 0, "differ": 0, "example": None})
        o["checked"] += 1
        if differ:
            o["differ"] += 1
            if o["example"] is None:
                o["example"] = jsonable(example)


def check_detector(rec, obs, spec, X, label, t, base, record=True):
    """base = (status, out, final, stable) of the run on X."""
    n, p = X.shape
    st, out, final, stable = base
    name = spec["detector"]
    inp = {"level": "detector", "detector": name, "kwargs": spec["kwargs"], "transform": t, "X": X, "dtype": str(X.dtype)}
    fp = ("detector", name, repr(sorted(spec["kwargs"].items())), label, repr(jsonable(t)))
    if st != "ok":
        if record:
            rec.case(fp, False)
        obs.add(f"{name}: run on the untransformed X raises (not comparable; see C03/C04/C14)", True,
                {"kwargs": spec["kwargs"], "X": X, "error": out})
        return
    s2, o2, f2 = run_detector(spec, apply_transform(X, t), prior=X)
    if t["type"] == "reverse":
        # demanded: PELT's optimal penalised cost is unchanged (a float: no margin rule needed)
        if record:
            rec.case(fp, len(out) > 0, {"detector": name, "kwargs": spec["kwargs"], "data": label, "transform": t, "changepoints": out,
                                        "optimal_cost": final})
        if s2 != "ok":
            rec.violation(f"{name}:reversal:raises", f"{name}({spec['kwargs']}) runs on X (n={n},p={p}) but raises on the time-reversed X: {o2}",
                          "C12.detector", inp)
        elif not close(final, f2):
            rec.violation(f"{name}:reversal:optimal-cost", f"{name}({spec['kwargs']}) on n={n},p={p}: optimal penalised cost {final!r} "
                          f"(changepoints {out}) but {f2!r} on the time-reversed X (changepoints {o2}, mirrored {sorted(n - c for c in o2)})",
                          "C12.detector", inp)
        if s2 == "ok" and stable:
            obs.add(f"{name}: changepoints mirrored under time reversal (not demanded by the statement)", sorted(n - c for c in o2) != out,
                    {"kwargs": spec["kwargs"], "X": X, "changepoints": out, "reversed_run_mirrored": sorted(n - c for c in o2)})
        return
    if name == "MovingWindow" and t["type"] in ("shift", "perm"):
        # the score series itself (no decision involved, so no margin rule): the moving-window score at every position is a change score of two
        # windows, hence unchanged by a per-column shift / a column permutation -- also when X holds integers and the shifted copy floats
        try:
            sa = np.asarray(make_detector(spec).fit(X).transform_scores(X), dtype=float).reshape(-1)
            sb = np.asarray(make_detector(spec).fit(apply_transform(X, t)).transform_scores(apply_transform(X, t)), dtype=float).reshape(-1)
            if sa.shape != sb.shape or not np.allclose(sa, sb, rtol=1e-6, atol=1e-6 * (1.0 + float(np.max(np.abs(sa))))):
                k = int(np.argmax(np.abs(sa - sb))) if sa.shape == sb.shape else -1
                rec.violation(f"{name}:{tlabel(t)}:scores", f"{name}({spec['kwargs']}) on n={n},p={p} ({X.dtype} data): transform_scores differ between X and the "
                              f"transformed X ({t}), e.g. position {k}: {sa[k] if k >= 0 else sa.shape!r} vs {sb[k] if k >= 0 else sb.shape!r}", "C12.detector", inp)
        except Exception:                                                       # noqa: BLE001  (raising runs are judged below)
            pass
    if not stable:
        if record:
            rec.case(fp, False)
        return
    want = expected_output(spec, out, t, n)
    if record:
        rec.case(fp, len(out) > 0, {"detector": name, "kwargs": spec["kwargs"], "data": label, "transform": t, "output": out}
                 if len(out) > 0 else None)
    if s2 != "ok":
        rec.violation(f"{name}:{tlabel(t)}:raises", f"{name}({spec['kwargs']}) returns {out} on X (n={n},p={p}) but raises on the transformed X "
                      f"({t}): {o2}", "C12.detector", inp)
    elif o2 != want:
        what = "affected columns" if name == "MVCAPA" and [r[:2] for r in o2] == [r[:2] for r in want] else "detections"
        rec.violation(f"{name}:{tlabel(t)}" + (":columns" if what == "affected columns" else ""),
                      f"{name}({spec['kwargs']}) on n={n},p={p}: {what} {out} on X (stable under 1e-7 perturbations) but {o2} on the "
                      f"transformed X ({t}); expected {want}", "C12.detector", inp)
    elif t["type"] == "perm" and p >= 2:
        # the same with labelled frames: the detector fitted on the frame of X is asked about the frame whose columns (labels travelling
        # with them) are permuted; what it learnt in fit depends on the shape only, so the detections are those of the permuted data
        import pandas as pd
        df = pd.DataFrame(np.asarray(X), columns=[f"v{j}" for j in range(p)])
        s3, o3, _ = run_detector(spec, df.iloc[:, list(t["perm"])], fit_on=df)
        if s3 != "ok" or o3 != want:
            rec.violation(f"{name}:{tlabel(t)}:fitted-on-original",
                          f"{name}({spec['kwargs']}) on n={n},p={p}: fitted on the labelled frame of X it reports {out} for X, but "
                          f"{o3 if s3 == 'ok' else 'raises ' + str(o3)} for the frame with the columns permuted ({t}); expected {want}",
                          "C12.detector", inp)


def reversal_observation(obs, spec, X, base):
    """Not demanded by the statement: mirrored detections under time reversal (MovingWindow, CAPA)."""
    st, out, final, stable = base
    if st != "ok" or not stable:
        return
    n = len(X)
    s2, o2, _ = run_detector(spec, X[::-1].copy(), prior=X)
    if s2 != "ok":
        return
    if spec["detector"] == "MovingWindow":
        mir = sorted(n - c for c in o2)
    else:
        mir = sorted([n - b, n - a] for a, b in o2)
    obs.add(f"{spec['detector']}: detections mirrored under time reversal (not demanded by the statement)", mir != out,
            {"kwargs": spec["kwargs"], "X": X, "detections": out, "reversed_run_mirrored": mir})


def spread_ok(X, m):
    """Every window of m consecutive rows has variance >= 1e-4 in every column (else the Gaussian cost sits at its 1e-16
    variance floor, where prefix-sum rounding decides the value: outside 'moderate dynamic range')."""
    for s in range(len(X) - m + 1):
        if np.min(X[s:s + m].var(axis=0)) < 1e-4:
            return False
    return True


def pelt_reversal_sweep(rec, obs, tier, seed):
    """PELT's optimal penalised cost under time reversal on small n first (a float comparison: no margin rule, two runs)."""
    rng = np.random.default_rng(seed + 55)
    reps = 3 if tier == "quick" else 12
    for n in range(4, 13):
        for p in (1, 2):
            for r in range(reps):
                X = detector_data("change", n, p, rng)
                if not spread_ok(X, 2):
                    continue
                for cost, ms in (("L2Cost", (1, 2, 3)), ("GaussianVarCost", (2, 3))):
                    for m in ms:
                        if n < 2 * m:
                            continue
                        for ps in (0.1, 0.3, 0.6, 1.0):
                            spec = dict(detector="PELT", kwargs=dict(cost=cost, min_segment_length=m, penalty_scale=ps), sym=["reverse"])
                            st, out, final = run_detector(spec, X)
                            check_detector(rec, obs, spec, X, f"small{r}-n{n}p{p}", {"type": "reverse"}, (st, out, final, False))


def crafted_scale_cases(rec, obs):
    """Seed-independent: PELT with the Gaussian costs on clean mean-jump data, shrunk by 0.2 / 0.1 / 0.05 (the Gaussian cost of small-variance data is
    negative -- a shortcut that assumes non-negative costs, or an absolute tolerance, only shows there) and blown up by 5."""
    rng = np.random.default_rng(20240611)
    for n, p, cost in ((40, 1, "GaussianVarCost"), (48, 2, "GaussianVarCost"), (48, 2, "GaussianCovCost")):
        X = rng.normal(size=(n, p))
        X[n // 2:] += 3.0
        for m, ps in ((4, 1.0), (5, 2.0)):
            spec = dict(detector="PELT", kwargs=dict(cost=cost, min_segment_length=m, penalty_scale=ps), sym=["scale"])
            base = base_run(spec, X, 77)
            for a in (0.2, 0.1, 0.05, 5.0):
                check_detector(rec, obs, spec, X, f"crafted-jump-n{n}p{p}", {"type": "scale", "a": a}, base)


def detector_level(rec, obs, tier, seed):
    pelt_reversal_sweep(rec, obs, tier, seed)
    crafted_scale_cases(rec, obs)
    rng = np.random.default_rng(seed + 101)
    shapes = [(12, 1), (12, 2), (16, 3), (20, 2), (30, 1), (30, 2)] if tier == "quick" else \
             [(n, p) for n in (10, 12, 16, 20, 24, 30) for p in (1, 2, 3)]
    reps = 1 if tier == "quick" else 3
    di = 0
    for n, p in shapes:
        for r in range(reps):
            data = {"change": detector_data("change", n, p, rng), "anomaly": detector_data("anomaly", n, p, rng)}
            while not (spread_ok(data["change"], 2) and spread_ok(data["anomaly"], 2)):
                data = {"change": detector_data("change", n, p, rng), "anomaly": detector_data("anomaly", n, p, rng)}
            for spec in detector_specs(n, p, tier):
                kind = "anomaly" if spec["detector"] in ("CAPA", "MVCAPA", "CircularBinarySegmentation") else "change"
                X = data[kind]
                label = f"{kind}{r}-n{n}p{p}"
                di += 1
                if di % 3 == 0:                          # data held as integers (counts); the shifted / scaled copies are float arrays
                    Xi = next((Z for Z in (np.rint(f * X).astype(np.int64) for f in (4, 8, 16, 64)) if spread_ok(Z, 2)), None)
                    if Xi is not None:                   # (rounding may tie neighbours: zero-variance windows are outside the margin rule)
                        X, label = Xi, label + "-int64"
                ts = detector_transforms(spec, p, rng)
                base = base_run(spec, X, seed * 1000003 + di)
                for t in ts:
                    check_detector(rec, obs, spec, X, label, t, base)
                if spec["detector"] in ("MovingWindow", "CAPA") and di % 2 == 0:
                    reversal_observation(obs, spec, X, base)


# =====================================================================================================================
def run(tier="quick", seed=0, repo="/repo"):
    use_repo(repo)
    rec = Recorder(target="skchange (scorers and detectors): pairs of runs on X and on the transformed X", max_samples=12)
    obs = Obs()
    scorer_level(rec, tier, seed)
    n_scorer = rec.evaluations
    detector_level(rec, obs, tier, seed)
    return rec.result(RULE, "scorer level: n in {5,7} (thorough 4..8), p in 1..3, every admissible cut, all column permutations, "
                            "shifts in [-10,10]^p, scales {0.5,3}, reversal; detector level: n in 12..30 (thorough 10..30), p in 1..3, "
                            "6 detectors x small hyper-parameter grids, 1-2 permutations + one shift + one scale + reversal (PELT) per "
                            "configuration; data seeded, float64 and (every third configuration / one transform per scorer) int64; the object that scores the transformed data was fitted to and used on the original data before", exhaustive=False,
                      observations=obs.d, scorer_level_evaluations=n_scorer, detector_level_evaluations=rec.evaluations - n_scorer)


def replay(inp, repo="/repo"):
    use_repo(repo)
    X = np.array(inp["X"], dtype=inp.get("dtype", "float64"))
    n, p = X.shape
    rec, obs = Recorder(), Obs()
    t = inp["transform"]
    if inp["level"] == "scorer":
        pp = inp.get("pp") or make_pp(p, np.random.default_rng(0))
        spec = next(s for s in scorer_specs(p, pp) if s["name"] == inp["scorer"])
        check_scorer(rec, spec, X, "replay", t, pp, cuts=[tuple(int(v) for v in c) for c in inp["cuts"]], record=False,
                     batch=bool(inp.get("batch")))
    else:
        spec = {"detector": inp["detector"], "kwargs": inp["kwargs"], "sym": []}
        base = base_run(spec, X, 12345)
        check_detector(rec, obs, spec, X, "replay", t, base, record=False)
        if not rec.violations and base[0] == "ok" and not base[3] and t["type"] != "reverse":
            return {"violated": False, "detail": "margin rule: output on X not stable under 1e-7 perturbations, not comparable"}
    return {"violated": bool(rec.violations), "detail": rec.violations[0]["what"] if rec.violations else "holds"}
