"""C04 bounded stand-in: detections are well-formed and respect the configured length limits (all seven detectors).

Scope: every detector x a grid of documented-valid hyper-parameters (boundary values first: min_segment_length 1 / 2,
bandwidth 1, max_interval_length = 2*min_segment_length, max_segment_length = min_segment_length, growth factor 2,
penalties / thresholds 0 and small so that detections occur, tuned thresholds) x adversarial small data (constant,
ties, isolated and adjacent spikes, steps at every position incl. the first / last admissible one, blocks at every
position incl. touching 0 and n, integer-valued and Gaussian noise) for n from the documented minimum length up to 8
(thorough: 11) and p in 1..4.  The cross product configurations x datasets is thinned by a deterministic rotation
(`stride`): configuration i meets dataset j at length n iff (i + j + n) % stride == 0, with the stride chosen per detector
so that every dataset meets about 6 (quick) / 30 (thorough) of its configurations for p = 1 and a quarter / third of that
for each p in 2..4.
Oracle: `oracles_C04.wellformed` = the clauses of the statement, evaluated on the frame returned by predict.
Part two (exhaustive): the three `_format_sparse_output` functions on every detection list for n <= 5 (thorough 7).
"""
from __future__ import annotations

import itertools
import json

import numpy as np

from runtime import oracles_C04 as oc
from runtime.common import use_repo

RULE = ("configuration grid x adversarial datasets, thinned by rotation; a case is non-trivial when predict reports at "
        "least one detection (so the structural clauses have something to say) or raises; distinct = "
        "(configuration, n, p, dataset); plus exhaustive enumeration of detection lists for the three output formatters "
        "(every list counts as non-trivial when non-empty)")


# ------------------------------------------------------------------------------------------------ configurations

def configs(det, tier):
    th = tier != "quick"
    out = []
    if det == "PELT":
        for m in (1, 2, 3) + ((4,) if th else ()):
            for ps in (0.0, 0.05, 1.0) + ((0.3,) if th else ()):
                out.append({"det": det, "params": {"min_segment_length": m, "penalty_scale": ps}, "scorer": None})
                if m >= 2:
                    out.append({"det": det, "params": {"min_segment_length": m, "penalty_scale": ps}, "scorer": "GVar"})
                if th and m >= 3:
                    out.append({"det": det, "params": {"min_segment_length": m, "penalty_scale": ps}, "scorer": "GCov"})
    elif det == "MovingWindow":
        for b in (1, 2, 3) + ((4, 6) if th else ()):
            # level is documented only as a float (Appendix B: any value in (0, 1)); large levels make the default threshold small
            for ts, lv in ((0.0, 0.01), (0.05, 0.01), (None, 0.01), (None, 0.5), (1.0, 0.999)) + (((None, 0.99), (1.0, 0.2)) if th else ()):
                for sc in (None, "L2") + (("GVar",) if b >= 2 else ()):
                    out.append({"det": det, "params": {"bandwidth": b, "threshold_scale": ts, "level": lv}, "scorer": sc})
            if b == 6:
                out.append({"det": det, "params": {"bandwidth": b, "threshold_scale": 0.05, "min_detection_interval": 2}, "scorer": None})
    elif det in ("SeededBinarySegmentation", "CircularBinarySegmentation"):
        for m in (1, 2, 3):
            for M in (2 * m, 2 * m + 1, 200):
                for g in (1.5, 2.0) + ((1.1,) if th else ()):
                    for ts in (0.0, 0.05) + ((None,) if (th or (M == 200 and g == 1.5)) else ()):
                        scs = [None]
                        if M == 200 and g == 1.5:
                            scs.append("L2" if det.startswith("Seeded") else "GVar" if m >= 2 else None)
                        if th and m >= 2:
                            scs.append("GVar")
                        for sc in dict.fromkeys(scs):
                            out.append({"det": det, "params": {"min_segment_length": m, "max_interval_length": M, "growth_factor": g,
                                                               "threshold_scale": ts, "level": 0.3 if ts is None else 1e-8},
                                        "scorer": sc})
    elif det in ("CAPA", "MVCAPA"):
        pens = [(None, None)] if det == "CAPA" else [("combined", "sparse"), ("dense", "dense"), ("sparse", "combined"),
                                                     ("intermediate", "intermediate")]
        for m in (2, 3):
            for M in (m, m + 1, 1000):
                for k, (cs, pts) in enumerate(((0.0, 0.0), (0.05, 0.05), (0.05, 5.0), (5.0, 0.05))):
                    for ign in (False, True):
                        for j, (cp, pp) in enumerate(pens):
                            if det == "MVCAPA" and not th and (j + k + m + ign) % 2:      # quick: half of the penalty crossings
                                continue
                            prm = {"min_segment_length": m, "max_segment_length": M, "collective_penalty_scale": cs,
                                   "point_penalty_scale": pts, "ignore_point_anomalies": ign}
                            if cp is not None:
                                prm["collective_penalty"], prm["point_penalty"] = cp, pp
                            out.append({"det": det, "params": prm, "scorer": None})
                            if (th or (M == 1000 and not ign)) and cs == 0.05:
                                out.append({"det": det, "params": prm, "scorer": "L2"})
                                out.append({"det": det, "params": prm, "scorer": "GVar"})
    elif det == "StatThresholdAnomaliser":
        inners = [{"det": "PELT", "params": {"min_segment_length": 1, "penalty_scale": 0.05}, "scorer": None},
                  {"det": "PELT", "params": {"min_segment_length": 2, "penalty_scale": 0.0}, "scorer": None},
                  {"det": "MovingWindow", "params": {"bandwidth": 2, "threshold_scale": 0.05}, "scorer": None},
                  {"det": "SeededBinarySegmentation", "params": {"min_segment_length": 1, "max_interval_length": 200, "threshold_scale": 0.05},
                   "scorer": None}]
        for inner in inners:
            for lo, up in ((-1.0, 1.0), (0.0, 0.0), (-100.0, 100.0), (5.0, 5.0)):
                for stat in ("mean", "median"):
                    out.append({"det": det, "params": {"stat_lower": lo, "stat_upper": up}, "inner": inner, "stat": stat})
    return out


# ------------------------------------------------------------------------------------------------ data

def base_signals(n, rng, tier):
    """Univariate adversarial signals of length n: list of (label, 1-D array)."""
    out = [("const0", np.zeros(n)), ("const5", np.full(n, 5.0)), ("alt01", np.arange(n) % 2 * 1.0)]
    for k in sorted({0, 1, n // 2, n - 2, n - 1} & set(range(n))):
        x = np.zeros(n)
        x[k] = 10.0
        out.append((f"spike@{k}", x))
    for k in sorted({0, n // 2, n - 2} & set(range(n - 1))):
        x = np.zeros(n)
        x[k:k + 2] = 10.0
        out.append((f"spike2@{k}", x))
    if n >= 4:
        x = np.zeros(n)
        x[0] = x[n - 1] = 10.0
        out.append(("spikes@ends", x))
        x = np.zeros(n)
        x[1] = 10.0
        x[n - 2] = -10.0
        out.append(("spikes@1,n-2", x))
    for k in range(1, n):                                   # steps at every position (first / last admissible included)
        x = np.zeros(n)
        x[k:] = 10.0
        out.append((f"step@{k}", x))
    for s in range(n):                                      # blocks at every position, touching 0 and n
        for ln in (2, 3, 4):
            if s + ln <= n and (s in (0, 1, n - ln, n - ln - 1) or tier != "quick" or (s + ln) % 2 == 0):
                x = np.zeros(n)
                x[s:s + ln] = 10.0
                out.append((f"block[{s},{s + ln})", x))
    for s in range(0, max(n - 3, 0), 2):                    # two adjacent anomalies of opposite sign
        x = np.zeros(n)
        x[s:s + 2] = 10.0
        x[s + 2:s + 4] = -10.0
        out.append((f"adjacent[{s},{s + 4})", x))
    for r in range(3 if tier == "quick" else 6):
        out.append((f"randint#{r}", rng.choice([-5.0, -1.0, 0.0, 0.0, 1.0, 5.0], size=n)))
    for r in range(2 if tier == "quick" else 4):
        out.append((f"normal#{r}", rng.normal(size=n)))
        out.append((f"normal+0.1#{r}", 0.1 + 1e-3 * rng.normal(size=n)))
    return out


def datasets(n, p, rng, tier):
    sig = base_signals(n, rng, tier)
    if p == 1:
        return [(lab, x.reshape(-1, 1)) for lab, x in sig]
    # weak but dense shifts: every column moves a little, no single column stands out (subset inference must still name columns)
    out = [(f"dense-weak{c}", np.full((n, p), c)) for c in (1.34, 1.5, 2.0)]
    X = np.zeros((n, p))
    X[n // 2:] = 1.2
    out.append(("dense-weak-step", X))
    for i, (lab, x) in enumerate(sig):
        v = i % 3
        X = np.zeros((n, p))
        if v == 0:                                          # the same signal in every column
            X[:] = x.reshape(-1, 1)
            out.append((lab + "/all", X))
        elif v == 1:                                        # only the last column carries the signal
            X[:, p - 1] = x
            out.append((lab + "/last", X))
        else:                                               # the signal, its mirror image, and constants
            X[:, 0] = x
            X[:, 1] = -x[::-1]
            out.append((lab + "/mixed", X))
    return out


# ------------------------------------------------------------------------------------------------ one case

def check_case(rec, spec, X, repo):
    """Run one (configuration, data) case; record violations; return (ran, number of detections)."""
    n, p = X.shape
    # the row index rotates over default / shifted / strided integer labels (a deterministic function of the case): positions, not labels, are reported
    container = ("frame", "frame-shifted", "frame-strided")[(n + p + len(json.dumps(spec, sort_keys=True))) % 3]
    stage, y, exc, site = oc.attempt(spec, X, X, repo, container)
    det = spec["det"]
    inp = {"spec": spec, "X": X, "container": container}
    if exc is not None:
        name = type(exc).__name__
        if det == "StatThresholdAnomaliser" and p > 1:
            return False, 0                                 # univariate by its tags: rejecting a wider frame is allowed, a malformed answer is not
        if name == "RuntimeError" and oc.may_be_not_pd(spec):
            return False, 0                                 # documented: sample covariance not positive definite
        if name == "ValueError" and not oc.compatible(spec, p):
            return False, 0                                 # documented: the cost cannot score such short segments
        rec.violation(f"{det}:{name}@{site}",
                      f"{det}({json.dumps(spec.get('params'))}, scorer={spec.get('scorer') or spec.get('inner', {}).get('det')}) on valid data "
                      f"n={n} p={p}: {stage} raised {name}: {str(exc)[:120]}", "C04.returns-a-frame", inp)
        return True, -1
    for s, msg in oc.wellformed(spec, y, n, p):
        rec.violation(oc.qualify(det, s), f"{det}({json.dumps(spec.get('params'))}) n={n} p={p}: {msg}", f"C04.{s}", inp)
    return True, oc.n_detections(y)


# ------------------------------------------------------------------------------------------------ formatter part

def interval_sets(n):
    """All sorted lists of pairwise disjoint non-empty intervals with integer end points in [0, n]."""
    def rec_(pos):
        yield []
        for a in range(pos, n):
            for b in range(a + 1, n + 1):
                for rest in rec_(b):
                    yield [(a, b)] + rest
    return list(rec_(0))


def check_formatters(rec, nmax):
    from skchange.anomaly_detectors.base import CollectiveAnomalyDetector, SubsetCollectiveAnomalyDetector
    from skchange.change_detectors.base import ChangeDetector
    for n in range(2, nmax + 1):
        for r in range(0, n):
            for c in itertools.combinations(range(1, n), r):
                for kind, arg in (("list", list(c)), ("int64-list", [np.int64(v) for v in c]),
                                  ("array", np.array(c, dtype=np.int64) if c else np.array([]))):
                    spec = {"det": "PELT", "params": {"min_segment_length": 1}}
                    try:
                        y = ChangeDetector._format_sparse_output(arg)
                        bad = oc.wellformed(spec, y, n, 1)
                        if not bad and [int(v) for v in y["ilocs"]] != list(c):
                            bad = [("format-changes-values", f"{list(c)} became {list(y['ilocs'])}")]
                    except Exception as e:  # noqa: BLE001
                        bad = [(f"format-raises-{type(e).__name__}", str(e)[:100])]
                    for s, msg in bad:
                        rec.violation(f"ChangeDetector._format_sparse_output:{s}", f"changepoints {list(c)} ({kind}): {msg}", f"C04.{s}",
                                      {"formatter": "change", "detections": list(c), "kind": kind, "n": n})
                    rec.case(("fmt-change", n, c, kind), len(c) > 0)
        for ivs in interval_sets(n):
            spec = {"det": "StatThresholdAnomaliser"}
            try:
                y = CollectiveAnomalyDetector._format_sparse_output([(np.int64(a), b) for a, b in ivs])
                bad = oc.wellformed(spec, y, n, 1)
                if not bad and [(int(i.left), int(i.right)) for i in y["ilocs"]] != ivs:
                    bad = [("format-changes-values", f"{ivs} became {list(y['ilocs'])}")]
            except Exception as e:  # noqa: BLE001
                bad = [(f"format-raises-{type(e).__name__}", str(e)[:100])]
            for s, msg in bad:
                rec.violation(f"CollectiveAnomalyDetector._format_sparse_output:{s}", f"intervals {ivs}: {msg}", f"C04.{s}",
                              {"formatter": "collective", "detections": ivs, "n": n})
            rec.case(("fmt-coll", n, tuple(ivs)), len(ivs) > 0)
            # subset formatter: rotate through column subsets of p = 3
            subsets = [list(s) for r in (1, 2, 3) for s in itertools.permutations(range(3), r)]
            cols = [subsets[(i + len(ivs) + n) % len(subsets)] for i in range(len(ivs))]
            spec = {"det": "MVCAPA", "params": {"min_segment_length": 1, "max_segment_length": n}}
            try:
                y = SubsetCollectiveAnomalyDetector._format_sparse_output([(a, b, np.array(c)) for (a, b), c in zip(ivs, cols)])
                bad = oc.wellformed(spec, y, n, 3)
                if not bad and ([(int(i.left), int(i.right)) for i in y["ilocs"]] != ivs or [list(map(int, c)) for c in y["icolumns"]] != cols):
                    bad = [("format-changes-values", f"{ivs}/{cols} became {list(y['ilocs'])}/{list(y['icolumns'])}")]
            except Exception as e:  # noqa: BLE001
                bad = [(f"format-raises-{type(e).__name__}", str(e)[:100])]
            for s, msg in bad:
                rec.violation(f"SubsetCollectiveAnomalyDetector._format_sparse_output:{s}", f"intervals {ivs} columns {cols}: {msg}", f"C04.{s}",
                              {"formatter": "subset", "detections": ivs, "columns": cols, "n": n})
            rec.case(("fmt-subset", n, tuple(ivs)), len(ivs) > 0)


# ------------------------------------------------------------------------------------------------ driver interface

def n_values(spec, tier):
    lo = oc.min_length(spec)
    hi = 8 if tier == "quick" else 11
    return sorted({lo, lo + 1, max(lo, hi)} | ({max(lo, 6)} if tier != "quick" else set()))


def run(tier="quick", seed=0, repo="/repo"):
    use_repo(repo)
    rec = oc.MinRecorder(target="skchange/*_detectors/*.py::<Detector>.fit(X).predict(X)")
    quick = tier == "quick"
    ps = (1, 2, 3, 4)
    data_cache = {}
    for det in oc.DETECTORS:
        cfgs = configs(det, tier)
        for p in ps:
            if det == "StatThresholdAnomaliser" and p > 3:
                continue                                    # documented as univariate: wider frames are judged only where they are accepted (see check_case)
            # every dataset meets about 6 (quick) / 30 (thorough) configurations of the detector for p = 1, a third of that
            # (quick: a quarter) for each p > 1
            base = max(1, len(cfgs) // (6 if quick else 30))
            stride = base if p == 1 else base * (4 if quick else 3)
            for ci, spec in enumerate(cfgs):
                if det == "MVCAPA" and p == 1 and "intermediate" in (spec["params"].get("collective_penalty"), spec["params"].get("point_penalty")):
                    continue                                # documented ValueError for p = 1
                if not oc.compatible(spec, p):
                    continue                                # C04 quantifies over valid settings only
                sj = json.dumps(spec, sort_keys=True)
                for n in n_values(spec, tier):
                    if (n, p) not in data_cache:
                        data_cache[(n, p)] = datasets(n, p, np.random.default_rng([seed, n, p]), tier)
                    for di, (lab, X) in enumerate(data_cache[(n, p)]):
                        if (ci + di + n) % stride:
                            continue
                        ran, k = check_case(rec, spec, X, repo)
                        if ran:
                            rec.case((sj, n, p, lab), k != 0,
                                     {"spec": spec, "n": n, "p": p, "data": lab, "detections": k} if k > 0 and (ci + di) % 97 == 0 else None)
                            rec.group(det, k != 0)
    # crafted MVCAPA cases with the DEFAULT penalty scales: a dense shift that is detected although no single column beats the
    # per-column (sparse) penalty - the affected-column list must still be non-empty, distinct and valid
    crafted = [("dense-weak 2x4", np.full((2, 4), 1.5), {"min_segment_length": 2, "max_segment_length": 2}),
               ("dense-weak 3x4", np.full((3, 4), 1.34), {"min_segment_length": 2, "max_segment_length": 3}),
               ("dense-weak 3x4/m3", np.full((3, 4), 1.34), {"min_segment_length": 3, "max_segment_length": 3})]
    Xd = np.zeros((120, 10))
    Xd[60:70] = 0.9
    crafted.append(("dense-weak 120x10", Xd, {"min_segment_length": 2, "max_segment_length": 20}))
    for lab, X, params in crafted:
        spec = {"det": "MVCAPA", "params": params}
        ran, k = check_case(rec, spec, X, repo)
        if ran:
            rec.case((json.dumps(spec, sort_keys=True), X.shape, lab), k != 0, {"spec": spec, "data": lab, "detections": k})
            rec.group("MVCAPA", k != 0)
    check_formatters(rec, 5 if quick else 7)
    return rec.result(RULE, f"7 detectors; n from the documented minimum length to {8 if quick else 11}; p in 1..4; grid of boundary and interior "
                            f"hyper-parameters; rotation so that each dataset meets ~{6 if quick else 30} configurations per detector (p=1), fewer for p>1; formatters: all detection lists, n <= "
                            f"{5 if quick else 7}", exhaustive=False)


def replay(inp, repo="/repo"):
    use_repo(repo)
    rec = oc.MinRecorder()
    if "formatter" in inp:
        from skchange.anomaly_detectors.base import CollectiveAnomalyDetector, SubsetCollectiveAnomalyDetector
        from skchange.change_detectors.base import ChangeDetector
        n, d = inp["n"], inp["detections"]
        try:
            if inp["formatter"] == "change":
                arg = {"list": list(d), "int64-list": [np.int64(v) for v in d]}.get(inp.get("kind"), np.array(d, dtype=np.int64) if d else np.array([]))
                bad = oc.wellformed({"det": "PELT", "params": {"min_segment_length": 1}}, ChangeDetector._format_sparse_output(arg), n, 1)
            elif inp["formatter"] == "collective":
                bad = oc.wellformed({"det": "StatThresholdAnomaliser"}, CollectiveAnomalyDetector._format_sparse_output([tuple(v) for v in d]), n, 1)
            else:
                y = SubsetCollectiveAnomalyDetector._format_sparse_output([(a, b, np.array(c)) for (a, b), c in zip(d, inp["columns"])])
                bad = oc.wellformed({"det": "MVCAPA", "params": {"min_segment_length": 1, "max_segment_length": n}}, y, n, 3)
        except Exception as e:  # noqa: BLE001
            bad = [("raises", f"{type(e).__name__}: {e}")]
        return {"violated": bool(bad), "detail": "; ".join(m for _, m in bad) or "holds"}
    X = np.array(inp["X"], dtype=float)
    check_case(rec, inp["spec"], X, repo)
    vs = rec.result("", "")["violations"]
    return {"violated": bool(vs), "detail": " | ".join(v["what"] for v in vs) or "holds"}
