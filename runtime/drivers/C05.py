"""C05 bounded stand-in: dense labels and sparse detections describe the same events for any index.

Part A (static converters, exhaustive): every valid sparse output for n <= N
    ChangeDetector                   every subset of {1..n-1} as changepoints
    CollectiveAnomalyDetector        every sorted set of disjoint half-open intervals of [0,n] (adjacent, length-1,
                                     touching 0 and n included)
    SubsetCollectiveAnomalyDetector  the same interval sets x every assignment of a non-empty column subset, p <= 3
  x index in {RangeIndex(0,n), RangeIndex(5,5+n), RangeIndex(0,2n,2), DatetimeIndex, PeriodIndex, sorted integer / datetime index with
  repeated values} x column labels
  {default ints, strings}.  Checked: sparse_to_dense(y, index, columns) carries exactly `index` and labels POSITION i with
  the segment number / the label of the covering anomaly (0 if none); dense_to_sparse of that dense frame gives y back
  (affected columns compared as sets).  dense_to_sparse is fed the real dense output when that is right and the oracle's
  dense frame otherwise, so a wrong sparse_to_dense is not reported a second time as a failed round trip.
Part B (transform of the 7 real detectors): fit/predict/transform on small data sets with separated, adjacent, point
  and end-touching events under the same index x column grid: transform(X).index equals X.index, the labels are the
  positional labelling of predict(X), and dense_to_sparse(transform(X)) reproduces predict(X).

The oracle is written from the statement (positions, never index values).  One defect = one key: the key names the class
that DEFINES the failing converter, whether it was reached directly or through transform.
"""
from __future__ import annotations

import itertools

import numpy as np

from runtime.common import Recorder, use_repo

RULE = ("part A: every valid sparse output of the bound x 5 index types x 2 column labellings, part B: 7 detectors x data "
        "sets x the same grid; a case is non-trivial when the sparse output holds at least one event (so that the dense "
        "labels are not all zero and the inverse has something to find); distinct = (class/detector, n, events, index, columns)")

INDEX_KINDS = ("range0", "range5", "range-step2", "datetime", "period", "int-ties", "datetime-ties")      # the last two: sorted, with repeated values
COLUMN_KINDS = ("default", "strings", "duplicates")      # duplicates: labels that repeat / format to the same string (x, 1, "1", x)


# ----------------------------------------------------------------------------------------------- inputs
def make_index(kind, n):
    import pandas as pd
    if kind == "range0":
        return pd.RangeIndex(0, n)
    if kind == "range5":
        return pd.RangeIndex(5, 5 + n)
    if kind == "range-step2":
        return pd.RangeIndex(0, 2 * n, 2)
    if kind == "datetime":
        return pd.date_range("2021-03-01", periods=n, freq="D")
    if kind == "period":
        return pd.period_range("2021-03", periods=n, freq="M")
    if kind == "int-ties":          # 0, 0, 1, 1, 2, 2, ...: monotonic but not unique (check_series accepts it): labels are positional, not per index value
        return pd.Index([i // 2 for i in range(n)], dtype="int64")
    if kind == "datetime-ties":
        base = pd.date_range("2021-03-01", periods=(n + 1) // 2 + 1, freq="D")
        return pd.DatetimeIndex([base[i // 2] for i in range(n)])
    raise ValueError(kind)


def make_columns(kind, p):
    import pandas as pd
    if kind == "default":
        return pd.RangeIndex(p)
    if kind == "duplicates":        # e.g. two sensor blocks concatenated: per-column labelling is positional, not per label
        return pd.Index((["x", 1, "1", "x"] * p)[:p], dtype=object)
    return pd.Index(["abcdefghijklmnop"[j] for j in range(p)])


def changepoint_sets(n):
    pos = list(range(1, n))
    for k in range(len(pos) + 1):
        yield from itertools.combinations(pos, k)


def interval_sets(n):
    """All sorted tuples of pairwise disjoint half-open intervals (a,b), 0 <= a < b <= n (adjacency allowed)."""
    def rec(start):
        yield ()
        for a in range(start, n):
            for b in range(a + 1, n + 1):
                for rest in rec(b):
                    yield ((a, b),) + rest
    return rec(0)


def column_subsets(p):
    return [c for k in range(1, p + 1) for c in itertools.combinations(range(p), k)]


# ----------------------------------------------------------------------------------------------- oracle (statement)
def dense_change(cps, n):
    return [sum(1 for c in cps if c <= i) for i in range(n)]


def dense_collective(ivs, n):
    out = [0] * n
    for i in range(n):
        for k, (a, b) in enumerate(ivs):
            if a <= i < b:
                out[i] = k + 1
    return out


def dense_subset(events, n, p):
    out = [[0] * p for _ in range(n)]
    for i in range(n):
        for k, (a, b, cols) in enumerate(events):
            if a <= i < b:
                for j in cols:
                    out[i][j] = k + 1
    return out


# ----------------------------------------------------------------------------------------------- reading real outputs
def read_sparse(kind, y):
    """Python value of a sparse frame: changepoint list / [(a,b,label)] / [(a,b,label,sorted cols)]; None if unreadable."""
    if kind == "change":
        return [int(v) for v in y["ilocs"].tolist()]
    arr = y["ilocs"].array
    closed = getattr(arr, "closed", None)
    if len(y) and closed != "left":
        return ("closed=" + str(closed),)
    ivs = [(int(a), int(b)) for a, b in zip(arr.left, arr.right)]
    labels = [int(v) for v in y["labels"].tolist()]
    if kind == "collective":
        return [(a, b, l) for (a, b), l in zip(ivs, labels)]
    cols = [sorted(int(c) for c in np.asarray(cs).reshape(-1)) for cs in y["icolumns"]]
    return [(a, b, l, c) for (a, b), l, c in zip(ivs, labels, cols)]


def sparse_value(kind, events):
    if kind == "change":
        return [int(c) for c in events]
    if kind == "collective":
        return [(a, b, k + 1) for k, (a, b) in enumerate(events)]
    return [(a, b, k + 1, sorted(cols)) for k, (a, b, cols) in enumerate(events)]


def valid_events(kind, events, n, p):
    """Is this python value a valid sparse output on n rows (C04's notion)?"""
    if kind == "change":
        return all(0 < c < n for c in events) and all(x < y for x, y in zip(events, events[1:]))
    prev = 0
    for k, e in enumerate(events):
        a, b, lab = e[0], e[1], e[2]
        if not (prev <= a < b <= n) or lab != k + 1:
            return False
        if kind == "subset" and (not e[3] or any(not (0 <= j < p) for j in e[3]) or len(set(e[3])) != len(e[3])):
            return False
        prev = b
    return True


def classes():
    from skchange.anomaly_detectors.base import CollectiveAnomalyDetector, SubsetCollectiveAnomalyDetector
    from skchange.change_detectors.base import ChangeDetector
    return {"change": ChangeDetector, "collective": CollectiveAnomalyDetector, "subset": SubsetCollectiveAnomalyDetector}


def kind_of(det):
    for kind, cls in classes().items():
        if isinstance(det, cls):
            return kind
    raise TypeError(type(det))


def definer(cls, method):
    for c in cls.__mro__:
        if method in c.__dict__:
            return c.__name__
    return cls.__name__


def build_sparse(kind, events):
    cl = classes()[kind]
    if kind == "change":
        return cl._format_sparse_output(list(events))
    if kind == "collective":
        return cl._format_sparse_output([tuple(e[:2]) for e in events])
    return cl._format_sparse_output([(e[0], e[1], list(e[2])) for e in events])


def expected_dense(kind, events, n, p):
    if kind == "change":
        return np.array(dense_change(events, n), dtype=np.int64).reshape(n, 1)
    if kind == "collective":
        return np.array(dense_collective([e[:2] for e in events], n), dtype=np.int64).reshape(n, 1)
    return np.array(dense_subset(events, n, p), dtype=np.int64).reshape(n, p)


def dense_frame(kind, values, index, columns):
    import pandas as pd
    names = ["labels"] if kind != "subset" else [f"labels_{c}" for c in columns]
    return pd.DataFrame(np.asarray(values, dtype=np.int64), index=index, columns=names)


def describe(kind, events):
    if kind == "change":
        return f"changepoints {list(events)}"
    if kind == "collective":
        return "anomalies " + ", ".join(f"[{e[0]},{e[1]})" for e in events) if events else "no anomalies"
    return "anomalies " + ", ".join(f"[{e[0]},{e[1]})@cols{list(e[2])}" for e in events) if events else "no anomalies"


# ----------------------------------------------------------------------------------------------- the checks
_INDEX_CACHE = {}


def cached_axes(index_kind, column_kind, n, p):
    k = (index_kind, column_kind, n, p)
    if k not in _INDEX_CACHE:
        _INDEX_CACHE[k] = (make_index(index_kind, n), make_columns(column_kind, p))
    return _INDEX_CACHE[k]


def check_converters(rec, cls, kind, events, n, p, index_kind, column_kind, inp, y=None, dense_real=None, via="", memo=None):
    """Checks both directions for one sparse output.  `y` / `dense_real` are given when reached through transform;
    `memo` (dict) remembers per column labelling whether the inverse was right under the default index."""
    index, columns = cached_axes(index_kind, column_kind, n, p)
    want = expected_dense(kind, events, n, p)
    what_in = f"{describe(kind, events)} on n={n}, index {index_kind} ({index[0]!s}..), columns {column_kind}"
    if y is None:
        y = build_sparse(kind, events)
    s2d_owner = definer(cls, "sparse_to_dense")
    d2s_owner = definer(cls, "dense_to_sparse")
    # ---- sparse -> dense
    try:
        dense = dense_real if dense_real is not None else cls.sparse_to_dense(y, index, columns)
        err = None
    except Exception as e:                                                      # noqa: BLE001
        dense, err = None, e
    call = via or f"{s2d_owner}.sparse_to_dense"
    s2d_ok = False
    if err is not None:
        rec.violation(f"{s2d_owner}.sparse_to_dense:raises", f"{call} raised {type(err).__name__}: {err} for {what_in}",
                      "C05.dense_labels", inp)
    else:
        got = np.asarray(dense.values)
        if not dense.index.equals(index):
            rec.violation(f"{s2d_owner}.sparse_to_dense:index", f"{call}: the dense output does not carry the given index for {what_in}",
                          "C05.index", inp)
        s2d_ok = got.shape == want.shape and np.array_equal(got, want)
        if memo is not None and index_kind == "range0":
            memo[("s2d", column_kind)] = s2d_ok
        if not s2d_ok:
            if index_kind == "range0":
                by_index = False
            elif memo is not None and ("s2d", column_kind) in memo:
                by_index = memo[("s2d", column_kind)]
            else:                            # right under the default index?  then the index values are the cause
                try:
                    d0 = cls.sparse_to_dense(build_sparse(kind, events), *cached_axes("range0", column_kind, n, p))
                    by_index = np.array_equal(np.asarray(d0.values), want)
                except Exception:                                               # noqa: BLE001
                    by_index = False
            rec.violation(f"{s2d_owner}.sparse_to_dense:" + ("labels-by-index-value" if by_index else "wrong-labels"),
                          f"{call} labels {got.T.tolist()} but positions are covered as {want.T.tolist()} for {what_in}",
                          "C05.dense_labels", inp)
    # ---- dense -> sparse: fed the real dense output when that is right, else the statement's dense frame (so that a wrong
    #      sparse_to_dense is not reported a second time as a failed round trip)
    real_ok = err is None and dense is not None and s2d_ok and dense.index.equals(index)
    frame = dense if real_ok else dense_frame(kind, want, index, columns)
    target = sparse_value(kind, events)
    try:
        back = read_sparse(kind, cls.dense_to_sparse(frame))
        err = None
    except Exception as e:                                                      # noqa: BLE001
        back, err = None, e
    if memo is not None and index_kind == "range0":
        memo[column_kind] = err is None and back == target
    if err is not None or back != target:
        got_txt = f"raised {type(err).__name__}: {err}" if err is not None else f"returned {back}"
        nondefault = index_kind != "range0"
        adjacent = kind != "change" and err is None and coarsens(back, target)
        default_ok = None
        if nondefault and memo is not None and column_kind in memo:
            default_ok = memo[column_kind]
        elif nondefault:                     # is the default index fine for the same events?  then the index is the cause
            try:
                default_ok = read_sparse(kind, cls.dense_to_sparse(dense_frame(kind, want, make_index("range0", n), columns))) == target
            except Exception:                                                   # noqa: BLE001
                default_ok = False
        if nondefault and default_ok:
            key = f"{d2s_owner}.dense_to_sparse:index-labels-instead-of-positions"
        elif adjacent:
            key = f"{d2s_owner}.dense_to_sparse:adjacent-anomalies-merged"
        else:
            key = f"{d2s_owner}.dense_to_sparse:roundtrip"
        rec.violation(key, f"{d2s_owner}.dense_to_sparse of the dense labels {want.T.tolist()} {got_txt}, expected {target} ({what_in})",
                      "C05.roundtrip", inp)


def coarsens(back, target):
    """Is `back` the target with some runs of adjacent intervals merged into one (and nothing else wrong)?"""
    try:
        cuts_t = sorted({e[0] for e in target} | {e[1] for e in target})
        if not back or len(back) >= len(target):
            return False
        if min(e[0] for e in back) != min(e[0] for e in target) or max(e[1] for e in back) != max(e[1] for e in target):
            return False
        covered_b = {i for e in back for i in range(e[0], e[1])}
        covered_t = {i for e in target for i in range(e[0], e[1])}
        return covered_b == covered_t and all(e[0] in cuts_t and e[1] in cuts_t for e in back)
    except Exception:                                                           # noqa: BLE001
        return False


def part_a_cases(tier, rng):
    """Yield (kind, n, p, events)."""
    nmax = 7
    for n in range(1, nmax + 1):
        for cps in changepoint_sets(n):
            yield "change", n, 1, tuple(cps)
    for n in range(1, (5 if tier == "quick" else 7) + 1):
        for ivs in interval_sets(n):
            yield "collective", n, 1, tuple((a, b) for a, b in ivs)
    bounds = {1: 4, 2: 3, 3: 2} if tier == "quick" else {1: 7, 2: 5, 3: 3}
    for p, nm in bounds.items():
        subs = column_subsets(p)
        for n in range(1, nm + 1):
            for ivs in interval_sets(n):
                for assign in itertools.product(subs, repeat=len(ivs)):
                    yield "subset", n, p, tuple((a, b, tuple(c)) for (a, b), c in zip(ivs, assign))
    # beyond the exhaustive bound: every interval set up to n = 7 (quick: 5) with seeded random column subsets, p = 3
    subs = column_subsets(3)
    reps = 1 if tier == "quick" else 3
    for n in range(bounds[3] + 1, (4 if tier == "quick" else 7) + 1):
        for ivs in interval_sets(n):
            if not ivs:
                continue
            for _ in range(reps):
                pick = rng.integers(0, len(subs), size=len(ivs))
                yield "subset", n, 3, tuple((a, b, tuple(subs[int(j)])) for (a, b), j in zip(ivs, pick))


# ----------------------------------------------------------------------------------------------- part B
def detector_table():
    from skchange.anomaly_detectors import CAPA, MVCAPA, CircularBinarySegmentation, StatThresholdAnomaliser
    from skchange.change_detectors import PELT, MovingWindow, SeededBinarySegmentation
    return {
        "PELT": lambda: PELT(min_segment_length=2),
        "MovingWindow": lambda: MovingWindow(bandwidth=3),
        "SeededBinarySegmentation": lambda: SeededBinarySegmentation(min_segment_length=2, max_interval_length=20),
        "CAPA": lambda: CAPA(min_segment_length=2),
        "CAPA(ignore_point_anomalies)": lambda: CAPA(min_segment_length=2, ignore_point_anomalies=True),
        "MVCAPA": lambda: MVCAPA(min_segment_length=2),
        "MVCAPA(ignore_point_anomalies)": lambda: MVCAPA(min_segment_length=2, ignore_point_anomalies=True),
        "CircularBinarySegmentation": lambda: CircularBinarySegmentation(min_segment_length=2, max_interval_length=20),
        "StatThresholdAnomaliser(PELT)": lambda: StatThresholdAnomaliser(PELT(min_segment_length=2), stat_lower=-2.0, stat_upper=2.0),
        "StatThresholdAnomaliser(MovingWindow)": lambda: StatThresholdAnomaliser(MovingWindow(bandwidth=3), stat_lower=-2.0, stat_upper=2.0),
    }


UNIVARIATE_ONLY = ("StatThresholdAnomaliser",)
SLOW = ("CircularBinarySegmentation",)          # quick tier: univariate data only


def datasets(seed, p):
    """name -> (n,p) array: planted mean shifts (value 8 / -8) on unit-free small noise."""
    rng = np.random.default_rng(seed)
    out = {}

    def base(n):
        return np.round(rng.normal(size=(n, p)) * 0.3, 2)
    x = base(30); x[6:11] += 8; x[18:24] -= 8
    out["separated"] = x
    x = base(30); x[8:14] += 8; x[14:20] -= 8
    out["adjacent"] = x
    x = base(30); x[0:5] += 8; x[25:30] -= 8
    out["touching-ends"] = x
    x = base(30); x[7:12] += 8; x[20] += 15
    out["with-point"] = x
    x = base(30); x[0] += 15; x[12:18] += 8; x[29] -= 15
    out["points-at-ends"] = x
    out["quiet"] = base(24)
    if p > 1:
        x = base(30); x[5:10, 0] += 8; x[10:16, 1:] -= 8; x[22:27, :] += 8
        out["column-subsets"] = x
    if p >= 6:
        # an anomaly that is weak in every column but present in all of them (found under the dense part of the default combined
        # penalty although no single column pays for its sparse penalty), followed by a strong one in two columns
        x = np.round(rng.normal(size=(30, p)) * 0.05, 2); x[6:16, :] += 0.85; x[22:27, :2] += 8
        out["weak-in-all-columns"] = x
    return out


def check_transform(rec, name, X, index_kind, column_kind, inp):
    """Returns (ran, nontrivial)."""
    import pandas as pd
    n, p = X.shape
    index, columns = make_index(index_kind, n), make_columns(column_kind, p)
    frame = pd.DataFrame(X, index=index, columns=columns)
    det = detector_table()[name]()
    kind = kind_of(det)
    try:
        det.fit(frame)
        y = det.predict(frame)
    except Exception:                                                           # noqa: BLE001  (fit/predict are not C05's subject)
        return False, False
    events_read = read_sparse(kind, y)
    if not valid_events(kind, events_read, n, p):
        # predict itself returned something that is not a set of events; the round trip cannot reproduce it
        empties = [e for e in events_read if kind != "change" and isinstance(e, tuple) and len(e) >= 2 and e[0] == e[1]]
        sub = "point-anomaly-empty-interval" if empties else "invalid-sparse-output"
        rec.violation(f"{name.split('(')[0]}.predict:{sub}",
                      f"{name}.predict returned {events_read} on n={n}: {'the interval ' + str(list(empties[0][:2])) + ' covers no position, so ' if empties else ''}"
                      "transform labels nothing for it and dense_to_sparse(transform(X)) cannot reproduce predict(X) "
                      "(the point-anomaly defect of get_anomalies seen through the round trip)", "C05.roundtrip", inp)
        return True, True
    events = [(e[0], e[1]) for e in events_read] if kind == "collective" else \
        [(e[0], e[1], tuple(e[3])) for e in events_read] if kind == "subset" else list(events_read)
    try:
        dense = det.transform(frame)
    except Exception as e:                                                      # noqa: BLE001
        rec.violation(f"{definer(type(det), 'sparse_to_dense')}.sparse_to_dense:raises",
                      f"{name}.transform raised {type(e).__name__}: {e} (index {index_kind}, columns {column_kind})", "C05.dense_labels", inp)
        return True, bool(events)
    check_converters(rec, type(det), kind, tuple(events), n, p, index_kind, column_kind, inp, y=y, dense_real=dense,
                     via=f"{name}.transform")
    return True, bool(events)


# ----------------------------------------------------------------------------------------------- entry points
def run(tier="quick", seed=0, repo="/repo"):
    use_repo(repo)
    rec = Recorder(target="skchange/base/base_detector.py::BaseDetector.transform / sparse_to_dense / dense_to_sparse")
    rng = np.random.default_rng(seed)
    cl = classes()
    for kind, n, p, events in part_a_cases(tier, rng):
        y, memo = build_sparse(kind, events), {}
        for ik in INDEX_KINDS:              # "range0" first: fills memo
            for ck in COLUMN_KINDS:
                inp = {"part": "A", "kind": kind, "n": n, "p": p, "events": events, "index": ik, "columns": ck}
                check_converters(rec, cl[kind], kind, events, n, p, ik, ck, inp, y=y, memo=memo)
                rec.case((kind, n, p, events, ik, ck), bool(events), inp if ik == "datetime" and len(events) == 2 else None)
    skipped = 0
    seeds = [seed] if tier == "quick" else [seed, seed + 1, seed + 2]
    for sd in seeds:
        for name in detector_table():
            ps = (1,) if name.startswith(UNIVARIATE_ONLY) or (tier == "quick" and name.startswith(SLOW)) else (1, 3)
            if name.startswith("MVCAPA"):
                ps = ps + (8,)
            for p in ps:
                for dname, X in datasets(sd, p).items():
                    if p == 8 and dname != "weak-in-all-columns":
                        continue
                    for ik in INDEX_KINDS:
                        for ck in COLUMN_KINDS:
                            inp = {"part": "B", "detector": name, "dataset": dname, "X": X, "index": ik, "columns": ck}
                            ran, nt = check_transform(rec, name, X, ik, ck, inp)
                            if not ran:
                                skipped += 1
                                continue
                            rec.case((name, dname, sd, p, ik, ck), nt, {k: v for k, v in inp.items() if k != "X"} if ik == "period" else None)
    bound = ("part A: ChangeDetector n<=7; CollectiveAnomalyDetector n<=%d; SubsetCollectiveAnomalyDetector exhaustive for %s, "
             "plus all interval sets up to n=%d with seeded column subsets (p=3); x 5 index types x 2 column labellings.  "
             "part B: 10 detector configurations x 6-7 data sets (n<=30, p in {1,3}; MVCAPA also one 8-column set with an anomaly weak in every column) x the same grid, %d seed(s)"
             % ((5, "(p=1,n<=4) (p=2,n<=3) (p=3,n<=2)", 4, 1) if tier == "quick"
                else (7, "(p=1,n<=7) (p=2,n<=5) (p=3,n<=3)", 7, 3)))
    return rec.result(RULE, bound, exhaustive=True, skipped_fit_or_predict_errors=skipped)


def replay(inp, repo="/repo"):
    use_repo(repo)
    rec = Recorder()
    if inp.get("part") == "A":
        kind = inp["kind"]
        if kind == "change":
            events = tuple(int(c) for c in inp["events"])
        elif kind == "collective":
            events = tuple((int(e[0]), int(e[1])) for e in inp["events"])
        else:
            events = tuple((int(e[0]), int(e[1]), tuple(int(j) for j in e[2])) for e in inp["events"])
        check_converters(rec, classes()[kind], kind, events, int(inp["n"]), int(inp["p"]), inp["index"], inp["columns"], inp)
    else:
        X = np.array(inp["X"], dtype=float)
        if X.ndim == 1:
            X = X.reshape(-1, 1)
        check_transform(rec, inp["detector"], X, inp["index"], inp["columns"], inp)
    if rec.violations:
        return {"violated": True, "detail": "; ".join(f"[{v['key']}] {v['what']}" for v in rec.violations)[:1500]}
    return {"violated": False, "detail": "holds"}
