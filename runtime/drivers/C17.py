"""C17 bounded stand-in: StatThresholdAnomaliser flags exactly the out-of-range segments of the wrapped detector.

Part A (exhaustive): a user-defined ChangeDetector subclass that returns GIVEN changepoints; every changepoint subset
  of {1..n-1} for n <= 7 x data vectors (small integers) x statistics {np.mean, np.median, np.max, user lambda
  (max - min)} x bounds with lower <= upper (incl. lower == upper).  Oracle (the statement): the segments between
  consecutive boundaries of [0] + changepoints + [n] whose statistic is < lower or > upper, each one its own interval,
  adjacent ones not merged.  The data of part A are integers / half-integers, for which all four statistics are exact
  in floating point, so a statistic EQUAL to a bound is a decided case (not flagged); for other data (part B) a case in
  which a statistic lies within 1e-9 of a bound is skipped (decision margin).
Part A' (the same changepoint subsets, one data vector, mean, bounds (-1, 1)) x the ways univariate data can be passed:
  DataFrame with column 0 / "x" / "labels", Series unnamed / named "labels", 1-D and (n,1) ndarray, int64 values,
  datetime index, RangeIndex(5, 5+n).
Part B: PELT, MovingWindow, SeededBinarySegmentation (each also with an explicitly passed scorer object) as the wrapped
  detector on n = 30; the segmentation is taken from an independent clone fitted on the same data.
Everywhere: the detector object handed in by the user must stay exactly as it was (not fitted, no attribute added or
  changed, nested scorer objects untouched, also when it had been fitted before on other data), while
  `change_detector_` is a different, fitted object of the same class and parameters.
"""
from __future__ import annotations

import itertools

import numpy as np

from runtime.common import Recorder, use_repo

RULE = ("part A: all changepoint subsets for n<=7 x data x stat x bounds through a stub detector; part A': the same subsets x "
        "10 input representations; part B: 3 real detectors (x2 configurations) x data sets x stat x bounds on n=30; a case is "
        "non-trivial when the statement expects at least one flagged segment (or, for the user-object clause, always); "
        "distinct = (detector, changepoints or data id, n, data, stat, bounds, representation)")

MARGIN = 1e-9
STATS = ("mean", "median", "max", "range", "std", "var")      # std / var: NumPy callables with ddof=0 (the user's statistic, not pandas' ddof=1)
INEXACT_STATS = ("std", "var")
BOUNDS = ((-1.0, 1.0), (0.0, 0.0), (-2.5, 0.5), (0.5, 3.0))
INPLACE_REPRS = ("df", "series", "ndarray2d")     # containers refilled in place between two predict calls (ndarray1d: known finding KF5 route)
REPRS = ("df", "df:x", "df:labels", "series", "series:labels", "ndarray1d", "ndarray2d", "df:int64", "df:datetime", "df:range5", "df:ties", "df:datetime-ties")


def _user_range(v):
    return float(np.max(v) - np.min(v))


def stat_fn(name):
    return {"mean": np.mean, "median": np.median, "max": np.max, "range": _user_range, "std": np.std, "var": np.var}[name]


def stub_class():
    """A user-defined change detector returning given changepoints (defined after skchange is importable)."""
    from skchange.change_detectors.base import ChangeDetector

    class GivenChangepoints(ChangeDetector):
        _tags = {"capability:missing_values": False, "capability:multivariate": True, "fit_is_empty": False}

        def __init__(self, changepoints=()):
            self.changepoints = changepoints
            super().__init__()

        def _fit(self, X, y=None):
            self.n_fitted_ = len(X)
            return self

        def _predict(self, X):
            return ChangeDetector._format_sparse_output([int(c) for c in self.changepoints])

    return GivenChangepoints


_STUB = {}


def stub(cps):
    import skchange
    key = skchange.__file__
    if key not in _STUB:
        _STUB.clear()
        _STUB[key] = stub_class()
    return _STUB[key](changepoints=tuple(int(c) for c in cps))


def real_detectors():
    from skchange.change_detectors import PELT, MovingWindow, SeededBinarySegmentation
    from skchange.change_scores import CUSUM, ChangeScore
    from skchange.costs import GaussianVarCost, L2Cost
    return {
        # detectors whose scorer was re-configured through nested set_params AFTER construction: the wrapped detector is the detector
        # as it is configured now (what it predicts itself, what get_params() reports and what a clone of it predicts coincide)
        "SeededBinarySegmentation(change_score=L2Cost(0.0)).set_params(change_score__param=None)":
            lambda: SeededBinarySegmentation(change_score=L2Cost(param=0.0), min_segment_length=2, max_interval_length=20)
            .set_params(change_score__param=None),
        "MovingWindow(change_score=ChangeScore(L2Cost(0.0))).set_params(change_score__cost=GaussianVarCost())":
            lambda: MovingWindow(change_score=ChangeScore(L2Cost(param=0.0)), bandwidth=4).set_params(change_score__cost=GaussianVarCost()),
        "PELT": lambda: PELT(min_segment_length=2),
        "PELT(cost=L2Cost())": lambda: PELT(cost=L2Cost(), min_segment_length=1, penalty_scale=1.0),
        "MovingWindow": lambda: MovingWindow(bandwidth=3),
        "MovingWindow(change_score=CUSUM())": lambda: MovingWindow(change_score=CUSUM(), bandwidth=4, threshold_scale=1.0),
        "SeededBinarySegmentation": lambda: SeededBinarySegmentation(min_segment_length=2, max_interval_length=20),
        "SeededBinarySegmentation(change_score=ChangeScore(L2Cost()))":
            lambda: SeededBinarySegmentation(change_score=ChangeScore(L2Cost()), min_segment_length=3, max_interval_length=30),
    }


def represent(x, kind):
    import pandas as pd
    x = np.asarray(x, dtype=float)
    n = len(x)
    if kind == "df":
        return pd.DataFrame(x)
    if kind == "df:x":
        return pd.DataFrame({"x": x})
    if kind == "df:labels":
        return pd.DataFrame({"labels": x})
    if kind == "series":
        return pd.Series(x)
    if kind == "series:labels":
        return pd.Series(x, name="labels")
    if kind == "ndarray1d":
        return x.copy()
    if kind == "ndarray2d":
        return x.reshape(-1, 1).copy()
    if kind == "df:int64":
        assert np.all(x == np.round(x)), "int64 representation needs integer values"
        return pd.DataFrame(x.astype(np.int64))
    if kind == "df:datetime":
        return pd.DataFrame(x, index=pd.date_range("2021-03-01", periods=n, freq="D"))
    if kind == "df:range5":
        return pd.DataFrame(x, index=pd.RangeIndex(5, 5 + n))
    if kind == "df:ties":           # sorted integer labels with repeated values (two samples per label): segments are positional
        return pd.DataFrame(x, index=pd.Index([i // 2 for i in range(n)], dtype="int64"))
    if kind == "df:datetime-ties":
        base = pd.date_range("2021-03-01", periods=n // 2 + 1, freq="D")
        return pd.DataFrame(x, index=pd.DatetimeIndex([base[i // 2] for i in range(n)]))
    raise ValueError(kind)


# ----------------------------------------------------------------------------------------------- oracle
def expected_anomalies(x, cps, stat, lo, hi, exact_stat=True):
    """Statement of C17.  Returns (intervals, tie) - tie when some statistic is within MARGIN of a bound."""
    b = [0] + [int(c) for c in cps] + [len(x)]
    out, tie = [], False
    xa = np.asarray(x, dtype=float)
    exact = exact_stat and bool(np.all(xa * 2 == np.round(xa * 2)) and np.all(np.abs(xa) < 1e6))   # half-integers: mean/median/max/range are exact
    for a, c in zip(b, b[1:]):
        if c <= a:
            continue
        s = float(stat(np.asarray(x[a:c], dtype=float)))
        if not exact and (abs(s - lo) <= MARGIN * (1 + abs(lo)) or abs(s - hi) <= MARGIN * (1 + abs(hi))):
            tie = True
        if s < lo or s > hi:
            out.append((a, c))
    return out, tie


# ----------------------------------------------------------------------------------------------- the user's object
def fingerprint(obj, depth=0):
    """Structural value of a detector: class, every attribute (recursively through scorer objects), arrays by content."""
    import pandas as pd
    if depth > 6:
        return "..."
    if isinstance(obj, np.ndarray):
        return ("ndarray", obj.shape, str(obj.dtype), obj.tobytes())
    if isinstance(obj, (pd.DataFrame, pd.Series)):
        return (type(obj).__name__, tuple(map(str, obj.index[:3])), np.asarray(obj.values).tobytes())
    if isinstance(obj, (list, tuple)):
        return (type(obj).__name__,) + tuple(fingerprint(v, depth + 1) for v in obj)
    if isinstance(obj, dict):
        return ("dict",) + tuple((str(k), fingerprint(v, depth + 1)) for k, v in sorted(obj.items(), key=lambda kv: str(kv[0])))
    if hasattr(obj, "get_params") and hasattr(obj, "__dict__"):
        return (type(obj).__name__, id(obj)) + tuple((k, fingerprint(v, depth + 1)) for k, v in sorted(vars(obj).items()))
    if callable(obj):
        return ("callable", getattr(obj, "__name__", repr(obj)))
    return repr(obj)


def diff_fingerprint(a, b, path="detector"):
    if a == b:
        return None
    if isinstance(a, tuple) and isinstance(b, tuple) and a and b and a[0] == b[0] and len(a) > 2 and isinstance(a[1], int):
        da, db = dict(a[2:]), dict(b[2:])
        for k in sorted(set(da) | set(db)):
            if k not in da:
                return f"{path}.{k} was added"
            if k not in db:
                return f"{path}.{k} was removed"
            d = diff_fingerprint(da[k], db[k], f"{path}.{k}")
            if d:
                return d
    return f"{path} changed"


def check_user_object(rec, name, inner, before, anom, inp, was_fitted=False):
    after = fingerprint(inner)
    d = diff_fingerprint(before, after)
    if d is not None:
        rec.violation("StatThresholdAnomaliser.fit:alters-user-detector", f"after fit/predict of the anomaliser the user's {name} object differs: {d}",
                      "C17.user_object", inp)
    if not was_fitted and getattr(inner, "_is_fitted", False):
        rec.violation("StatThresholdAnomaliser.fit:fits-user-detector", f"the user's {name} object was fitted", "C17.user_object", inp)
    if anom.change_detector is not inner:
        rec.violation("StatThresholdAnomaliser.fit:replaces-user-detector", "the change_detector parameter no longer is the user's object",
                      "C17.user_object", inp)
    inner_ = getattr(anom, "change_detector_", None)
    if inner_ is None or inner_ is inner or type(inner_) is not type(inner) or not getattr(inner_, "_is_fitted", False):
        rec.violation("StatThresholdAnomaliser.fit:no-fitted-clone", "change_detector_ is not a separate fitted object of the user's detector class",
                      "C17.user_object", inp)
    elif repr(inner_.get_params()) != repr(inner.get_params()) and not any(hasattr(v, "get_params") for v in inner.get_params(deep=False).values()):
        rec.violation("StatThresholdAnomaliser.fit:clone-parameters", f"change_detector_ has parameters {inner_.get_params()} != {inner.get_params()}",
                      "C17.user_object", inp)


def merges(got, want):
    """`got` is `want` with runs of adjacent intervals reported as one interval (and nothing else wrong)."""
    if not got or len(got) >= len(want):
        return False
    cuts = {a for a, _ in want} | {b for _, b in want}
    cover = lambda ivs: {i for a, b in ivs for i in range(a, b)}                # noqa: E731
    return cover(got) == cover(want) and all(a in cuts and b in cuts for a, b in got)


def _plain_run_is_right(make_inner, x, stat, lo, hi, want):
    from skchange.anomaly_detectors import StatThresholdAnomaliser
    try:
        X = represent(x, "df")
        return sorted(read_intervals(StatThresholdAnomaliser(make_inner(), stat=stat, stat_lower=lo, stat_upper=hi).fit(X).predict(X))) == want
    except Exception:                                                           # noqa: BLE001
        return False


def read_intervals(y):
    arr = y["ilocs"].array
    return [(int(a), int(b)) for a, b in zip(arr.left, arr.right)]


def check_case(rec, name, make_inner, x, cps, stat_name, lo, hi, rep, inp, prefit=None):
    """One anomaliser run; `cps` are the changepoints the wrapped detector yields on x (given for the stub, obtained from an
    independent fitted clone for real detectors).  Returns (compared, nontrivial)."""
    from skchange.anomaly_detectors import StatThresholdAnomaliser
    stat = stat_fn(stat_name)
    want, tie = expected_anomalies(x, cps, stat, lo, hi, exact_stat=stat_name not in INEXACT_STATS)
    if tie:
        return False, False
    inner = make_inner()
    if prefit is not None:
        inner.fit(prefit)
    before = fingerprint(inner)
    X = represent(np.array(x, dtype=float), rep)        # an own copy: the container may be refilled in place below
    desc = f"StatThresholdAnomaliser({name}, {stat_name}, {lo}, {hi}) on x={np.asarray(x).tolist()} passed as {rep}, changepoints {list(cps)}"
    try:
        anom = StatThresholdAnomaliser(inner, stat=stat, stat_lower=lo, stat_upper=hi)
    except Exception as e:                                                      # noqa: BLE001  (every case has lower <= upper: a legal configuration)
        rec.violation(f"StatThresholdAnomaliser.__init__:raises:{type(e).__name__}", f"{desc}: the constructor raised {type(e).__name__}: {str(e)[:160]} "
                      f"for the legal bounds lower={lo} <= upper={hi}; the statement expects the anomalies {want}", "C17.flags", inp)
        return True, bool(want)
    try:
        anom.fit(X)
        got = read_intervals(anom.predict(X))
        err = None
    except Exception as e:                                                      # noqa: BLE001
        got, err = None, e
    if err is not None:
        if rep.startswith("ndarray"):
            key = "StatThresholdAnomaliser.predict:ndarray-input"
        elif rep.endswith(":labels"):
            key = "StatThresholdAnomaliser.predict:data-column-named-labels"
        else:
            key = f"StatThresholdAnomaliser.predict:raises:{type(err).__name__}"
        rec.violation(key, f"{desc}: raised {type(err).__name__}: {str(err)[:160]}; the statement expects the anomalies {want}", "C17.flags", inp)
    elif sorted(got) != want:
        if merges(got, want):
            key = "StatThresholdAnomaliser.predict:adjacent-merged"
        elif rep != "df" and _plain_run_is_right(make_inner, x, stat, lo, hi, want):
            key = ("StatThresholdAnomaliser.predict:data-column-named-labels" if rep.endswith(":labels")
                   else f"StatThresholdAnomaliser.predict:wrong-segments:{rep}")
        else:
            key = "StatThresholdAnomaliser.predict:wrong-segments"
        rec.violation(key, f"{desc}: reported {got}, the out-of-range segments are {want}", "C17.flags", inp)
    else:
        # the same anomalies read through transform: every flagged segment carries its OWN label on exactly its rows (1..K in
        # order), also when two flagged segments touch; everything else is 0
        try:
            dense = np.asarray(anom.transform(X)).reshape(-1)
            lab = np.zeros(len(dense), dtype=np.int64)
            for i, (a, b) in enumerate(want):
                lab[a:b] = i + 1
            if not np.array_equal(dense.astype(np.int64), lab):
                rec.violation("StatThresholdAnomaliser.transform:labels", f"{desc}: transform labels the rows {dense.astype(int).tolist()}, the "
                              f"out-of-range segments {want} demand {lab.tolist()}", "C17.flags", inp)
        except Exception as e:                                                  # noqa: BLE001
            if not rep.startswith("ndarray"):
                rec.violation(f"StatThresholdAnomaliser.transform:raises:{type(e).__name__}", f"{desc}: transform raised {type(e).__name__}: "
                              f"{str(e)[:160]}", "C17.flags", inp)
    if err is None and name == "GivenChangepoints" and rep in INPLACE_REPRS and sorted(got) == want:
        # "on the same data": the data ARE the values handed to this predict call -- the same container object refilled in place (a
        # reused buffer) must be segmented and thresholded afresh, without a refit in between (the stub's changepoints do not depend on the data)
        x2 = -2.0 * np.asarray(x, dtype=float)[::-1] + 1.0
        want2, tie2 = expected_anomalies(x2, cps, stat, lo, hi, exact_stat=stat_name not in INEXACT_STATS)
        if not tie2:
            try:
                if rep.startswith("ndarray"):
                    X[...] = x2.reshape(X.shape)
                elif rep == "series":
                    X.iloc[:] = x2
                else:
                    X.iloc[:, 0] = x2
                got2 = sorted(read_intervals(anom.predict(X)))
                if got2 != want2:
                    rec.violation("StatThresholdAnomaliser.predict:stale-after-inplace-refill",
                                  f"{desc}: after the same {rep} object was refilled in place with {x2.tolist()} a second predict reported {got2}, "
                                  f"the out-of-range segments of the data passed in are {want2}", "C17.flags", inp)
            except Exception as e:                                              # noqa: BLE001
                rec.violation(f"StatThresholdAnomaliser.predict:raises-after-inplace-refill:{type(e).__name__}",
                              f"{desc}: second predict on the refilled object raised {type(e).__name__}: {str(e)[:160]}", "C17.flags", inp)
    if err is None or hasattr(anom, "change_detector_"):
        check_user_object(rec, name, inner, before, anom, inp, was_fitted=prefit is not None)
    return True, bool(want)


def data_vectors(rng, n, k):
    out = []
    while len(out) < k:                              # out[0] (used for the int64 representation) is integer-valued
        x = rng.integers(-3, 4, size=n).astype(float)
        if len(out) % 2 == 1:
            x = x + rng.integers(0, 2, size=n) * 0.5  # some half-integers
        out.append(x)
    return out


def real_datasets(seed):
    rng = np.random.default_rng(seed)
    out = {}

    def base():
        return np.round(rng.normal(size=30) * 0.3, 2)
    x = base(); x[6:11] += 8; x[18:24] -= 8
    out["separated"] = x
    x = base(); x[8:14] += 8; x[14:20] -= 8
    out["adjacent"] = x
    x = base(); x[0:5] += 8; x[25:30] -= 8
    out["touching-ends"] = x
    x = base(); x[5:10] += 1.5; x[10:15] += 8; x[15:22] -= 0.7; x[22:26] -= 8
    out["staircase"] = x
    out["quiet"] = base()
    return out


def run(tier="quick", seed=0, repo="/repo"):
    import pandas as pd
    use_repo(repo)
    rec = Recorder(target="skchange/anomaly_detectors/anomalisers.py::StatThresholdAnomaliser")
    rng = np.random.default_rng(seed)
    nvec = 2 if tier == "quick" else 5
    skipped = 0
    for n in range(1, 8):
        vecs = data_vectors(rng, n, nvec)
        subsets = [c for k in range(n) for c in itertools.combinations(range(1, n), k)]
        for cps in subsets:
            for vi, x in enumerate(vecs):
                for st in STATS:
                    for lo, hi in BOUNDS:
                        inp = {"part": "A", "x": x, "changepoints": cps, "stat": st, "lower": lo, "upper": hi, "repr": "df"}
                        ok, nt = check_case(rec, "GivenChangepoints", lambda c=cps: stub(c), x, cps, st, lo, hi, "df", inp)
                        if not ok:
                            skipped += 1
                            continue
                        rec.case(("stub", n, cps, vi, st, lo, hi, "df"), nt, inp if len(cps) == 2 else None)
            # representations + a detector that the user had already fitted on other data
            x = vecs[0]
            for rep in REPRS[1:]:
                inp = {"part": "A", "x": x, "changepoints": cps, "stat": "mean", "lower": -1.0, "upper": 1.0, "repr": rep}
                ok, nt = check_case(rec, "GivenChangepoints", lambda c=cps: stub(c), x, cps, "mean", -1.0, 1.0, rep, inp)
                if ok:
                    rec.case(("stub", n, cps, 0, "mean", -1.0, 1.0, rep), nt, None)
                else:
                    skipped += 1
            inp = {"part": "A", "x": x, "changepoints": cps, "stat": "mean", "lower": -1.0, "upper": 1.0, "repr": "df", "prefit": True}
            ok, nt = check_case(rec, "GivenChangepoints", lambda c=cps: stub(c), x, cps, "mean", -1.0, 1.0, "df", inp,
                                prefit=pd.DataFrame(np.arange(9.0)))
            if ok:
                rec.case(("stub-prefit", n, cps), True, None)
    # part A2: histories - the anomaliser is refitted after the user reconfigured / replaced the wrapped detector; every fit must work
    # on a fresh clone of the detector as it is configured at that time
    from skchange.anomaly_detectors import StatThresholdAnomaliser
    for n in (5, 6, 7):
        x = data_vectors(rng, n, 1)[0] * 3
        subsets = [c for k in range(3) for c in itertools.combinations(range(1, n), k)]
        for cps1 in subsets:
            for cps2 in subsets:
                if cps1 == cps2:
                    continue
                for how in ("set_params-on-held-detector", "attribute-assignment"):
                    want, tie = expected_anomalies(x, cps2, np.mean, -1.0, 1.0)
                    if tie:
                        continue
                    inner = stub(cps1)
                    anom = StatThresholdAnomaliser(inner, stat=np.mean, stat_lower=-1.0, stat_upper=1.0)
                    X = represent(x, "df")
                    inp = {"part": "A2", "x": x, "changepoints": cps1, "changepoints2": cps2, "how": how}
                    try:
                        anom.fit(X)
                        anom.predict(X)
                        if how == "set_params-on-held-detector":
                            inner.set_params(changepoints=tuple(cps2))
                        else:
                            anom.change_detector = stub(cps2)
                        anom.fit(X)
                        got = sorted(read_intervals(anom.predict(X)))
                    except Exception as e:                                      # noqa: BLE001
                        rec.violation("StatThresholdAnomaliser.refit:raises", f"refit after {how} raised {type(e).__name__}: {str(e)[:120]}", "C17.clone", inp)
                        continue
                    if got != want:
                        rec.violation("StatThresholdAnomaliser.refit:stale-clone",
                                      f"StatThresholdAnomaliser fitted with changepoints {list(cps1)}, wrapped detector then changed to {list(cps2)} "
                                      f"({how}) and refitted on x={np.asarray(x).tolist()}: reported {got}, the out-of-range segments of the current "
                                      f"detector are {want}", "C17.clone", inp)
                    rec.case(("refit", n, cps1, cps2, how), bool(want), inp if len(cps2) == 2 and how.startswith("set") else None)
    # part B
    seeds = [seed] if tier == "quick" else [seed, seed + 1, seed + 2]
    for sd in seeds:
        for dname, x in real_datasets(sd).items():
            for name, make in real_detectors().items():
                try:
                    cps = [int(c) for c in make().fit(pd.DataFrame(x)).predict(pd.DataFrame(x))["ilocs"].tolist()]
                except Exception:                                               # noqa: BLE001  (not C17's subject)
                    skipped += 1
                    continue
                for st in STATS:
                    for lo, hi in BOUNDS + ((-4.0, 4.0),):
                        for rep in (("df",) if (st, lo) != ("mean", -1.0) else [r for r in REPRS if r != "df:int64"]):
                            inp = {"part": "B", "detector": name, "x": x, "stat": st, "lower": lo, "upper": hi, "repr": rep}
                            ok, nt = check_case(rec, name, make, x, cps, st, lo, hi, rep, inp)
                            if not ok:
                                skipped += 1
                                continue
                            rec.case((name, dname, sd, st, lo, hi, rep), nt, {k: v for k, v in inp.items() if k != "x"} | {"changepoints": cps}
                                     if rep == "df" and len(cps) > 1 else None)
                inp = {"part": "B", "detector": name, "x": x, "stat": "mean", "lower": -1.0, "upper": 1.0, "repr": "df", "prefit": True}
                ok, nt = check_case(rec, name, make, x, cps, "mean", -1.0, 1.0, "df", inp, prefit=pd.DataFrame(np.arange(40.0) % 7))
                if ok:
                    rec.case((name, dname, sd, "prefit"), True, None)
    bound = (f"part A: stub detector, n<=7, all {127} changepoint subsets x {nvec} integer/half-integer data vectors x 4 stats x 4 bounds "
             f"(lower<=upper); x 10 representations for one vector; part B: 8 real configurations (two re-configured through nested set_params) x 5 data sets (n=30) x 4 stats x 5 bounds, "
             f"{len(seeds)} seed(s); ties within {MARGIN} of a bound skipped")
    return rec.result(RULE, bound, exhaustive=True, skipped_ties_or_inner_errors=skipped)


def replay(inp, repo="/repo"):
    import pandas as pd
    use_repo(repo)
    rec = Recorder()
    x = np.array(inp["x"], dtype=float)
    if inp.get("part") == "A2":
        from skchange.anomaly_detectors import StatThresholdAnomaliser
        cps1, cps2 = tuple(inp["changepoints"]), tuple(inp["changepoints2"])
        want, _ = expected_anomalies(x, cps2, np.mean, -1.0, 1.0)
        inner = stub(cps1)
        anom = StatThresholdAnomaliser(inner, stat=np.mean, stat_lower=-1.0, stat_upper=1.0)
        X = represent(x, "df")
        anom.fit(X); anom.predict(X)
        if inp["how"].startswith("set"):
            inner.set_params(changepoints=cps2)
        else:
            anom.change_detector = stub(cps2)
        anom.fit(X)
        got = sorted(read_intervals(anom.predict(X)))
        return {"violated": got != want, "detail": f"reported {got}, expected {want}"}
    if inp.get("part") == "A":
        cps = tuple(int(c) for c in inp["changepoints"])
        name, make = "GivenChangepoints", (lambda: stub(cps))
        prefit = pd.DataFrame(np.arange(9.0)) if inp.get("prefit") else None
    else:
        name = inp["detector"]
        make = real_detectors()[name]
        try:
            cps = [int(c) for c in make().fit(pd.DataFrame(x)).predict(pd.DataFrame(x))["ilocs"].tolist()]
        except Exception as e:                                                  # noqa: BLE001
            return {"violated": False, "detail": f"the wrapped detector itself raises {type(e).__name__}"}
        prefit = pd.DataFrame(np.arange(40.0) % 7) if inp.get("prefit") else None
    ok, _ = check_case(rec, name, make, x, cps, inp["stat"], float(inp["lower"]), float(inp["upper"]), inp["repr"], inp, prefit=prefit)
    if not ok:
        return {"violated": False, "detail": "tie with a bound (skipped)"}
    if rec.violations:
        return {"violated": True, "detail": "; ".join(f"[{v['key']}] {v['what']}" for v in rec.violations)[:1500]}
    return {"violated": False, "detail": "holds"}
