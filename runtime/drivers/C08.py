"""C08 bounded stand-in: moving window = symmetric two-sided scores and peak-of-run detections.

Checks (from the statement; modular so that one defect shows under one key):
  where      utils.numba.general.where on ALL boolean arrays up to a length bound: exactly the maximal runs of True.
  peaks      get_moving_window_changepoints on ALL score arrays over {0,1,2,3}^n (n small) x thresholds x min_detection_interval
             (plus seeded random real-valued arrays): one changepoint per maximal run of >= min_detection_interval
             positions above the threshold, located at a maximum of that run, nothing else.
  transform  moving_window_transform(X, score, b): scores[t] == column sum of score(t-b, t, t+b) for b <= t <= n-b, 0 elsewhere,
             length n.  Scorers: user-defined table change scores that log the cuts they are asked for (root-cause probe:
             the cuts asked must be exactly (t-b, t, t+b)), and the built-in scores against their direct definition.
  detector   MovingWindow(...).fit(X): transform_scores(X), predict(X), `scores`, for fixed and tuned thresholds and all
             min_detection_interval the constructor admits; time reversal maps scores / changepoints at t to n-t.
"""
from __future__ import annotations

import itertools
import time

import numpy as np

from runtime import oracles_C07_C09 as O
from runtime.common import close, use_repo, rot_frame, alternate_route

RULE = ("where: every boolean array of the length bound, non-trivial when it has a True; peaks: every array of {0,1,2,3}^n x threshold "
        "x min_detection_interval, non-trivial when a run qualifies or a run is rejected for being too short; transform/detector: "
        "(scorer, data, bandwidth, threshold, min_detection_interval), non-trivial when n >= 2*bandwidth scores are computed (transform) "
        "/ a changepoint is reported or expected (predict) / the reversed run has a changepoint (reversal); distinct = configuration tuple")

TARGET = "skchange/change_detectors/moving_window.py"
KEY_CUTS = "moving_window_transform:window-cuts"


def _ints(a):
    return [int(v) for v in np.asarray(a).tolist()]


def check_where(rec, inp):
    from skchange.utils.numba.general import where
    ind = np.array(inp["indicator"], dtype=bool)
    out, err = O.attempt(lambda: where(ind))
    if err is not None:
        rec.violation(f"where:raises:{type(err).__name__}", f"where({inp['indicator']}) raised {err!r}", "C08.where", inp)
        return True
    got = [(int(a), int(b)) for a, b in out]
    exp = O.maximal_runs(ind.tolist())
    if got != exp:
        rec.violation("where:runs", f"where({[int(v) for v in ind]}) = {got}, the maximal runs of True are {exp}", "C08.where", inp)
    return bool(ind.any())


def peaks_ok(scores, th, mdi, got):
    """Tie-robust statement check: one reported position per qualifying run, inside it and attaining its maximum."""
    runs = O.qualifying_runs(scores, th, mdi)
    if len(got) != len(runs):
        return False, runs
    for c, (a, b) in zip(got, runs):
        if not (a <= c < b) or scores[c] != max(scores[a:b]):
            return False, runs
    return True, runs


def check_peaks(rec, inp):
    from skchange.change_detectors.moving_window import get_moving_window_changepoints
    scores = [float(v) for v in inp["scores"]]
    th, mdi = float(inp["threshold"]), int(inp["min_detection_interval"])
    out, err = O.attempt(lambda: get_moving_window_changepoints(np.array(scores), th, mdi))
    if err is not None:
        rec.violation(f"get_moving_window_changepoints:raises:{type(err).__name__}", f"get_moving_window_changepoints({scores},{th},{mdi}) raised {err!r}",
                      "C08.peaks", inp)
        return True
    got = _ints(out)
    ok, runs = peaks_ok(scores, th, mdi, got)
    if not ok:
        rec.violation("get_moving_window_changepoints:peaks",
                      f"get_moving_window_changepoints({scores}, threshold={th}, min_detection_interval={mdi}) = {got}; the runs of >= {mdi} positions above "
                      f"the threshold are {runs} with maxima at {[[i for i in range(a, b) if scores[i] == max(scores[a:b])] for a, b in runs]}", "C08.peaks", inp)
    short = [r for r in O.maximal_runs([v > th for v in scores]) if r[1] - r[0] < mdi]
    return bool(runs) or bool(short)


def expected_scores(agg, n, b):
    out = np.zeros(n)
    for t in range(b, n - b + 1):
        v = agg(t - b, t, t + b)
        if v is None:
            return None
        out[t] = v
    return out


def probe_cuts(X, b):
    """Root-cause probe with a recording user-defined change score: which cuts does the transform ask for?
    Returns (ok, description): ok iff exactly the cuts (t-b, t, t+b), b <= t <= n-b, are asked."""
    from skchange.change_detectors.moving_window import moving_window_transform
    n = X.shape[0]
    sc, agg, _, tab = O.build_scorer({"kind": "table", "seed": 1, "q": 1, "style": "perm"}, X, 3)
    _, err = O.attempt(lambda: moving_window_transform(X, sc, b))
    asked = sorted({tuple(int(v) for v in row) for arr in tab.asked for row in np.atleast_2d(arr)})
    want = [(t - b, t, t + b) for t in range(b, n - b + 1)]
    return asked == want, f"cuts asked {asked[:4]}{'...' if len(asked) > 4 else ''}, statement {want[:4]}{'...' if len(want) > 4 else ''}" + (
        f"; raised {err!r}" if err is not None else "")


def score_violation(rec, name, cuts_ok, what, clause, inp):
    """Attribute a wrong / missing score: to the window construction when the recording probe shows wrong cuts on this
    very (n, bandwidth), else to the value path of the scorer."""
    rec.violation(KEY_CUTS if not cuts_ok[0] else f"moving_window_transform:score:{name}", what + ("" if cuts_ok[0] else f" [{cuts_ok[1]}]"), clause, inp)


def check_transform(rec, inp):
    from skchange.change_detectors.moving_window import moving_window_transform
    X = np.array(inp["X"], dtype=float)
    n, b = X.shape[0], int(inp["b"])
    spec = dict(inp["scorer"], as_score=True)
    name = spec.get("name", "table")
    sc, agg, msize, tab = O.build_scorer(spec, X, 3)
    cuts_ok = probe_cuts(X, b)
    out, err = O.attempt(lambda: moving_window_transform(X, sc, b))
    exp = expected_scores(agg, n, b)
    if err is not None:
        if exp is None and isinstance(err, RuntimeError):
            return False
        score_violation(rec, name, cuts_ok, f"moving_window_transform(n={n}, bandwidth={b}, {name}) raised {err!r} although bandwidth >= 1 and n >= 2*bandwidth",
                        "C08.score_def.runs", inp)
        return True
    got = np.asarray(out, dtype=float)
    if exp is None:
        return False
    if got.shape == (n,) and not close(got, exp) and getattr(agg, "alt", None) is not None:      # second reference: a fresh scorer instance
        exp2 = expected_scores(agg.alt, n, b)
        exp = exp2 if exp2 is not None and close(got, exp2) else exp
    if got.shape != (n,):
        rec.violation("moving_window_transform:length", f"scores have shape {got.shape}, expected ({n},)", "C08.score_def", inp)
    elif not close(got, exp):
        t = int(np.argmax(~np.isclose(got, exp, rtol=1e-8, atol=1e-8)))
        score_violation(rec, name, cuts_ok,
                        f"moving_window_transform(n={n}, bandwidth={b}, {name}): score[{t}] = {float(got[t])!r}, the change score between X[{t - b}:{t}] and "
                        f"X[{t}:{t + b}] is {float(exp[t])!r}" if b <= t <= n - b else f"score[{t}] = {got[t]!r} outside [b, n-b] must be 0", "C08.score_def", inp)
    return True


def make_detector(inp, sc):
    from skchange.change_detectors import MovingWindow
    kw = dict(change_score=sc, bandwidth=inp["b"], threshold_scale=inp["threshold_scale"], min_detection_interval=inp["mdi"])
    if inp.get("level") is not None:
        kw["level"] = inp["level"]
    return alternate_route(MovingWindow(**kw))


def _ambiguous(scores, th, mdi):
    """Discrete outcome not decided with margin: a score within TIE of the threshold or an in-run maximum that is not unique."""
    if any(O.near(v, th) for v in scores):
        return True
    for a, b in O.qualifying_runs(scores, th, 1):
        top = sorted(scores[a:b])[-2:]
        if len(top) == 2 and O.near(top[0], top[1]):
            return True
    return False


def check_detector(rec, inp):
    """MovingWindow(...).fit(Xfit); transform_scores(X), predict(X), `scores`; optionally the time-reversed series."""
    X = np.array(inp["X"], dtype=float)
    Xfit = np.array(inp["Xfit"], dtype=float) if inp.get("Xfit") is not None else X
    n, b, mdi = X.shape[0], int(inp["b"]), int(inp["mdi"])
    name = inp["scorer"].get("name", "table")
    sc, agg, msize, tab = O.build_scorer(inp["scorer"], X, 3, n_table=max(n, Xfit.shape[0]))
    info = {"threshold": None, "cpts": None, "scores": None, "nt": False}
    cuts_ok = probe_cuts(X, b)
    exp = expected_scores(agg, n, b)
    # inplace: the training frame object itself is refilled with X after fit and handed to the later calls (same object, other contents:
    # what is reported describes the contents at the time of the call)
    buf = rot_frame(Xfit, 1) if inp.get("inplace") and Xfit.shape == X.shape else None
    det, err = O.attempt(lambda: make_detector(inp, sc).fit(buf if buf is not None else rot_frame(Xfit, 1)))
    if buf is not None and err is None:
        buf.iloc[:, :] = X
    if err is not None:
        if isinstance(err, RuntimeError) and "positive definite" in str(err):
            return info
        probe_fit = probe_cuts(Xfit, b)
        if inp["threshold_scale"] is None and not probe_fit[0]:
            score_violation(rec, name, probe_fit, f"MovingWindow(bandwidth={b}, threshold_scale=None).fit on n={Xfit.shape[0]} raised {err!r}", "C08.score_def.runs@fit", inp)
        else:
            rec.violation(f"MovingWindow:fit:{type(err).__name__}:{name}", f"MovingWindow(bandwidth={b}, min_detection_interval={mdi}).fit raised {err!r}", "C08.detector", inp)
        return info
    th = float(det.threshold_)
    info["threshold"] = th
    ts, err = O.attempt(lambda: det.transform_scores(buf if buf is not None else rot_frame(X, 2)))
    if err is not None:
        if isinstance(err, RuntimeError) and "positive definite" in str(err):
            return info
        score_violation(rec, name, cuts_ok, f"MovingWindow(bandwidth={b}).transform_scores on n={n} raised {err!r} although bandwidth >= 1 and n >= 2*bandwidth",
                        "C08.score_def.runs@transform_scores", inp)
        return info
    got = np.asarray(ts.to_numpy(), dtype=float).reshape(-1)
    info["scores"] = got
    if got.shape != (n,):
        rec.violation("MovingWindow:transform_scores:length", f"transform_scores returned shape {got.shape} for n={n}", "C08.score_def", inp)
        return info
    if exp is not None and not close(got, exp) and getattr(agg, "alt", None) is not None:
        exp2 = expected_scores(agg.alt, n, b)
        exp = exp2 if exp2 is not None and close(got, exp2) else exp
    if exp is not None and not close(got, exp):
        t = int(np.argmax(~np.isclose(got, exp, rtol=1e-8, atol=1e-8)))
        score_violation(rec, name, cuts_ok,
                        f"MovingWindow(bandwidth={b}, {name}).transform_scores: score[{t}] = {float(got[t])!r}, the change score between X[{t - b}:{t}] and X[{t}:{t + b}] "
                        f"is {float(exp[t])!r}", "C08.score_def@transform_scores", inp)
    if inp["threshold_scale"] is not None:
        # the threshold used must be the REQUESTED one: scale x the detector's own published default for the training shape (also for scale 0)
        from skchange.change_detectors import MovingWindow
        want = float(inp["threshold_scale"]) * float(MovingWindow.get_default_threshold(Xfit.shape[0], Xfit.shape[1], b))
        if np.isfinite(want) and not close(th, want):
            rec.violation(f"MovingWindow:threshold:{name}", f"threshold_scale={inp['threshold_scale']} on training shape {Xfit.shape}: fitted threshold_ {th} "
                          f"but the requested threshold is {want}", "C08.threshold", inp)
            return info
    if not (th >= 0) and inp["threshold_scale"] is not None:        # quantifier: thresholds >= 0 or tuned
        return info
    if not np.isfinite(th):
        return info
    res, err = O.attempt(lambda: det.predict(buf if buf is not None else rot_frame(X, 2)))
    if err is not None:
        rec.violation(f"MovingWindow:predict:{type(err).__name__}:{name}", f"predict raised {err!r}", "C08.detector", inp)
        return info
    cpts = _ints(res["ilocs"].to_numpy())
    info["cpts"] = cpts
    used = np.asarray(det.scores.to_numpy(), dtype=float).reshape(-1)
    if not np.array_equal(used, got):
        rec.violation("MovingWindow:scores-attribute", "the `scores` attribute after predict differs from transform_scores on the same data", "C08.detector", inp)
    ok, runs = peaks_ok(used.tolist(), th, mdi, cpts)
    if not ok:
        rec.violation("get_moving_window_changepoints:peaks",
                      f"MovingWindow(bandwidth={b}, min_detection_interval={mdi}).predict = {cpts} at threshold {th!r}; scores {used.tolist()} have the qualifying runs {runs}",
                      "C08.peaks@predict", inp)
    info["nt"] = bool(cpts) or bool(runs)
    return info


def check_reversal(rec, inp):
    """Reversing the series maps scores and changepoints at t to n-t (built-in, mirror-symmetric scores)."""
    X = np.array(inp["X"], dtype=float)
    n, b, mdi = X.shape[0], int(inp["b"]), int(inp["mdi"])
    name = inp["scorer"].get("name", "table")
    mute = O.Rec()                                    # the forward / backward runs are checked (and reported) by check_detector
    f = check_detector(mute, inp)
    r = check_detector(mute, dict(inp, X=X[::-1].copy(), Xfit=None))
    if f["scores"] is None or r["scores"] is None or len(f["scores"]) != n or len(r["scores"]) != n:
        return False
    cuts_ok = probe_cuts(X, b)
    fs, rs = f["scores"], r["scores"]
    bad = [t for t in range(1, n) if not close(rs[n - t], fs[t])] + ([0] if not close(rs[0], fs[0]) else [])
    if bad:
        t = bad[0]
        what = (f"MovingWindow(bandwidth={b}, {name}): score[{t}] = {float(fs[t])!r} on X but score[{n - t}] = {float(rs[(n - t) % n])!r} on the time-reversed X "
                f"(X = {X.tolist()})")
        if not cuts_ok[0]:
            rec.violation(KEY_CUTS, what + f" [{cuts_ok[1]}]", "C08.reversal.scores", inp)
        else:
            rec.violation(f"MovingWindow:reversal:{name}", what, "C08.reversal.scores", inp)
        return True
    if f["cpts"] is None or r["cpts"] is None or f["threshold"] is None or r["threshold"] is None:
        return False
    if not O.near(f["threshold"], r["threshold"]) or _ambiguous(fs.tolist(), f["threshold"], mdi) or _ambiguous(rs.tolist(), r["threshold"], mdi):
        return False
    if sorted(n - c for c in f["cpts"]) != sorted(r["cpts"]):
        rec.violation(f"MovingWindow:reversal:{name}", f"changepoints {f['cpts']} on X but {r['cpts']} on the reversed X (expected {sorted(n - c for c in f['cpts'])})",
                      "C08.reversal.cpts", inp)
    return bool(r["cpts"])


CHECKS = {"where": check_where, "peaks": check_peaks, "transform": check_transform, "reversal": check_reversal,
          "detector": lambda rec, inp: check_detector(rec, inp)["nt"], "long": lambda rec, inp: check_long_series(rec, inp)}


def admissible_mdi(b):
    """min_detection_interval values the constructor admits (documented: 1..bandwidth/2; DESIGN 11 row 19 is a note only)."""
    from skchange.change_detectors import MovingWindow
    out = []
    for v in range(1, b + 2):
        _, err = O.attempt(lambda: MovingWindow(bandwidth=b, min_detection_interval=v))
        if err is None:
            out.append(v)
    return out


def check_long_series(rec, inp):
    """One LONG series (the statement has no length limit; anything done block-wise, cached by size or indexed with narrow integers only
    shows beyond some tens of thousands of rows): every score of MovingWindow(CUSUM) against a vectorised evaluation of the definition,
    and the reported changepoints against the runs of those scores.  inp: {"n", "b", "seed"}."""
    from skchange.change_detectors import MovingWindow
    from skchange.change_scores import CUSUM
    n, b = int(inp["n"]), int(inp["b"])
    rng = np.random.default_rng(int(inp["seed"]))
    X = rng.normal(size=(n, 1))
    X[n // 3:] += 3.0
    X[n - 40 * b:] -= 4.0                      # a change close to the end of the series
    det, err = O.attempt(lambda: MovingWindow(change_score=CUSUM(), bandwidth=b, threshold_scale=2.0).fit(X), seconds=60.0)
    if err is None:
        res, err = O.attempt(lambda: (np.asarray(det.transform_scores(X), dtype=float).reshape(-1), [int(c) for c in det.predict(X)["ilocs"]]), seconds=60.0)
    if err is not None:
        rec.violation("MovingWindow:long-series:raises", f"MovingWindow(CUSUM, bandwidth={b}) on n={n} raised {err!r}", "C08.detector", inp)
        return True
    got, cpts = res
    S = np.concatenate(([0.0], np.cumsum(X[:, 0])))
    t = np.arange(b, n - b + 1)
    want = np.zeros(n)
    want[t] = np.sqrt(b / 2.0) * np.abs((S[t] - S[t - b]) / b - (S[t + b] - S[t]) / b)
    bad = np.flatnonzero(~np.isclose(got, want, rtol=1e-7, atol=1e-7))
    if len(got) != n or len(bad):
        k = int(bad[0]) if len(bad) else -1
        rec.violation("moving_window_transform:score:long-series", f"MovingWindow(CUSUM, bandwidth={b}) on n={n}: {len(bad)} scores differ from the change score "
                      f"between X[t-b:t] and X[t:t+b], first at t={k}: got {got[k] if k >= 0 else None!r}, definition {want[k] if k >= 0 else None!r}"
                      if len(got) == n else f"{len(got)} scores for n={n}", "C08.score_def", inp)
        return True
    th = float(det.threshold_)
    above = want > th
    edges = np.flatnonzero(np.diff(np.concatenate(([0], above.astype(np.int8), [0]))))
    runs = [(int(a), int(e)) for a, e in zip(edges[::2], edges[1::2])]
    peaks = [a + int(np.argmax(want[a:e])) for a, e in runs]
    if cpts != peaks:
        rec.violation("MovingWindow:long-series:changepoints", f"MovingWindow(CUSUM, bandwidth={b}) on n={n}: reported {cpts[:8]}... ({len(cpts)}), the peaks of the "
                      f"{len(runs)} runs above the threshold are {peaks[:8]}...", "C08.detector", inp)
    return True


def run(tier="quick", seed=0, repo="/repo"):
    use_repo(repo)
    rec = O.Rec(target=TARGET)
    O.reset_hangs()
    bound = {}
    try:
        _enumerate(rec, tier, seed, bound)
        for n, b in ((70000, 20),) if tier == "quick" else ((70000, 20), (140000, 3)):
            inp = {"check": "long", "n": n, "b": b, "seed": seed}
            rec.case(("long", n, b), check_long_series(rec, inp), None)
        bound["text"] = bound.get("text", "") + "; one long series (n = 70000, bandwidth 20, CUSUM) scored completely against the vectorised definition"
    except O.Abort:
        bound["text"] = bound.get("text", "") + " [enumeration stopped early: calls into the real code did not terminate]"
    kinds = {}
    for f in rec.nontrivial:
        k = f[0] if isinstance(f, tuple) else "other"
        kinds[k] = kinds.get(k, 0) + 1
    return rec.result(RULE, bound.get("text", "stopped before the bound was fixed"), exhaustive=False, section_seconds=bound.get("timing", {}),
                      nontrivial_by_kind=kinds)


def _enumerate(rec, tier, seed, bound_out):
    rng = np.random.default_rng(seed)
    quick = tier == "quick"
    t0 = [time.time(), None]
    timing = bound_out.setdefault("timing", {})

    def tick(label):
        now = time.time()
        if t0[1] is not None:
            timing[t0[1]] = round(timing.get(t0[1], 0.0) + now - t0[0], 1)
        t0[0], t0[1] = now, label
    n_where = 10 if quick else 15
    n_peaks = 7 if quick else 8
    bs = [1, 2, 3, 4] if quick else [1, 2, 3, 4, 5, 6]
    n_max = 12 if quick else 16
    bs_d = [1, 2, 3, 4, 6] if quick else [1, 2, 3, 4, 5, 6, 8]
    bound_out["text"] = (f"where: all boolean arrays of length <= {n_where}; peaks: {{0,1,2,3}}^n for n <= {n_peaks} + random; transform: bandwidth in {bs}, "
                         f"2b <= n <= {n_max}, p <= 2; detector: bandwidth in {bs_d}, n in 2b..2b+8, every admitted min_detection_interval")

    tick("1")
    # (1) where: all boolean arrays
    for n in range(0, n_where + 1):
        for bits in itertools.product((False, True), repeat=n):
            inp = {"check": "where", "indicator": list(bits)}
            rec.case(("where", bits), check_where(rec, inp), inp if bits == (False, True, True, False, True) else None)

    tick("2")
    # (2) peaks: all arrays over {0,1,2,3}^n
    for n in range(1, n_peaks + 1):
        for arr in itertools.product((0.0, 1.0, 2.0, 3.0), repeat=n):
            for th in (0.0, 1.0, 2.0) if quick or n > 7 else (0.0, 0.5, 1.0, 2.0, 3.0):
                for mdi in (1, 2, 3) if quick or n > 7 else (1, 2, 3, 4):
                    inp = {"check": "peaks", "scores": list(arr), "threshold": th, "min_detection_interval": mdi}
                    rec.case(("peaks", arr, th, mdi), check_peaks(rec, inp), inp if arr == (0.0, 2.0, 3.0, 0.0, 1.0, 1.0) and th == 0.0 and mdi == 2 else None)
    for it in range(300 if quick else 3000):
        n = int(rng.integers(1, 15))
        arr = np.round(rng.gamma(1.0, 1.5, size=n) * (rng.random(n) < 0.7), 2).tolist()
        ths = sorted(set(arr) | {0.0})
        for th in ths[:: max(1, len(ths) // 4)]:
            mdi = int(rng.integers(1, 5))
            inp = {"check": "peaks", "scores": arr, "threshold": th, "min_detection_interval": mdi}
            rec.case(("peaksr", it, th, mdi), check_peaks(rec, inp), None)

    tick("3")
    # (3) transform kernel
    for b in bs:
        for n in range(2 * b, n_max + 1):
            X0 = np.zeros((n, 1))
            for j, style in enumerate(O.STYLES):
                q = 1 + (j + n) % 2
                inp = {"check": "transform", "scorer": {"kind": "table", "seed": seed + n + b, "q": q, "style": style}, "X": X0, "b": b}
                rec.case(("tr", "table", style, q, n, b), check_transform(rec, inp), inp if (n, b, j) == (6, 2, 0) else None)
            for p in (1, 2):
                for name, (_, msize, _) in O.builtin_change_scores(p).items():
                    if b < msize or (quick and p == 2 and n % 2):
                        continue
                    X = O.gen_data(rng, n, p, ("jump", "two", "none", "bump")[(n + b + p) % 4])
                    inp = {"check": "transform", "scorer": {"kind": "builtin", "name": name}, "X": X, "b": b}
                    rec.case(("tr", name, n, p, b), check_transform(rec, inp), None)

    tick("4")
    # (4) detector class (+ reversal)
    for b in bs_d:
        mdis = admissible_mdi(b)
        ns = sorted({2 * b, 2 * b + 1, 2 * b + 2, 2 * b + 3, 2 * b + 5, min(2 * b + 6, 14)}) if quick else list(range(2 * b, 2 * b + 9))
        for n in ns:
            for p in (1, 2):
                if quick and p == 2 and n != 2 * b + 3:
                    continue
                specs = [{"kind": "table", "seed": seed + n + b, "q": p, "style": "perm"}, {"kind": "table", "seed": seed + n, "q": 1, "style": "signed"}]
                specs += [{"kind": "builtin", "name": nm} for nm, v in O.builtin_change_scores(p).items() if v[1] <= b and not (quick and nm.startswith("ChangeScore"))]
                for spec in specs:
                    for mdi in mdis:
                        X = O.gen_data(rng, n, p, ("jump", "two", "none", "bump")[(n + b + mdi) % 4])
                        base = {"check": "detector", "scorer": spec, "X": X, "b": b, "mdi": mdi}
                        probe = dict(base, threshold_scale=1.0)
                        info = check_detector(rec, probe)
                        rec.case(("det", str(spec), n, p, b, mdi, 1.0), info["nt"], probe if info["nt"] and spec["kind"] == "builtin" and n >= 8 else None)
                        variants = []
                        if info["threshold"] and info["scores"] is not None and info["threshold"] > 0:
                            vals = sorted({float(v) for v in info["scores"] if v > 0})
                            mids = [(x + y) / 2 for x, y in zip([0.0] + vals[:-1], vals)]
                            pick = mids[:: max(1, len(mids) // (2 if quick else 4))][: (2 if quick else 4)]
                            variants += [dict(base, threshold_scale=float(t / info["threshold"])) for t in pick]
                        variants.append(dict(base, threshold_scale=0.0))            # scale 0: the requested threshold is 0, not a tuned one
                        if info["threshold"] and info["scores"] is not None and info["threshold"] > 0 and pick and (n + b) % 2 == 0:
                            # numeric scale, fitted on a four times longer series: predict compares with the FITTED threshold (aimed between
                            # two scores of X), not with one recomputed from the series handed to predict
                            from skchange.change_detectors import MovingWindow as _MW
                            nf = 4 * n
                            d0 = float(_MW.get_default_threshold(nf, p, b))
                            if d0 > 0:
                                variants.append(dict(base, threshold_scale=float(pick[0] / d0), Xfit=O.gen_data(rng, nf, p, "none")))
                        variants += [dict(base, threshold_scale=None, level=lv) for lv in ((0.5,) if quick else (0.5, 0.25, 0.01))]
                        if (n + b) % 3 == 0:
                            variants.append(dict(base, threshold_scale=None, level=0.4, Xfit=O.gen_data(rng, n + 2, p, "none")))
                        if (n + b) % 3 == 1:                # tuned on a frame that is afterwards refilled in place with X and handed to predict
                            variants.append(dict(base, threshold_scale=None, level=0.4, Xfit=O.gen_data(rng, n, p, "none"), inplace=True))
                        for d in variants:
                            inf2 = check_detector(rec, d)
                            rec.case(("det", str(spec), n, p, b, mdi, d["threshold_scale"], d.get("level"), "Xfit" in d), inf2["nt"], None)
                            # (a score that can be NEGATIVE -- the user-defined level cost -- makes a tuned threshold negative, so that the zero-padded
                            # border positions are reported: that is the recorded finding KF1 of C04, not a reversal question)
                            if spec["kind"] == "builtin" and "Xfit" not in d and not (spec.get("name") == "UserLevelCost" and d["threshold_scale"] is None):
                                r = dict(d, check="reversal")
                                rec.case(("rev", str(spec), n, p, b, mdi, d["threshold_scale"], d.get("level")), check_reversal(rec, r), None)
    tick("end")


def replay(inp, repo="/repo"):
    use_repo(repo)
    rec = O.Rec(target=TARGET)
    CHECKS[inp["check"]](rec, inp)
    return O.replay_result(rec, inp)
