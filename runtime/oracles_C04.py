"""Shared helpers of the C04 / C14 bounded drivers: JSON-able detector specs, the documented domains (DESIGN Appendix B),
and the well-formedness oracle of C04, written from the property STATEMENT (not from the code).

A *spec* is a JSON-able dict  {"det": <class name>, "params": {<constructor keywords>}, "scorer": <scorer name or None>,
"point": <point-saving name or None>, "inner": <spec of the wrapped change detector>, "stat": "mean"|"median"}.
`build(spec)` constructs the real detector (import skchange via common.use_repo first).
"""
from __future__ import annotations

import os
import re
import traceback

import numpy as np
import pandas as pd

DETECTORS = ("PELT", "MovingWindow", "SeededBinarySegmentation", "CAPA", "MVCAPA", "CircularBinarySegmentation",
             "StatThresholdAnomaliser")
CHANGE = ("PELT", "MovingWindow", "SeededBinarySegmentation")

# keyword under which each detector takes its scorer
SCORER_KW = {"PELT": "cost", "MovingWindow": "change_score", "SeededBinarySegmentation": "change_score",
             "CircularBinarySegmentation": "anomaly_score", "CAPA": "collective_saving", "MVCAPA": "collective_saving"}

# documented defaults needed by the oracle (from the class docstrings)
DEFAULTS = {
    "PELT": {"min_segment_length": 2},
    "MovingWindow": {"bandwidth": 30, "min_detection_interval": 1},
    "SeededBinarySegmentation": {"min_segment_length": 5, "max_interval_length": 200},
    "CircularBinarySegmentation": {"min_segment_length": 5, "max_interval_length": 1000},
    "CAPA": {"min_segment_length": 2, "max_segment_length": 1000, "ignore_point_anomalies": False},
    "MVCAPA": {"min_segment_length": 2, "max_segment_length": 1000, "ignore_point_anomalies": False},
}


def par(spec, name):
    return spec.get("params", {}).get(name, DEFAULTS[spec["det"]][name])


# ------------------------------------------------------------------------------------------------ construction

def make_scorer(name, role):
    """role: 'cost' (optimised cost, for PELT / change scores / local anomaly scores) or 'saving' (fixed baseline)."""
    from skchange.anomaly_scores import L2Saving
    from skchange.change_scores import CUSUM
    from skchange.costs import GaussianCovCost, GaussianVarCost, L2Cost
    if name is None:
        return None
    if name == "CUSUM":
        return CUSUM()
    if name == "L2Saving":
        return L2Saving()
    if role == "cost":
        return {"L2": L2Cost, "GVar": GaussianVarCost, "GCov": GaussianCovCost}[name]()
    if name == "L2":
        return L2Cost(param=0.0)
    if name == "GVar":
        return GaussianVarCost(param=(0.0, 1.0))
    if name == "GCov":
        return GaussianCovCost(param=(0.0, 1.0))
    if name == "L2-noparam":          # a cost WITHOUT fixed parameter: documented as invalid for savings
        return L2Cost()
    raise KeyError(name)


def build(spec):
    import skchange.anomaly_detectors as ad
    import skchange.change_detectors as cd
    det = spec["det"]
    kw = dict(spec.get("params", {}))
    if det == "StatThresholdAnomaliser":
        kw["change_detector"] = build(spec["inner"])
        kw["stat"] = {"mean": np.mean, "median": np.median}[spec.get("stat", "mean")]
        return ad.StatThresholdAnomaliser(**kw)
    role = "saving" if det in ("CAPA", "MVCAPA") else "cost"
    sc = make_scorer(spec.get("scorer"), role)
    _build_counter[0] += 1
    if sc is not None:
        if _build_counter[0] % 2 == 0 or spec.get("scorer") == "GCov":       # (always for the cost whose min_size is fitted state)
            # every second scorer handed to a detector has a PAST: it was fitted to wider data before (a cost object the user used elsewhere);
            # whether a configuration is valid, and what it returns, depends on the configuration and the data of this run only (C10)
            try:
                sc.fit(_WIDE)
            except Exception:       # noqa: BLE001
                sc = make_scorer(spec.get("scorer"), role)
        kw[SCORER_KW[det]] = sc
    if spec.get("point") is not None:
        kw["point_saving"] = make_scorer(spec["point"], "saving")
    cls = getattr(cd, det, None) or getattr(ad, det)
    return cls(**kw)


_build_counter = [0]
_WIDE = np.random.default_rng(12345).normal(size=(24, 7))


def scorer_min_size(spec, p):
    """min_size of the chosen scorer (documented: L2 / CUSUM 1, Gaussian variance 2, Gaussian covariance p + 1)."""
    if spec["det"] == "StatThresholdAnomaliser":
        return scorer_min_size(spec["inner"], p)
    return {None: 1, "CUSUM": 1, "L2": 1, "L2Saving": 1, "GVar": 2, "GCov": p + 1}[spec.get("scorer")]


def requested_length(spec):
    """Shortest segment the configuration asks the scorer to evaluate."""
    det = spec["det"]
    if det == "StatThresholdAnomaliser":
        return requested_length(spec["inner"])
    return par(spec, "bandwidth") if det == "MovingWindow" else par(spec, "min_segment_length")


def compatible(spec, p):
    return requested_length(spec) >= scorer_min_size(spec, p)


def may_be_not_pd(spec):
    if spec["det"] == "StatThresholdAnomaliser":
        return may_be_not_pd(spec["inner"])
    return spec.get("scorer") == "GCov"


def min_length(spec):
    """Documented minimum number of rows (DESIGN Appendix B, last column)."""
    det = spec["det"]
    if det == "StatThresholdAnomaliser":
        return min_length(spec["inner"])
    if det == "MovingWindow":
        return 2 * par(spec, "bandwidth")
    if det in ("CAPA", "MVCAPA"):
        return par(spec, "min_segment_length")
    return 2 * par(spec, "min_segment_length")


# ------------------------------------------------------------------------------------------------ running

def site_of(exc, repo):
    """'<file stem>.<function>' of the innermost detector-level skchange frame of the traceback (validation helpers,
    the scorer base class and the scorer packages are skipped, so the CALL SITE is named, not the validator)."""
    root = os.path.join(os.path.abspath(repo), "skchange") + os.sep
    skip = ("utils" + os.sep + "validation", "base" + os.sep, "costs" + os.sep, "change_scores" + os.sep,
            "anomaly_scores" + os.sep, "utils" + os.sep + "numba")
    best = None
    for fr in traceback.extract_tb(exc.__traceback__):
        fn = os.path.abspath(fr.filename)
        if fn.startswith(root):
            rel = fn[len(root):]
            if any(rel.startswith(s) for s in skip):
                continue
            best = f"{os.path.splitext(os.path.basename(fn))[0]}.{fr.name}"
    return best or "outside-skchange"


def slug(msg, words=5):
    return "-".join(re.sub(r"[^a-z ]", " ", str(msg).lower()).split()[:words])


def as_container(X, container):
    X = np.asarray(X, dtype=float)
    if container == "ndarray":
        return X
    if container == "series":
        return pd.Series(X[:, 0])
    if container == "frame-shifted":        # integer row labels that are not positions (e.g. df.iloc[300:]): outputs are positional whatever the labels
        return pd.DataFrame(X, index=pd.RangeIndex(300, 300 + len(X)))
    if container == "frame-strided":
        return pd.DataFrame(X, index=pd.RangeIndex(0, 3 * len(X), 3))
    return pd.DataFrame(X)


def attempt(spec, Xfit, Xpred, repo, container="frame"):
    """Construct, fit on Xfit, predict on Xpred.  Returns (stage_reached, y_or_None, exc_or_None, site)."""
    import warnings
    stage = "init"
    with warnings.catch_warnings():
        warnings.simplefilter("ignore")
        with np.errstate(all="ignore"):
            try:
                det = build(spec)
                attempt.last_det = det          # lets the drivers qualify a finding by the fitted state (e.g. a negative threshold_)
                stage = "fit"
                det.fit(as_container(Xfit, container))
                stage = "predict"
                y = det.predict(as_container(Xpred, container))
                return "done", y, None, None
            except Exception as e:  # noqa: BLE001 - every exception type is an observation here
                return stage, None, e, site_of(e, repo)


attempt.last_det = None


def qualify(det_name, slug):
    """Violation key of a well-formedness finding; a MovingWindow changepoint outside [1, n-1] is qualified by its cause when the fitted
    threshold is negative (the recorded finding KF1): any other way of producing such a changepoint keeps the plain key and is reported."""
    if det_name == "MovingWindow" and slug == "changepoint-outside-1..n-1":
        thr = getattr(attempt.last_det, "threshold_", None)
        try:
            if thr is not None and float(thr) < 0:
                return f"{det_name}:{slug}:negative-fitted-threshold"
        except (TypeError, ValueError):
            pass
    return f"{det_name}:{slug}"


# ------------------------------------------------------------------------------------------------ the C04 oracle

def wellformed(spec, y, n, p):
    """All clauses of the C04 statement on the frame `y` returned by predict for data with n rows and p columns.
    Returns a list of (slug, message); empty = well-formed."""
    det = spec["det"]
    bad = []
    if not isinstance(y, pd.DataFrame):
        return [("not-a-frame", f"predict returned {type(y).__name__}")]
    K = len(y)
    if list(y.index) != list(range(K)):
        bad.append(("index-not-0..K-1", f"index is {list(y.index)[:6]}"))
    if "ilocs" not in y.columns:
        return bad + [("no-ilocs-column", f"columns are {list(y.columns)}")]
    col = y["ilocs"]
    if det in CHANGE:
        if str(col.dtype) != "int64":
            bad.append(("ilocs-not-int64", f"ilocs dtype is {col.dtype}"))
            try:
                c = [int(v) for v in col]
            except Exception:  # noqa: BLE001
                return bad
        else:
            c = [int(v) for v in col.to_numpy()]
        if any(b <= a for a, b in zip(c, c[1:])):
            bad.append(("not-strictly-increasing", f"changepoints {c}"))
        if any(v < 1 or v > n - 1 for v in c):
            bad.append(("changepoint-outside-1..n-1", f"changepoints {c}, n={n}"))
        elif det == "MovingWindow":
            b = par(spec, "bandwidth")
            if any(v < b or v > n - b for v in c):
                bad.append(("changepoint-outside-bandwidth..n-bandwidth", f"changepoints {c}, n={n}, bandwidth={b}"))
        elif c and not any(s == "not-strictly-increasing" for s, _ in bad):
            m = par(spec, "min_segment_length")
            seg = [b_ - a for a, b_ in zip([0] + c, c + [n])]
            if min(seg) < m:
                bad.append(("segment-shorter-than-min_segment_length", f"changepoints {c}, n={n}: segment lengths {seg}, min_segment_length={m}"))
        return bad

    # anomaly detectors
    dt = col.dtype
    if not isinstance(dt, pd.IntervalDtype) or dt.closed != "left" or (K > 0 and str(dt.subtype) != "int64"):
        bad.append(("ilocs-not-left-closed-int64-intervals", f"ilocs dtype is {dt}"))
        if not isinstance(dt, pd.IntervalDtype):
            return bad
    iv = [(int(i.left), int(i.right)) for i in col]
    if "labels" not in y.columns:
        bad.append(("no-labels-column", f"columns are {list(y.columns)}"))
    else:
        lab = y["labels"]
        if lab.dtype.kind not in "iu" or [int(v) for v in lab] != list(range(1, K + 1)):
            bad.append(("labels-not-1..K", f"labels {list(lab)[:6]} dtype {lab.dtype}"))
    empty = [(a, b) for a, b in iv if b <= a]
    if empty:
        slug_ = "point-anomaly-interval" if det in ("CAPA", "MVCAPA") and all(a == b for a, b in empty) else "empty-interval"
        bad.append((slug_, f"empty interval(s) {['[%d, %d)' % e for e in empty]} among {['[%d, %d)' % e for e in iv]}"))
    if any(a < 0 or b > n for a, b in iv):
        bad.append(("interval-outside-0..n", f"intervals {iv}, n={n}"))
    if any(a2 < a1 for (a1, _), (a2, _) in zip(iv, iv[1:])):
        bad.append(("not-sorted", f"intervals {iv}"))
    else:
        ne = [(a, b) for a, b in iv if b > a]
        if any(a2 < b1 for (_, b1), (a2, _) in zip(ne, ne[1:])):
            bad.append(("overlap", f"intervals {iv}"))
        # an empty interval [i, i) "inside" another one is an overlap in position as well
        elif any(a < e[0] < b for e in empty for a, b in ne):
            bad.append(("overlap", f"intervals {iv}"))
    if det in ("CAPA", "MVCAPA"):
        m, M = par(spec, "min_segment_length"), par(spec, "max_segment_length")
        ign = par(spec, "ignore_point_anomalies")
        for a, b in iv:
            ln = b - a
            if ln <= 0:
                continue
            if ln == 1 and not ign:
                continue
            if ln == 1 and ign:
                bad.append(("point-anomaly-not-ignored", f"length-1 interval [{a}, {b}) although ignore_point_anomalies=True"))
                break
            if ln < m or ln > M:
                bad.append(("collective-length-outside-min..max", f"interval [{a}, {b}) has length {ln}, limits [{m}, {M}]"))
                break
    if det == "CircularBinarySegmentation":
        m = par(spec, "min_segment_length")
        if any(0 < b - a < m for a, b in iv):
            bad.append(("anomaly-shorter-than-min_segment_length", f"intervals {iv}, min_segment_length={m}"))
        if any(a < 1 or b > n - 1 for a, b in iv):
            bad.append(("anomaly-not-strictly-inside", f"intervals {iv}, n={n}"))
    if det == "MVCAPA":
        if "icolumns" not in y.columns:
            bad.append(("no-icolumns-column", f"columns are {list(y.columns)}"))
        else:
            for cols in y["icolumns"]:
                try:
                    arr = np.asarray(cols)
                    lst = arr.reshape(-1).tolist()
                    ok = (arr.ndim == 1 and len(lst) >= 1 and arr.dtype.kind in "iu" and len(set(lst)) == len(lst)
                          and all(0 <= v < p for v in lst))
                except Exception:  # noqa: BLE001
                    ok, lst = False, repr(cols)
                if not ok:
                    bad.append(("icolumns-invalid", f"icolumns entry {lst} for p={p}"))
                    break
    return bad


def n_detections(y):
    return len(y) if isinstance(y, pd.DataFrame) else 0


# ------------------------------------------------------------------------------------------------ recorder

from runtime.common import Recorder, jsonable  # noqa: E402


class MinRecorder(Recorder):
    """Recorder that keeps, per violation key, the SMALLEST failing input seen (rows x columns, then rows, then the
    number of non-zero data entries, then the length of the configuration), so that the reported witness is minimal
    within the enumerated scope.  Also counts evaluations / non-trivial cases per group (detector)."""

    def __init__(self, *a, **k):
        super().__init__(*a, **k)
        self._best = {}
        self.groups = {}

    @staticmethod
    def _size(input_):
        X = input_.get("X") if isinstance(input_, dict) else None
        if X is None:
            X = input_.get("Xpred") if isinstance(input_, dict) else None
        if X is None:
            return (0, 0, 0, len(repr(input_)))
        X = np.asarray(X, dtype=float)
        n, p = (X.shape + (1,))[:2] if X.ndim else (0, 0)
        with np.errstate(all="ignore"):
            nz = int(np.sum(~(X == 0)))
        return (n * p, n, nz, len(repr(input_.get("spec"))))

    def violation(self, key, what, clause, input_, target=None):
        self._per_key[key] = self._per_key.get(key, 0) + 1
        s = self._size(input_)
        if key not in self._best or s < self._best[key][0]:
            self._best[key] = (s, {"what": what, "clause": clause, "target": target or self.target, "key": key, "input": jsonable(input_)})

    def group(self, name, nontrivial):
        g = self.groups.setdefault(name, [0, 0])
        g[0] += 1
        g[1] += bool(nontrivial)

    def result(self, rule, bound, exhaustive=False, **extra):
        self.violations = [v for _, v in self._best.values()]
        return super().result(rule, bound, exhaustive, per_group={k: {"evaluations": a, "nontrivial": b} for k, (a, b) in self.groups.items()},
                              **extra)
