"""Shared oracles of the bounded drivers C07 (seeded binseg), C08 (moving window) and C09 (circular binseg).

Everything here is written from the property STATEMENTS (properties.jsonl), not from the skchange sources:
  * user-defined table-valued scorers (subclasses of BaseChangeScore / BaseLocalAnomalyScore) that also log the cuts they
    are asked for (before validation: `asked`, after validation: `scored`),
  * direct definitions of the built-in change scores / local anomaly scores summed over columns (via runtime.oracles),
  * the reference greedy selection ("repeatedly take the pick of the highest-scoring remaining candidate while that score
    exceeds the threshold, discard every candidate hit by the pick"), with detection of ambiguous (tied) decisions,
  * maximal runs / peak-of-run changepoints for the moving window,
  * the admissible inner intervals of circular binary segmentation.
"""
from __future__ import annotations

import itertools
import math
import signal
import threading

import numpy as np

from runtime import oracles
from runtime.common import Recorder, jsonable

TIE = 1e-9           # decision margin below which a discrete comparison is skipped
STYLES = ("perm", "signed", "frac", "ties")


def near(a, b, tol=TIE):
    return abs(a - b) <= tol * (1.0 + max(abs(a), abs(b)))


class Rec(Recorder):
    """Recorder that keeps one violation per (key, clause): one defect = one key, but different manifestations
    (clauses) of the same defect are each written out once.  `focus` (the key) is stored in the input for replay."""

    def __init__(self, target="", **kw):
        super().__init__(target=target, **kw)
        self._seen = set()

    def violation(self, key, what, clause, input_, target=None):
        self._per_key[key] = self._per_key.get(key, 0) + 1
        if (key, clause) in self._seen:
            return
        self._seen.add((key, clause))
        inp = dict(input_)
        inp["focus"] = key
        self.violations.append({"what": what, "clause": clause, "target": target or self.target, "key": key,
                                "input": jsonable(inp)})


def replay_result(rec, inp):
    vs = [v for v in rec.violations if inp.get("focus") in (None, v["key"])]
    return {"violated": bool(vs), "detail": vs[0]["what"] if vs else "holds"}


# ------------------------------------------------------------------------------------------------------------------
# user-defined scorers
# ------------------------------------------------------------------------------------------------------------------
_CLS = {}


def classes():
    """(TableChangeScore, TableLocalAnomalyScore) bound to the currently imported skchange."""
    from skchange.anomaly_scores.base import BaseLocalAnomalyScore
    from skchange.change_scores.base import BaseChangeScore
    key = (id(BaseChangeScore), id(BaseLocalAnomalyScore))
    if key in _CLS:
        return _CLS[key]

    def body(base):
        class Table(base):
            """User-defined scorer: the value of a cut is read from a table (one trailing axis per output column).
            Logs the cuts it is asked for."""

            def __init__(self, table=None, size=1):
                self.table = table
                self.size = size
                self.asked = []
                self.scored = []
                super().__init__()

            @property
            def min_size(self):
                return self.size

            def _check_cuts(self, cuts):
                self.asked.append(np.array(cuts).copy())
                return super()._check_cuts(cuts)

            def _evaluate(self, cuts):
                self.scored.append(np.array(cuts).copy())
                return self.table[tuple(np.asarray(cuts).T)]
        return Table

    TableChangeScore = type("TableChangeScore", (body(BaseChangeScore),), {})
    TableLocalAnomalyScore = type("TableLocalAnomalyScore", (body(BaseLocalAnomalyScore),), {})
    _CLS[key] = (TableChangeScore, TableLocalAnomalyScore)
    return _CLS[key]


def make_table(n, k, q, seed, style):
    """Table of shape (n+1,)*k + (q,): a value for every strictly increasing k-tuple of 0..n (NaN elsewhere; such cuts
    never pass `evaluate`).  Column sums: 'perm' distinct positive integers, 'signed' distinct integers of both signs
    (and 0), 'frac' distinct non-integers, 'ties' values of {0,1,2,3}."""
    rng = np.random.default_rng([int(seed), n, k, q, STYLES.index(style)])
    idx = np.array(list(itertools.combinations(range(n + 1), k)), dtype=np.int64)
    N = len(idx)
    if N == 0:
        return np.full((n + 1,) * k + (q,), np.nan)
    if style == "perm":
        vals = rng.permutation(N) + 1.0
    elif style == "signed":
        vals = rng.permutation(N) - float(N // 3)
    elif style == "frac":
        vals = (rng.permutation(N) + 1.0) / 7.0
    elif style == "ties":
        vals = rng.integers(0, 4, size=N).astype(float)
    else:
        raise ValueError(style)
    T = np.full((n + 1,) * k + (q,), np.nan)
    cols = np.zeros((N, q))
    for j in range(1, q):
        cols[:, j] = rng.integers(-3, 4, size=N)
    cols[:, 0] = vals - cols[:, 1:].sum(axis=1)
    T[tuple(idx.T)] = cols
    return T


def gen_data(rng, n, p, kind):
    """Small data sets: noise plus (kind) none / one jump / two jumps / a bump; rounded to 2 decimals so that inputs stay
    readable.  Values within a column are pairwise distinct: a segment of identical values is the floored zero-variance
    corner of the Gaussian costs, which belongs to C01, not to the detectors."""
    for _ in range(100):
        X = rng.normal(size=(n, p))
        if kind == "jump" and n >= 2:
            t = int(rng.integers(1, n))
            X[t:] += rng.choice([-6.0, 4.0, 8.0])
        elif kind == "bump" and n >= 3:
            a = int(rng.integers(1, n - 1))
            b = int(rng.integers(a + 1, n))
            X[a:b] += rng.choice([-7.0, 5.0, 9.0])
        elif kind == "two" and n >= 3:
            a = int(rng.integers(1, n - 1))
            b = int(rng.integers(a + 1, n))
            X[a:] += 6.0
            X[b:] -= 9.0
        X = np.round(X, 2)
        if all(len(set(X[:, j].tolist())) == n for j in range(p)):
            break
    return X


def _cusum_agg(X, s, k, e):
    v = oracles.change_score(oracles.l2_cost, X, s, k, e)
    return float(np.sqrt(np.maximum(v, 0.0)).sum())


def _cs_agg(costf, param=None):
    def f(X, s, k, e):
        v = oracles.change_score(costf, X, s, k, e, param)
        return None if v is None else float(np.sum(v))
    return f


def _la_agg(costf, param=None):
    def f(X, s, a, b, e):
        v = oracles.local_anomaly_score(costf, X, s, a, b, e, param)
        return None if v is None else float(np.sum(v))
    return f


_LEVEL_CLS = {}


def level_cost_class():
    """A user-defined cost whose value depends on the LEVEL of the data: C(s, e) = (e - s) * |mean of the rows|^3 per column -- neither additive
    over rows nor invariant under shifts / scaling, so any pre-processing of the data on its way to the scorer changes the scores."""
    from skchange.costs.base import BaseCost
    if id(BaseCost) in _LEVEL_CLS:
        return _LEVEL_CLS[id(BaseCost)]

    class LevelCost(BaseCost):
        def __init__(self, param=None):
            super().__init__(param)

        @property
        def min_size(self):
            return 1

        def get_param_size(self, p):
            return p

        def _fit(self, X, y=None):
            self.data_ = np.array(X, dtype=float).reshape(len(X), -1)
            return self

        def _evaluate_optim_param(self, starts, ends):
            return np.array([(e - s) * np.abs(self.data_[s:e].mean(axis=0)) ** 3 for s, e in zip(starts, ends)])

    _LEVEL_CLS[id(BaseCost)] = LevelCost
    return LevelCost


def level_cost(x, param=None):
    x = np.asarray(x, dtype=float)
    return len(x) * np.abs(x.mean(axis=0)) ** 3


def builtin_change_scores(p):
    """name -> (factory of the object handed to the detector, minimum segment size, direct definition summed over columns)."""
    from skchange.change_scores import CUSUM, ChangeScore
    from skchange.costs import GaussianCovCost, GaussianVarCost, L2Cost
    return {
        "CUSUM": (lambda: CUSUM(), 1, _cusum_agg),
        "L2Cost": (lambda: L2Cost(), 1, _cs_agg(oracles.l2_cost)),
        "ChangeScore(L2Cost)": (lambda: ChangeScore(L2Cost()), 1, _cs_agg(oracles.l2_cost)),
        "GaussianVarCost": (lambda: GaussianVarCost(), 2, _cs_agg(oracles.gaussian_var_cost)),
        "ChangeScore(GaussianVarCost)": (lambda: ChangeScore(GaussianVarCost()), 2, _cs_agg(oracles.gaussian_var_cost)),
        "GaussianCovCost": (lambda: GaussianCovCost(), p + 1, _cs_agg(oracles.gaussian_cov_cost)),
        # costs at a FIXED parameter (their change score is identically 0 up to rounding: the cost is additive over rows)
        "L2Cost(0.5)": (lambda: L2Cost(param=0.5), 1, _cs_agg(oracles.l2_cost, 0.5)),
        "GaussianVarCost((0.5,2.0))": (lambda: GaussianVarCost(param=(0.5, 2.0)), 2, _cs_agg(oracles.gaussian_var_cost, (0.5, 2.0))),
        # a user-defined cost that is NOT shift / scale invariant (the data must reach the scorer untouched)
        "UserLevelCost": (lambda: level_cost_class()(), 1, _cs_agg(level_cost)),
    }


def builtin_local_scores(p):
    from skchange.anomaly_scores import LocalAnomalyScore
    from skchange.costs import GaussianCovCost, GaussianVarCost, L2Cost
    return {
        "L2Cost": (lambda: L2Cost(), 1, _la_agg(oracles.l2_cost)),
        "LocalAnomalyScore(L2Cost)": (lambda: LocalAnomalyScore(L2Cost()), 1, _la_agg(oracles.l2_cost)),
        "GaussianVarCost": (lambda: GaussianVarCost(), 2, _la_agg(oracles.gaussian_var_cost)),
        "LocalAnomalyScore(GaussianVarCost)": (lambda: LocalAnomalyScore(GaussianVarCost()), 2, _la_agg(oracles.gaussian_var_cost)),
        "GaussianCovCost": (lambda: GaussianCovCost(), p + 1, _la_agg(oracles.gaussian_cov_cost)),
        # costs at a FIXED parameter: the local anomaly score C(s,e) - C(a,b) - C(pooled surrounding rows) is identically 0 up to rounding
        "L2Cost(0.5)": (lambda: L2Cost(param=0.5), 1, _la_agg(oracles.l2_cost, 0.5)),
        "LocalAnomalyScore(L2Cost(0.5))": (lambda: LocalAnomalyScore(L2Cost(param=0.5)), 1, _la_agg(oracles.l2_cost, 0.5)),
        "GaussianVarCost((0.5,2.0))": (lambda: GaussianVarCost(param=(0.5, 2.0)), 2, _la_agg(oracles.gaussian_var_cost, (0.5, 2.0))),
        "UserLevelCost": (lambda: level_cost_class()(), 1, _la_agg(level_cost)),
    }


def build_scorer(spec, X, k, n_table=None):
    """spec: {"kind":"table","seed":..,"q":..,"style":..} or {"kind":"builtin","name":..}.
    Returns (object for the detector / kernel, agg(cut tuple) -> float or None, min segment size, table scorer or None)."""
    n, p = X.shape
    if spec["kind"] == "table":
        T = make_table(n_table or n, k, int(spec.get("q", 1)), spec["seed"], spec["style"])
        cls = classes()[0 if k == 3 else 1]
        sc = cls(table=T, size=1)

        def tab(*cut):
            return float(T[tuple(cut)].sum())

        tab.alt = None
        return sc, tab, 1, sc
    table = builtin_change_scores(p) if k == 3 else builtin_local_scores(p)
    make, msize, agg = table[spec["name"]]
    from skchange.anomaly_scores import to_local_anomaly_score
    from skchange.change_scores import to_change_score
    conv = to_change_score if k == 3 else to_local_anomaly_score
    obj = make()
    _past_counter[0] += 1
    if _past_counter[0] % 2 == 0 or spec["name"].startswith("GaussianCovCost"):
        # the scorer object has a PAST: it was fitted to wider data before (a min_size or any other fitted state read before the refit is stale)
        try:
            obj.fit(_WIDE)
        except Exception:      # noqa: BLE001
            obj = make()
    if spec.get("as_score"):        # kernels want a scorer, not a cost
        obj = conv(obj)

    def direct(*cut):
        return agg(X, *cut)

    fresh = []

    def alt(*cut):
        """Second reference for 'the score of this cut': a fresh instance of the same scorer class, one cut at a time.
        The statements of C07-C09 take the scorer's value as given (its relation to the costs is C06/C01); a value is only
        reported as wrong when it differs from the direct definition AND from this."""
        if not fresh:
            # composed explicitly (ChangeScore(cost) / LocalAnomalyScore(cost)), not through the converter the detector itself uses:
            # a second opinion that shares the converter would share its defects
            from skchange.anomaly_scores import LocalAnomalyScore
            from skchange.change_scores import ChangeScore
            from skchange.costs.base import BaseCost
            o = make()
            if isinstance(o, BaseCost):
                o = ChangeScore(o) if k == 3 else LocalAnomalyScore(o)
            fresh.append(o.fit(X))
        try:
            return float(np.sum(fresh[0].evaluate(np.array([cut], dtype=np.int64))))
        except Exception:      # noqa: BLE001
            return None

    direct.alt = alt
    return obj, direct, msize, None


_past_counter = [0]
_WIDE = np.random.default_rng(4321).normal(size=(24, 7))


# ------------------------------------------------------------------------------------------------------------------
# reference greedy selection (C07, C09)
# ------------------------------------------------------------------------------------------------------------------
def ref_greedy(scores, picks, hits, threshold, tol=0.0):
    """Statement: repeatedly take the pick of the highest-scoring remaining candidate while that score exceeds the
    threshold and discard every candidate i with hits(i, pick).

    scores[i] may be None (candidate without a score: never selected).  Returns (picks in selection order, ambiguous):
    ambiguous when the highest score is attained (within tol) by candidates with different picks, or lies within tol of
    the threshold (tol=0: exact comparisons, only exact ties with different picks are ambiguous)."""
    remaining = [i for i in range(len(scores)) if scores[i] is not None and not (isinstance(scores[i], float) and math.isnan(scores[i]))]
    chosen, ambiguous = [], False
    while remaining:
        top = max(scores[i] for i in remaining)
        if tol > 0 and near(top, threshold, tol):
            ambiguous = True
        if not top > threshold:
            break
        best = [i for i in remaining if (scores[i] == top if tol == 0 else near(scores[i], top, tol))]
        if len({picks[i] for i in best}) > 1:
            ambiguous = True
        pick = picks[[i for i in remaining if scores[i] == top][0]]
        chosen.append(pick)
        left = [i for i in remaining if not hits(i, pick)]
        if len(left) == len(remaining):      # the pick does not hit its own candidate: malformed input, stop
            ambiguous = True
            break
        remaining = left
    return chosen, ambiguous


def contains_point(starts, ends):
    """C07: candidate [start, end) contains the chosen point k."""
    return lambda i, k: starts[i] <= k < ends[i]


def overlaps(starts, ends):
    """C09: candidate [start, end) overlaps the chosen inner interval [a, b)."""
    return lambda i, ab: ab[0] < ends[i] and ab[1] > starts[i]


# ------------------------------------------------------------------------------------------------------------------
# C08 oracles
# ------------------------------------------------------------------------------------------------------------------
def maximal_runs(ind):
    """Maximal runs [a, b) of True, found through the string form (independent of the scanning loop of the code)."""
    s = "".join("1" if bool(v) else "0" for v in ind)
    out, pos = [], 0
    for chunk in s.split("0"):
        if chunk:
            out.append((pos, pos + len(chunk)))
        pos += len(chunk) + 1
    return out


def qualifying_runs(scores, threshold, min_len):
    return [(a, b) for a, b in maximal_runs([v > threshold for v in scores]) if b - a >= min_len]


# ------------------------------------------------------------------------------------------------------------------
# C09 oracle
# ------------------------------------------------------------------------------------------------------------------
def inner_intervals(start, end, m):
    """Inner intervals [a, b) of length >= m strictly inside [start, end) that leave >= m surrounding samples."""
    return [(a, b) for a in range(start, end + 1) for b in range(start, end + 1)
            if start < a and b < end and b - a >= m and (a - start) + (end - b) >= m]


class NonTermination(Exception):
    """Raised by the watchdog of `attempt` when a call into the real code does not return in time."""


class Abort(BaseException):
    """Raised by `attempt` once more than MAX_HANGS calls did not terminate: the driver stops enumerating and reports."""


MAX_HANGS = 3
_hangs = [0]


def reset_hangs():
    _hangs[0] = 0


def permitted(err):
    """Documented outcome of the multivariate Gaussian cost on degenerate data (brief: permitted where the statement allows)."""
    return isinstance(err, RuntimeError) and "positive definite" in str(err)


def _timed(fn, seconds):
    """fn() under two alarms: `seconds` of CPU time of this process (ITIMER_PROF: a busy loop in the code under test burns CPU
    whatever the load on the machine, while a process that is merely starved by other jobs does not) and a wall-clock backstop
    of 40 x seconds for a call that blocks without using CPU."""
    def on_alarm(signum, frame):
        raise NonTermination(f"no result after {seconds} s of CPU time")
    old_p = signal.signal(signal.SIGPROF, on_alarm)
    old_r = signal.signal(signal.SIGALRM, on_alarm)
    signal.setitimer(signal.ITIMER_PROF, seconds)
    signal.setitimer(signal.ITIMER_REAL, 40 * seconds)
    try:
        return fn()
    finally:
        signal.setitimer(signal.ITIMER_PROF, 0)
        signal.setitimer(signal.ITIMER_REAL, 0)
        signal.signal(signal.SIGPROF, old_p)
        signal.signal(signal.SIGALRM, old_r)


def attempt(fn, seconds=5.0):
    """(value, None) or (None, exception).  A watchdog (main thread only) turns a call that does not return within
    `seconds` of CPU time into NonTermination instead of hanging the driver; before it is believed the call is repeated with
    three times the budget, so that a slow machine is never reported as a hang."""
    guard = threading.current_thread() is threading.main_thread() and hasattr(signal, "setitimer")
    if _hangs[0] > MAX_HANGS:
        raise Abort()
    try:
        if not guard:
            return fn(), None
        try:
            return _timed(fn, seconds), None
        except NonTermination:
            return _timed(fn, 3 * seconds), None
    except Exception as e:          # noqa: BLE001 - the drivers classify the exception
        if isinstance(e, NonTermination):
            _hangs[0] += 1
        return None, e
