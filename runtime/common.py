"""Shared helpers of the bounded stand-in tier (run-time checks of the real code on enumerated small scopes).

Driver interface (every /verif/runtime/drivers/Cxx.py):

    run(tier: str, seed: int, repo: str) -> dict with keys
        evaluations          int   number of cases executed
        distinct_nontrivial  int   number of DISTINCT cases that are non-trivial by `rule` (measured, see Recorder)
        rule                 str   how cases are enumerated and what makes one non-trivial
        bound                str   the stated bound of the scope
        exhaustive           bool  True when the finite scope was enumerated completely
        samples              list  a few cases written out (JSON-able)
        violations           list of {"what": str, "clause": str, "target": str, "key": str, "input": JSON-able}
    replay(input, repo) -> {"violated": bool, "detail": str}     re-runs one stored input on the current tree

`key` identifies the failing input/call site class (used to match committed known findings); `input` must be enough
for replay().  Drivers never write under /repo and import skchange from `repo` (default /repo).
"""
from __future__ import annotations

import importlib
import json
import math
import os
import sys

import numpy as np

TOL = 1e-8


def use_repo(repo: str):
    """Make `import skchange` resolve to <repo>/skchange (purging a previously imported copy from elsewhere)."""
    repo = os.path.abspath(repo)
    os.environ.setdefault("PYTHONDONTWRITEBYTECODE", "1")
    sys.dont_write_bytecode = True
    if sys.path[0] != repo:
        if repo in sys.path:
            sys.path.remove(repo)
        sys.path.insert(0, repo)
    mod = sys.modules.get("skchange")
    if mod is not None and not os.path.abspath(getattr(mod, "__file__", "")).startswith(repo + os.sep):
        for k in [k for k in sys.modules if k == "skchange" or k.startswith("skchange.")]:
            del sys.modules[k]
    import skchange  # noqa: F401
    assert os.path.abspath(skchange.__file__).startswith(repo + os.sep), (skchange.__file__, repo)
    return skchange


def close(a, b, tol=TOL):
    a = np.asarray(a, dtype=float)
    b = np.asarray(b, dtype=float)
    if a.shape != b.shape:
        return False
    return bool(np.all(np.abs(a - b) <= tol * (1.0 + np.maximum(np.abs(a), np.abs(b)))))


def jsonable(x):
    if isinstance(x, np.ndarray):
        return x.tolist()
    if isinstance(x, (np.integer,)):
        return int(x)
    if isinstance(x, (np.floating,)):
        return float(x)
    if isinstance(x, (list, tuple)):
        return [jsonable(v) for v in x]
    if isinstance(x, dict):
        return {str(k): jsonable(v) for k, v in x.items()}
    if isinstance(x, float) and (math.isnan(x) or math.isinf(x)):
        return str(x)
    try:
        json.dumps(x)
        return x
    except Exception:
        return repr(x)


class Recorder:
    """Counts evaluations / distinct non-trivial cases and collects violations (at most `max_per_key` per key)."""

    def __init__(self, target="", max_per_key=1, max_samples=8):
        self.evaluations = 0
        self.nontrivial = set()
        self.samples = []
        self.violations = []
        self._per_key = {}
        self.target = target
        self.max_per_key = max_per_key
        self.max_samples = max_samples

    def case(self, fingerprint, nontrivial: bool, sample=None):
        self.evaluations += 1
        if nontrivial:
            self.nontrivial.add(fingerprint if isinstance(fingerprint, (str, int, tuple)) else repr(fingerprint))
        if sample is not None and len(self.samples) < self.max_samples and nontrivial:
            self.samples.append(jsonable(sample))

    def violation(self, key, what, clause, input_, target=None):
        n = self._per_key.get(key, 0)
        self._per_key[key] = n + 1
        if n < self.max_per_key:
            self.violations.append({"what": what, "clause": clause, "target": target or self.target, "key": key,
                                    "input": jsonable(input_)})

    def result(self, rule, bound, exhaustive=False, **extra):
        out = {"evaluations": self.evaluations, "distinct_nontrivial": len(self.nontrivial), "rule": rule, "bound": bound,
               "exhaustive": exhaustive, "samples": self.samples, "violations": self.violations,
               "violation_counts": dict(self._per_key)}
        out.update(extra)
        return out


def rot_frame(X, salt=0):
    """The data as a DataFrame whose ROW LABELS rotate (deterministically in `salt` and the shape) over default / shifted / strided integer labels and
    dates: every output of a detector is positional, so the labels must make no difference (several seeded changes looked labels up instead)."""
    import pandas as pd
    X = np.asarray(X)
    n = X.shape[0]
    kind = (int(salt) + n + (X.shape[1] if X.ndim > 1 else 1)) % 5
    index = [None, pd.RangeIndex(300, 300 + n), pd.RangeIndex(0, 3 * n, 3), pd.date_range("2021-03-01", periods=n, freq="D"),
             pd.Index([i // 2 for i in range(n)], dtype="int64")][kind]          # the last one: sorted labels with repeated values
    df = pd.DataFrame(X, index=index)
    # column labels rotate as well: default positions / strings / one label repeated for every column (two equally named sensor blocks
    # put side by side): columns are addressed by position everywhere
    ck = (int(salt) + 2 * n) % 3
    if df.shape[1] >= 2 and ck:
        df.columns = [f"v{j}" for j in range(df.shape[1])] if ck == 1 else ["value"] * df.shape[1]
    return df


def _other_value(v):
    """A legal value of the same kind as the nested scorer parameter v, but different from it (None -> not produced here)."""
    if isinstance(v, bool) or v is None:
        return None
    if isinstance(v, (int, float, np.integer, np.floating)):
        return float(v) + 0.75
    if isinstance(v, np.ndarray) and v.dtype.kind in "fi":
        return v.astype(float) + 0.75
    if isinstance(v, tuple) and len(v) == 2:          # (mean, variance / covariance)
        m, c = _other_value(v[0]), v[1]
        if m is None:
            return None
        c2 = (np.asarray(c, dtype=float) * 1.5) if isinstance(c, np.ndarray) else (float(c) * 1.5 if isinstance(c, (int, float)) else None)
        return None if c2 is None else (m, c2)
    return None


def nested_route(det):
    """The same configuration reached another way: a clone of `det` whose scorer parameters (nested `<scorer>__param`-like
    entries of get_params that are plain numbers / arrays / (mean, var) pairs) were first set to OTHER values and then back to the
    target values, both through nested set_params.  By C10 (a set_params-configured object equals a freshly constructed one) the
    result must behave exactly like `det`; a component that keeps a private copy of the scorer taken before the nested update
    does not.  Returns `det` itself when it has no such parameter or the route is not available."""
    try:
        params = det.get_params(deep=True)
        other = {}
        for k, v in params.items():
            if "__" not in k or hasattr(v, "get_params"):
                continue
            o = _other_value(v)
            if o is None and v is None and k.endswith("__param"):       # optimal-parameter cost: some fixed parameter of its kind
                owner = type(params.get(k[: -len("__param")])).__name__
                o = {"L2Cost": 0.75, "GaussianVarCost": (0.25, 1.5), "GaussianCovCost": (0.25, 1.5)}.get(owner)
            if o is not None:
                other[k] = o
        keys = list(other)
        if not keys:
            return det
        d2 = det.clone()
        d2.set_params(**other)
        d2.set_params(**{k: params[k] for k in keys})
        return d2
    except Exception:           # noqa: BLE001 - the route is an extra, never a reason to fail
        return det


_route_counter = [0]


def alternate_route(det):
    """Every second detector handed in is replaced by its nested_route() twin (the drivers' class-level calls alternate between the
    plainly constructed detector and the one re-configured through nested set_params)."""
    _route_counter[0] += 1
    return nested_route(det) if _route_counter[0] % 2 == 0 else det
