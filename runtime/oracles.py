"""Executable definitions of the spec functions (direct, row-by-row; no prefix sums) used by the bounded tier."""
from __future__ import annotations

import itertools
import math

import numpy as np

FLOOR = 1e-16


def rss(x):
    """Residual sum of squares per column of the rows x (2-D)."""
    x = np.asarray(x, dtype=float)
    return ((x - x.mean(axis=0)) ** 2).sum(axis=0)


def sqdev(x, mu):
    x = np.asarray(x, dtype=float)
    return ((x - np.asarray(mu, dtype=float)) ** 2).sum(axis=0)


def l2_cost(x, param=None):
    return rss(x) if param is None else sqdev(x, np.broadcast_to(np.asarray(param, dtype=float).reshape(-1), (x.shape[1],)))


def gaussian_var_cost(x, param=None):
    """Twice the negative Gaussian log-likelihood per column; at the MLE with the variance floored at 1e-16
    (floored corner case: n*log(2 pi 1e-16) + n, DESIGN 5.1)."""
    x = np.asarray(x, dtype=float)
    n, p = x.shape
    if param is None:
        var = np.maximum(rss(x) / n, FLOOR)
        return n * np.log(2 * np.pi * var) + n
    mean, var = param
    mean = np.broadcast_to(np.asarray(mean, dtype=float).reshape(-1), (p,))
    var = np.broadcast_to(np.asarray(var, dtype=float).reshape(-1), (p,))
    return n * np.log(2 * np.pi * var) + sqdev(x, mean) / var


def gaussian_cov_cost(x, param=None):
    """Twice the negative multivariate Gaussian log-likelihood (one value); None if the sample covariance is not PD."""
    x = np.asarray(x, dtype=float)
    n, p = x.shape
    if param is None:
        xc = x - x.mean(axis=0)
        cov = xc.T @ xc / n
        sign, logdet = np.linalg.slogdet(cov.reshape(p, p))
        if sign <= 0:
            return None
        inv = np.linalg.inv(cov)
        quad = float(np.einsum("ij,jk,ik->", xc, inv, xc))
        return np.array([n * p * np.log(2 * np.pi) + n * logdet + quad])
    mean, cov = param
    mean = np.broadcast_to(np.asarray(mean, dtype=float).reshape(-1), (p,))
    cov = np.asarray(cov, dtype=float) * np.eye(p) if np.ndim(cov) == 0 else np.asarray(cov, dtype=float)
    sign, logdet = np.linalg.slogdet(cov)
    xc = x - mean
    quad = float(np.einsum("ij,jk,ik->", xc, np.linalg.inv(cov), xc))
    return np.array([n * p * np.log(2 * np.pi) + n * logdet + quad])


COSTS = {"L2Cost": l2_cost, "GaussianVarCost": gaussian_var_cost, "GaussianCovCost": gaussian_cov_cost}


def change_score(costf, X, s, k, e, param=None):
    a, b, c = costf(X[s:e], param), costf(X[s:k], param), costf(X[k:e], param)
    if a is None or b is None or c is None:
        return None
    return a - b - c


def local_anomaly_score(costf, X, s, a, b, e, param=None):
    outer, inner = costf(X[s:e], param), costf(X[a:b], param)
    sur = costf(np.concatenate((X[s:a], X[b:e])), param)
    if outer is None or inner is None or sur is None:
        return None
    return outer - inner - sur


def saving(costf, X, s, e, baseline):
    base, opt = costf(X[s:e], baseline), costf(X[s:e], None)
    if base is None or opt is None:
        return None
    return base - opt


def segmentations(n, m):
    """All changepoint tuples of [0,n) with every segment (incl. first/last) at least m long."""
    def rec(start):
        yield ()
        for c in range(start + m, n - m + 1):
            for rest in rec(c):
                yield (c,) + rest
    return list(rec(0))


def pelt_optimum(cost, n, m, penalty):
    """Brute-force optimal partitioning: F[t] for t in 0..n (F[t]=None below m) and one optimal changepoint tuple.
    cost(s, e) -> float."""
    F = [None] * (n + 1)
    F[0] = -penalty
    arg = [None] * (n + 1)
    for t in range(m, n + 1):
        best, bi = cost(0, t), 0
        for s in range(m, t - m + 1):
            if F[s] is None:
                continue
            v = F[s] + cost(s, t) + penalty
            if v < best:
                best, bi = v, s
        F[t], arg[t] = best, bi
    cps, t = [], n
    while arg[t]:
        cps.append(arg[t])
        t = arg[t]
    return F, tuple(reversed(cps))


def segmentation_cost(cost, n, cps, penalty):
    b = [0] + list(cps) + [n]
    return sum(cost(b[i], b[i + 1]) for i in range(len(b) - 1)) + penalty * len(cps)


def pen_subset(v, alpha, betas):
    """Statement of C03: max over non-empty subsets J of sum_{j in J} v_j - sum_{k<|J|} beta_k - alpha (subset enumeration)."""
    p = len(v)
    betas = np.broadcast_to(np.asarray(betas, dtype=float).reshape(-1), (p,)) if len(np.atleast_1d(betas)) in (1, p) else np.asarray(betas)
    best = -math.inf
    for k in range(1, p + 1):
        pen = float(np.sum(betas[:k])) + alpha
        for J in itertools.combinations(range(p), k):
            best = max(best, float(sum(v[j] for j in J)) - pen)
    return best


def capa_optimum(psc, psp, n, m, M):
    """Brute-force CAPA optimum G[0..n]: psc(s,e) penalised collective saving of [s,e), psp(t) of the point anomaly at t."""
    G = [0.0] * (n + 1)
    for T in range(1, n + 1):
        best = G[T - 1]
        best = max(best, G[T - 1] + psp(T - 1))
        for s in range(0, T):
            L = T - s
            if m <= L <= M:
                best = max(best, G[s] + psc(s, T))
        G[T] = best
    return G
