"""Concrete failing inputs for failed proof obligations.

The solver's counter-model of a verification condition is a model of ONE path with havocked loop state and uninterpreted spec functions; it is
not in general an input of the function. What can be replayed on the real code is the failed CONTRACT: the real function is run natively on
small random inputs satisfying `requires` and the clauses are evaluated by CPython (runtime/rtcheck.py). A hit is a concrete failing input of the
real code for that contract; no hit leaves the violation at `no-failing-input-found`."""
from __future__ import annotations

import random

from . import rtcheck


def replay(repo, violation, samples=400, budget_s=12.0):
    ident = violation.get("contract")
    if not ident or ident in ("bounded", "theory"):
        return None
    import importlib, os, pkgutil, sys
    here = os.path.dirname(os.path.dirname(os.path.abspath(__file__)))
    if here not in sys.path:
        sys.path.insert(0, here)
    import specs
    from pyvc.contracts import all_contracts
    for m in pkgutil.iter_modules(specs.__path__):
        importlib.import_module("specs." + m.name)
    c = next((x for x in all_contracts() if x.ident == ident), None)
    if c is None or not rtcheck.amenable(c):
        return None
    rtcheck.load_repo(repo)
    import numpy as np
    with np.errstate(all="ignore"):
        r = rtcheck.check_contract(c, repo, random.Random(0), samples, budget_s=budget_s)
    if r["failures"]:
        f = r["failures"][0]
        return {"violated": True, "input": {"rtcheck": True, "contract": ident, "args": f["input"]},
                "detail": f"{f['clause']} of {ident}: {f['what'][:400]} (found by native search over {r['accepted']} inputs satisfying requires)"}
    return {"violated": False}
