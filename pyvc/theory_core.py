"""Small built-in spec functions shared by the numpy model."""
from __future__ import annotations

import z3

from .values import Arr, to_z3

_VSUM = {}


def vsum_of(eng, st, a: Arr):
    """VSUM_A(k) = A[0]+...+A[k-1] for a symbol-backed 1-D array (recursive definition, triggered on VSUM_A(k+1))."""
    key = "VSUM_" + a.fn.name()
    if key in st.ghost_fns:
        return st.ghost_fns[key]
    srt = z3.RealSort() if a.kind == "real" else z3.IntSort()
    f = z3.Function(key, z3.IntSort(), srt)
    k = z3.Int("k!vs")
    st.assume(f(0) == 0)
    st.assume(z3.ForAll([k], z3.Implies(z3.And(k >= 0, k < to_z3(a.shape[0])), f(k + 1) == f(k) + a.fn(k)), patterns=[f(k + 1)]))
    st.ghost_fns[key] = f
    return f
