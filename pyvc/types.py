"""Type strings of contracts -> symbolic values."""
from __future__ import annotations

import ast
import re

import z3

from .values import (NONE, Arr, EngineError, Lst, ObjRef, Opaque, fresh_name, sym_array, sym_list)


class TypeSpec:
    def __init__(self, base, dims=None, elem=None, cls=None, const=None):
        self.base = base      # int real bool none str any fn arr list obj tuple
        self.dims = dims      # list of dim expression strings
        self.elem = elem      # arr: kind ; list: 'int'|'real'|('tuple',[...]) ; tuple: list of TypeSpec
        self.cls = cls
        self.const = const

    def __repr__(self):
        return f"T({self.base},{self.dims},{self.elem},{self.cls},{self.const})"


_ARR = re.compile(r"^(int|real|bool|nreal)\[(.*)\]$")
_LIST = re.compile(r"^list\[(.*)\]$")


def _split_top(s, sep=","):
    out, depth, cur = [], 0, ""
    for ch in s:
        if ch in "([":
            depth += 1
        elif ch in ")]":
            depth -= 1
        if ch == sep and depth == 0:
            out.append(cur.strip())
            cur = ""
        else:
            cur += ch
    if cur.strip():
        out.append(cur.strip())
    return out


def parse_type(s: str) -> TypeSpec:
    s = s.strip()
    if s == "nanreal":
        return TypeSpec("nanreal")
    if s in ("int", "real", "bool", "none", "any", "fn"):
        return TypeSpec(s)
    if s == "str":
        return TypeSpec("str")
    if s.startswith("str="):
        return TypeSpec("str", const=s[4:])
    if s.startswith("int="):
        return TypeSpec("int", const=int(s[4:]))
    if s.startswith("bool="):
        return TypeSpec("bool", const=(s[5:] == "True"))
    if s.startswith("real="):
        return TypeSpec("real", const=float(s[5:]))
    m = _ARR.match(s)
    if m:
        return TypeSpec("arr", dims=_split_top(m.group(2)), elem=m.group(1))
    m = _LIST.match(s)
    if m:
        inner = m.group(1).strip()
        if inner.startswith("("):
            kinds = [k.strip() for k in _split_top(inner[1:-1])]
            kinds = ["arr:" + k[:-2] if k.endswith("[]") else k for k in kinds]      # int[] -> 1-D array component of symbolic length
            return TypeSpec("list", elem=("tuple", kinds))
        return TypeSpec("list", elem=inner)
    if s.startswith("series:") or s.startswith("frame:"):
        b, _, rest = s.partition(":")
        return TypeSpec(b, elem=parse_type(rest))
    if s.startswith("opt:"):
        return TypeSpec("opt", elem=parse_type(s[4:]))
    if s.startswith("alias:"):
        return TypeSpec("alias", cls=s[6:])        # the same object as another (dotted) parameter
    if s.startswith("obj:"):
        return TypeSpec("obj", cls=s[4:])
    if s.startswith("(") and s.endswith(")"):
        return TypeSpec("tuple", elem=[parse_type(x) for x in _split_top(s[1:-1])])
    raise EngineError(f"bad type string {s!r}")


def static_matches(ts: TypeSpec, v, repo=None, exact=False) -> bool:
    """Does the actual value v statically fit the type (rank, none-ness, class, list/tuple-ness)?"""
    from .values import is_boolv, is_intv, is_numv
    if ts.base == "any":
        return True
    if ts.base == "alias":
        from .values import ObjRef as _ObjRef
        return isinstance(v, _ObjRef)
    if ts.base in ("series", "frame"):
        return isinstance(v, Opaque) and v.tag == ts.base
    if ts.base == "opt":
        from .values import OptV
        return v is NONE or isinstance(v, OptV) or static_matches(ts.elem, v, repo, exact)
    if ts.base == "none":
        return v is NONE
    if ts.base == "nanreal":
        from .values import OptV
        return (isinstance(v, OptV) and v.nanlike) or is_numv(v)
    if v is NONE:
        return False
    if ts.base == "int":
        ok = is_intv(v) or is_boolv(v)
        if ok and ts.const is not None:
            return isinstance(v, int) and v == ts.const
        return ok
    if ts.base == "bool":
        if ts.const is not None:
            return isinstance(v, bool) and v == ts.const
        return is_boolv(v)
    if ts.base == "real":
        return is_numv(v)
    if ts.base == "str":
        if ts.const is not None:
            return isinstance(v, str) and v == ts.const
        return isinstance(v, str) or (isinstance(v, Opaque) and v.tag == "str")
    if ts.base == "fn":
        from .values import FuncRef
        return isinstance(v, FuncRef) or (isinstance(v, Opaque) and v.tag == "fn")
    if ts.base == "arr":
        if not isinstance(v, Arr) or v.rank != len(ts.dims):
            return False
        if ts.elem == "nreal":
            if v.nanmask is None:
                return False
        elif ts.elem == "int" and v.kind == "real":
            return False
        if exact and ts.elem != v.kind and not (ts.elem == "nreal"):
            return False
        if ts.elem == "bool" and v.kind != "bool":
            return False
        for d, a in zip(ts.dims, v.shape):
            if d.strip().isdigit() and not (isinstance(a, int) and int(d) == a):
                return False
        return True
    if ts.base == "list":
        return isinstance(v, Lst)
    if ts.base == "tuple":
        return isinstance(v, tuple) and len(v) == len(ts.elem) and all(static_matches(t, x, repo, exact) for t, x in zip(ts.elem, v))
    if ts.base == "obj":
        if not isinstance(v, ObjRef):
            return False
        want_abs = ts.cls.startswith("~")
        cname = ts.cls.lstrip("~")
        if want_abs != bool(getattr(v, "abstract", False)):
            return False
        if repo is None:
            return v.cls.name == cname
        return repo.is_subclass(v.cls, cname)
    return False
