"""Reads the real sources under <repo>/skchange with `ast` on every run.

Unit of verification = the ast.FunctionDef found in the repository file, never a copy.
Dropped by extraction (and nothing else): docstrings, type annotations, and the decorators
@njit/@jit (identity because numba is absent: checked by `numba_absent`), @staticmethod /
@classmethod / @property (interpreted by the engine, not ignored).
"""
from __future__ import annotations

import ast
import hashlib
import importlib.util
import os
from dataclasses import dataclass, field

IGNORED_DECORATORS = {"njit", "jit"}
INTERPRETED_DECORATORS = {"staticmethod", "classmethod", "property"}


def numba_absent() -> bool:
    return importlib.util.find_spec("numba") is None


@dataclass
class FuncInfo:
    path: str            # repo-relative path
    qualname: str        # f or Class.f
    node: ast.FunctionDef
    module: "ModuleInfo"
    cls: "ClassInfo | None" = None
    sha256: str = ""
    lineno: int = 0
    end_lineno: int = 0
    decorators: tuple = ()

    @property
    def key(self):
        return f"{self.path}::{self.qualname}"

    @property
    def params(self):
        a = self.node.args
        names = [x.arg for x in a.posonlyargs + a.args]
        defaults = [None] * (len(names) - len(a.defaults)) + list(a.defaults)
        out = list(zip(names, defaults))
        for x, d in zip(a.kwonlyargs, a.kw_defaults):
            out.append((x.arg, d))
        return out

    @property
    def is_static(self):
        return "staticmethod" in self.decorators

    @property
    def is_property(self):
        return "property" in self.decorators

    @property
    def is_classmethod(self):
        return "classmethod" in self.decorators


@dataclass
class ClassInfo:
    path: str
    name: str
    node: ast.ClassDef
    module: "ModuleInfo"
    bases: list = field(default_factory=list)       # names as written
    methods: dict = field(default_factory=dict)     # name -> FuncInfo
    attrs: dict = field(default_factory=dict)       # class attribute -> ast expr


@dataclass
class ModuleInfo:
    path: str
    modname: str
    tree: ast.Module
    source: str
    imports: dict = field(default_factory=dict)     # local name -> (modname, attr or None)
    functions: dict = field(default_factory=dict)
    classes: dict = field(default_factory=dict)
    globals: dict = field(default_factory=dict)     # simple module-level constants: name -> ast expr


def _decorator_name(d):
    if isinstance(d, ast.Call):
        d = d.func
    if isinstance(d, ast.Attribute):
        return d.attr
    if isinstance(d, ast.Name):
        return d.id
    return "?"


class Repo:
    """Index of the repository's python sources."""

    def __init__(self, root: str):
        self.root = os.path.abspath(root)
        self.modules: dict[str, ModuleInfo] = {}     # by modname
        self.by_path: dict[str, ModuleInfo] = {}
        self._load()

    # ------------------------------------------------------------------ loading
    def _load(self):
        pkg = os.path.join(self.root, "skchange")
        for dirpath, dirnames, filenames in os.walk(pkg):
            dirnames[:] = [d for d in dirnames if d not in ("tests", "__pycache__")]
            for fn in filenames:
                if fn.endswith(".py"):
                    full = os.path.join(dirpath, fn)
                    rel = os.path.relpath(full, self.root)
                    self._load_module(rel, full)

    def _load_module(self, rel, full):
        with open(full, "r", encoding="utf-8") as fh:
            src = fh.read()
        try:
            tree = ast.parse(src)
        except SyntaxError:
            return
        modname = rel[:-3].replace(os.sep, ".")
        if modname.endswith(".__init__"):
            modname = modname[: -len(".__init__")]
        mi = ModuleInfo(rel, modname, tree, src)
        is_pkg = rel.endswith("__init__.py")
        for node in tree.body:
            if isinstance(node, ast.ImportFrom):
                base = node.module or ""
                if node.level:
                    parts = modname.split(".")
                    if not is_pkg:
                        parts = parts[:-1]
                    parts = parts[: len(parts) - (node.level - 1)]
                    base = ".".join(parts + ([node.module] if node.module else []))
                for a in node.names:
                    mi.imports[a.asname or a.name] = (base, a.name)
            elif isinstance(node, ast.Import):
                for a in node.names:
                    mi.imports[a.asname or a.name.split(".")[0]] = (a.name, None)
            elif isinstance(node, ast.FunctionDef):
                mi.functions[node.name] = self._func(mi, node, None)
            elif isinstance(node, ast.ClassDef):
                ci = ClassInfo(rel, node.name, node, mi)
                for b in node.bases:
                    ci.bases.append(_decorator_name(b))
                for sub in node.body:
                    if isinstance(sub, ast.FunctionDef):
                        ci.methods[sub.name] = self._func(mi, sub, ci)
                    elif isinstance(sub, ast.Assign) and len(sub.targets) == 1 and isinstance(sub.targets[0], ast.Name):
                        ci.attrs[sub.targets[0].id] = sub.value
                    elif isinstance(sub, ast.AnnAssign) and isinstance(sub.target, ast.Name) and sub.value is not None:
                        ci.attrs[sub.target.id] = sub.value
                mi.classes[node.name] = ci
            elif isinstance(node, ast.Assign) and len(node.targets) == 1 and isinstance(node.targets[0], ast.Name):
                mi.globals[node.targets[0].id] = node.value
        self.modules[modname] = mi
        self.by_path[rel] = mi

    def _func(self, mi, node, ci):
        seg = ast.get_source_segment(mi.source, node) or ""
        decs = tuple(_decorator_name(d) for d in node.decorator_list)
        for d in decs:
            if d not in IGNORED_DECORATORS and d not in INTERPRETED_DECORATORS:
                # unknown decorator: keep the name; the engine refuses such functions
                pass
        q = node.name if ci is None else f"{ci.name}.{node.name}"
        return FuncInfo(mi.path, q, node, mi, ci, hashlib.sha256(seg.encode()).hexdigest(),
                        node.lineno, node.end_lineno, decs)

    # ------------------------------------------------------------------ lookup
    def func(self, key: str) -> FuncInfo | None:
        path, _, q = key.partition("::")
        mi = self.by_path.get(path)
        if mi is None:
            return None
        if "." in q:
            c, m = q.split(".", 1)
            ci = mi.classes.get(c)
            return ci.methods.get(m) if ci else None
        return mi.functions.get(q)

    def cls(self, name: str, near: ModuleInfo | None = None) -> ClassInfo | None:
        """Find a class by (unique) name; `near` resolves through that module's imports first."""
        if near is not None:
            r = self.resolve(near, name)
            if isinstance(r, ClassInfo):
                return r
        hits = [m.classes[name] for m in self.modules.values() if name in m.classes]
        return hits[0] if len(hits) == 1 else None

    def resolve(self, mi: ModuleInfo, name: str, depth=0):
        """Resolve a global name used in module `mi` to FuncInfo / ClassInfo / ('module', modname) / ('global', expr)."""
        if depth > 6:
            return None
        if name in mi.functions:
            return mi.functions[name]
        if name in mi.classes:
            return mi.classes[name]
        if name in mi.imports:
            mod, attr = mi.imports[name]
            if attr is None:
                return ("module", mod)
            target = self.modules.get(mod)
            if target is not None:
                r = self.resolve(target, attr, depth + 1)
                if r is not None:
                    return r
                sub = self.modules.get(mod + "." + attr)
                if sub is not None:
                    return ("module", sub.modname)
                return None
            return ("external", mod, attr)
        if name in mi.globals:
            return ("global", mi.globals[name])
        return None

    def mro(self, ci: ClassInfo) -> list[ClassInfo]:
        """Linearised ancestors inside the repository (single inheritance here), external bases are dropped."""
        out, seen, cur = [], set(), ci
        while cur is not None and cur.name not in seen:
            out.append(cur)
            seen.add(cur.name)
            nxt = None
            for b in cur.bases:
                r = self.resolve(cur.module, b)
                if isinstance(r, ClassInfo):
                    nxt = r
                    break
            cur = nxt
        return out

    def find_method(self, ci: ClassInfo, name: str) -> FuncInfo | None:
        for c in self.mro(ci):
            if name in c.methods:
                return c.methods[name]
        return None

    def find_class_attr(self, ci: ClassInfo, name: str):
        for c in self.mro(ci):
            if name in c.attrs:
                return c.attrs[name], c
        return None

    def attr_assigned_in_class(self, ci: ClassInfo, name: str):
        """Name of a method of the class (or a base) that assigns self.<name> (plain, augmented or annotated assignment, setattr with a
        literal name), else None: such an attribute may exist at run time although a contract's object model does not list it."""
        for c in self.mro(ci):
            for mname, fi in c.methods.items():
                for n in ast.walk(fi.node):
                    tgts = []
                    if isinstance(n, ast.Assign):
                        tgts = n.targets
                    elif isinstance(n, (ast.AugAssign, ast.AnnAssign)):
                        tgts = [n.target]
                    elif isinstance(n, ast.Call) and isinstance(n.func, ast.Name) and n.func.id == "setattr" and len(n.args) >= 2 \
                            and isinstance(n.args[1], ast.Constant) and n.args[1].value == name:
                        return f"{c.name}.{mname}"
                    for t in tgts:
                        for e in (t.elts if isinstance(t, (ast.Tuple, ast.List)) else [t]):
                            if isinstance(e, ast.Attribute) and e.attr == name and isinstance(e.value, ast.Name) and e.value.id == "self":
                                return f"{c.name}.{mname}"
        return None

    def is_subclass(self, ci: ClassInfo, base: str) -> bool:
        return any(c.name == base for c in self.mro(ci))


def strip_docstring(body):
    if body and isinstance(body[0], ast.Expr) and isinstance(getattr(body[0], "value", None), ast.Constant) \
            and isinstance(body[0].value.value, str):
        return body[1:]
    return body
